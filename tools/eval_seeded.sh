#!/usr/bin/env bash
# For every seeded change under /verif/seeded/<name>/ (patch.diff + meta.json): apply it to a scratch worktree of /repo
# (so that background runs against /repo itself are not disturbed), run the quick check of the property it breaks (plus
# the ids in meta.json "also") with FROST_REPO pointing at that worktree, undo it straight afterwards.
# usage: [EVAL_SLOT=x] tools/eval_seeded.sh [name ...]      (default: all; EVAL_SLOT selects a separate scratch copy / worktree
# so that two evaluations can run side by side)
cd "$(dirname "$0")/.."
# work from a private copy of /verif (own mirror, own build directory) so that checks run from /verif itself at the same
# time are not disturbed
EV=/tmp/verif-eval${EVAL_SLOT:+-$EVAL_SLOT}
mkdir -p $EV && rsync -a --delete --exclude .git --exclude replays --exclude evidence --exclude 'work/*.jsonl' ./ $EV/ || exit 2
mkdir -p $EV/evidence $EV/replays
SEEDED=$PWD/seeded
cd $EV
WT=/tmp/wt/eval${EVAL_SLOT:+-$EVAL_SLOT}
if [ ! -d $WT ]; then git -C /repo worktree add -q --detach $WT HEAD || exit 2; fi
git -C $WT checkout -q --detach $(git -C /repo rev-parse HEAD) && git -C $WT checkout -q -- . 
names=("$@"); [ ${#names[@]} -eq 0 ] && names=($(ls $SEEDED))
for n in "${names[@]}"; do
  d=$SEEDED/$n; [ -f $d/patch.diff ] || continue
  prop=$(python3 -c "import json;print(json.load(open('$d/meta.json'))['property'])")
  also=$(python3 -c "import json;print(' '.join(json.load(open('$d/meta.json')).get('also',[])))")
  if ! git -C $WT apply --check $d/patch.diff 2>/dev/null; then echo "$n: PATCH DOES NOT APPLY"; continue; fi
  git -C $WT apply $d/patch.diff
  for id in $prop $also; do
    out=$(FROST_REPO=$WT ./check $id --no-evidence 2>&1); rc=$?
    v=$(echo "$out" | grep -m1 "oracle=" | sed 's/^ *//' | cut -c1-170)
    echo "$n: $id rc=$rc $v"
  done
  git -C $WT checkout -q -- .
done
find $EV/replays -name '*.json' -delete
