#!/usr/bin/env bash
# For every seeded change under /verif/seeded/<name>/ (patch.diff + meta.json): apply it to a scratch worktree of /repo
# (so that background runs against /repo itself are not disturbed), run the quick check of the property it breaks (plus
# the ids in meta.json "also") with FROST_REPO pointing at that worktree, undo it straight afterwards.
# usage: tools/eval_seeded.sh [name ...]      (default: all)
cd "$(dirname "$0")/.."
WT=/tmp/wt/eval
if [ ! -d $WT ]; then git -C /repo worktree add -q --detach $WT HEAD || exit 2; fi
git -C $WT checkout -q --detach $(git -C /repo rev-parse HEAD) && git -C $WT checkout -q -- . 
names=("$@"); [ ${#names[@]} -eq 0 ] && names=($(ls seeded))
for n in "${names[@]}"; do
  d=seeded/$n; [ -f $d/patch.diff ] || continue
  prop=$(python3 -c "import json;print(json.load(open('$d/meta.json'))['property'])")
  also=$(python3 -c "import json;print(' '.join(json.load(open('$d/meta.json')).get('also',[])))")
  if ! git -C $WT apply --check $PWD/$d/patch.diff 2>/dev/null; then echo "$n: PATCH DOES NOT APPLY"; continue; fi
  git -C $WT apply $PWD/$d/patch.diff
  for id in $prop $also; do
    out=$(FROST_REPO=$WT ./check $id --no-evidence 2>&1); rc=$?
    v=$(echo "$out" | grep -m1 "oracle=" | sed 's/^ *//' | cut -c1-170)
    echo "$n: $id rc=$rc $v"
  done
  git -C $WT checkout -q -- .
done
# leave the shared mirror / binary in the state of /repo itself
./check C20 --no-evidence --runs 1 >/dev/null 2>&1
rm -rf replays/*
