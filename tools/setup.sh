#!/usr/bin/env bash
# Offline setup after a fresh restore: sync the mirror of /repo, build the simulator, self-test the reference.
set -e
VERIF="$(cd "$(dirname "$0")/.." && pwd)"
export CARGO_NET_OFFLINE=true
mkdir -p "$VERIF/work" "$VERIF/evidence" "$VERIF/replays"
rsync -rc --delete --exclude target --exclude .git --exclude '*.png' --exclude '*.pdf' --exclude book "${FROST_REPO:-/repo}/" "$VERIF/mirror/"
cd "$VERIF/sim" && cargo build --offline -q && cargo build --offline -q --profile nodebug --no-default-features --features diag
python3 "$VERIF/ref/selftest.py"
echo "setup ok"
