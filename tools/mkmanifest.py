#!/usr/bin/env python3
"""Regenerates /verif/MANIFEST.json from the table below (keeps it valid at all times)."""
import json, os, sys
V = os.path.dirname(os.path.dirname(os.path.abspath(__file__)))
props = [json.loads(l) for l in open(f"{V}/properties.jsonl")]
ids = [p["id"] for p in props]

# id -> (category, technique, text, note, design_ref)
CLAIMED = {
 "C01": ("exploration", "deterministic simulation: seeded schedules + honest-path faults (reorder, drop+retransmit, duplicate, hold, partition/heal, crash/restart) over a full FROST deployment; oracle = ordinary single-signer verification (library, ed25519-dalek strict, libsecp256k1, Python reference)",
         "Seeded search over worlds (6 suites, n,t, identifier schemes, dealer/split/DKG keys, signer subsets, messages, wire formats) and over delivery schedules and honest-path fault sequences; every completed session is checked with aggregate in all modes, per-signer share verification, decode+verify, and independent verifiers. Evidence, not proof.",
         "Trusts: harness glue, ed25519-dalek, libsecp256k1, Python reference (pinned to RFC 9591 vectors). Authenticated channels.", "DESIGN.md §5 C01"),
 "C03": ("exploration", "deterministic simulation with a Byzantine coalition (|K|<t) lying about thresholds, forging the coordinator's public key package and padding with phantom signers; refusal and degree oracles via harness algebra",
         "Seeded search over worlds and coalitions; every refusal entry point, every lie pattern x aggregate mode, and the degree facts are checked per world.",
         "Secrecy itself is information-theoretic and not measurable; the algebraic facts are checked.", "DESIGN.md §5 C03"),
 "C04": ("fault_enumeration", "deterministic simulation: two concurrent sessions through the simulated network, then enumeration of Byzantine cheater subsets x wrong-share kinds x detection modes against the culprit oracle",
         "Within each sampled world the cheater subsets are enumerated (all 2^|S|-1 for |S|<=5 in the thorough tier, sampled plus fixed shapes in quick); culprit sets compared exactly with the set of altered shares.",
         "A share equal to the honest one counts as honest. Worlds are sampled, not enumerated.", "DESIGN.md §5 C04"),
}
NOT_YET = "check not built yet in this round (planned, see DESIGN.md §5)"

checks = []
for i in ids:
    if i in CLAIMED:
        cat, tech, text, note, ref = CLAIMED[i]
        checks.append({
            "property_id": i,
            "quick_cmd": f"./check {i} --tier quick",
            "thorough_cmd": f"./check {i} --tier thorough",
            "evidence_file": f"/verif/evidence/{i}.json",
            "replay_cmd_template": f"./check {i} --replay {{path}}",
            "engine": "frostsim",
            "level_claimed": {"category": cat, "text": text, "design_ref": ref},
            "level_note": note,
            "technique": tech,
        })
na = [{"property_id": i, "reason": NOT_YET} for i in ids if i not in CLAIMED]
m = {
 "version": 1,
 "setup_cmd": "cd /verif && ./tools/setup.sh",
 "hooks": {
   "guard": "frost_verif",
   "enable": "no hook is needed: every seam is a type parameter (R: CryptoRng), a byte-level (de)serialiser, or lives in the harness binary; the guard name is reserved",
   "baseline_off_cmd": "cd /repo && cargo test --workspace --no-fail-fast --offline",
   "source_commits": [],
   "add_only": True,
 },
 "engines": [{"name": "frostsim", "path": "/verif/sim", "serves_properties": [c["property_id"] for c in checks],
              "kind_free_text": "deterministic simulator (seeded scheduler, simulated network/storage/RNG, fault injection) running the real frost crates; Python reference model under /verif/ref"}],
 "checks": checks,
 "not_applicable": na,
 "notes": "Exit codes: 0 held, 1 violation (VIOLATION line + replay file), 2 harness error. VERIF_SEED and VERIF_TIER honoured. See DESIGN.md §6 for what this technique cannot reach.",
}
json.dump(m, open(f"{V}/MANIFEST.json", "w"), indent=1)
print("wrote MANIFEST.json with", len(checks), "checks,", len(na), "not_applicable")
