#!/usr/bin/env python3
"""Regenerates /verif/MANIFEST.json from the table below (keeps it valid at all times)."""
import json, os, sys
V = os.path.dirname(os.path.dirname(os.path.abspath(__file__)))
props = [json.loads(l) for l in open(f"{V}/properties.jsonl")]
ids = [p["id"] for p in props]

# id -> (category, technique, text, note, design_ref)
CLAIMED = {
 "C01": ("exploration", "deterministic simulation: seeded schedules + honest-path faults (reorder, drop+retransmit, duplicate, hold, partition/heal, crash/restart) over a full FROST deployment; oracle = ordinary single-signer verification (library, ed25519-dalek strict, libsecp256k1, Python reference)",
         "Seeded search over worlds (6 suites, n,t, identifier schemes, dealer/split/DKG keys, signer subsets, messages, wire formats) and over delivery schedules and honest-path fault sequences; every completed session is checked with aggregate in all modes, per-signer share verification, decode+verify, and independent verifiers. Evidence, not proof.",
         "Trusts: harness glue, ed25519-dalek, libsecp256k1, Python reference (pinned to RFC 9591 vectors). Authenticated channels.", "DESIGN.md §5 C01"),
 "C03": ("exploration", "deterministic simulation with a Byzantine coalition (|K|<t) lying about thresholds, forging the coordinator's public key package and padding with phantom signers; refusal and degree oracles via harness algebra",
         "Seeded search over worlds and coalitions; every refusal entry point, every lie pattern x aggregate mode, and the degree facts are checked per world.",
         "Secrecy itself is information-theoretic and not measurable; the algebraic facts are checked.", "DESIGN.md §5 C03"),
 "C04": ("fault_enumeration", "deterministic simulation: two concurrent sessions through the simulated network, then enumeration of Byzantine cheater subsets x wrong-share kinds x detection modes against the culprit oracle",
         "Within each sampled world the cheater subsets are enumerated (all 2^|S|-1 for |S|<=5 in the thorough tier, sampled plus fixed shapes in quick); culprit sets compared exactly with the set of altered shares.",
         "A share equal to the honest one counts as honest. Worlds are sampled, not enumerated.", "DESIGN.md §5 C04"),
}
CLAIMED.update({
 "C05": ("fault_enumeration", "deterministic simulation: two concurrent sessions over the simulated network, then enumeration of cross-session slot fillings (slot-replay fault) and single-field substitutions against accept/reject oracles",
         "All 2^|S| fillings of session A's slots with shares from A or B for |S|<=5 (sampled above); every single-field substitution (message, one hiding/binding commitment, participant added/removed/renamed, group key, verifying share, claimed identifier); signer-side wrong-nonce and missing-entry refusals; identity commitments.",
         "Each substitution is applied only when it changes the value. Worlds sampled.", "DESIGN.md §5 C05"),
 "C06": ("fault_enumeration", "deterministic simulation of dealer -> participants distribution (honest-path faults) + enumeration of single-coordinate tampering of every share + parameter faults; polynomial oracles by harness algebra",
         "Every share x every coordinate (value, identifier, each commitment entry, truncate, extend) is offered to KeyPackage::try_from after a wire round trip; honest output checked against interpolation (all C(n,t) subsets when <= 200), commitment evaluation and list-order independence.",
         "Worlds sampled; tamper positions enumerated within a world.", "DESIGN.md §5 C06"),
 "C07": ("exploration", "deterministic simulation of the three-part DKG under seeded schedules and honest-path faults incl. crash/restart at round boundaries; oracles from recorded wire commitments and persisted secret packages (harness algebra, independent Taproot tweak, Python reference)",
         "Seeded search over n,t, identifier schemes, wire formats, schedules and fault sequences; identical public key packages, per-participant consistency, group key = sum of C_j0 (+Taproot), share = sum_j f_j(i), signing by t-subsets.",
         "Broadcast channel assumed for round 1. Evidence, not proof.", "DESIGN.md §5 C07"),
 "C08": ("fault_enumeration", "deterministic simulation of an honest DKG, snapshot from the recorded history, then enumeration of every (receiver, sender) pair x every Byzantine contribution kind x every field",
         "Per world all pairs x ~25 kinds; oracle: the consuming step fails, culprits within the offending slot, exactly the sender for proof/coefficient/share faults; control run succeeds.",
         "Exactly one fault per trial; no attribution demanded for structural faults.", "DESIGN.md §5 C08"),
 "C09": ("fault_enumeration", "deterministic simulation of two concurrent DKG runs; small-scope exhaustive enumeration of delivery histories (slot-replay / misroute / loss) per participant and of global run assignments",
         "n=3: all 450 histories per participant; n=4: all 18522 in thorough on fast suites, else consistent + single-deviation + random sample; 2^n global assignments with agreement and signing.",
         "Small scope (n in {3,4}, two runs); same round-1 map to part2 and part3.", "DESIGN.md §5 C09"),
 "C10": ("exploration", "deterministic simulation of repeated dealer/distributed refreshes interleaved with signing under honest-path faults; consistency oracles by harness algebra; enumeration of old/new share mixes; Byzantine dealer/peer rejection cases",
         "Seeded search over worlds, remaining sets, procedures and schedules; after each refresh all consistency facts are checked, every old/new mix pattern (|S|<=4) and removed participants must fail to sign, rejection cases incl. threshold change by t+65536 entries.",
         "A mix is required to fail only when the harness confirms its Lagrange sum differs from the secret.", "DESIGN.md §5 C10"),
 "C11": ("exploration", "deterministic simulation of the three repair parts over the network (arrival order = slice order; helper list order drawn) under honest-path faults; oracle = harness interpolation at the repaired identifier",
         "Seeded search over worlds, helper sets (t..n-1), existing/new targets, schedules; repaired share = f(target) = lost share; helper deltas sum to zeta*share; refusals; signing with the repaired package.",
         "Evidence, not proof.", "DESIGN.md §5 C11"),
 "C13": ("fault_enumeration", "deterministic simulation with crash/restart injection: twin runs (uninterrupted baseline vs every single crash point, multi-crash subsets, reload-after-every-transition), byte-equality of all later outputs",
         "Per world every (node, boundary) crash point is enumerated; volatile state is dropped and rebuilt from the simulated durable store (binary or JSON).",
         "Crash between transitions; no storage corruption (property promises nothing about damaged state).", "DESIGN.md §5 C13"),
 "C17": ("exploration", "deterministic simulation of re-randomised sessions under honest-path faults + tampering of seed / commitment set at one participant + Byzantine shares under randomisation; harness algebra for vk+G*r",
         "Seeded search over worlds and schedules; parameter agreement, validity only under the randomised key, randomiser sensitivity, exact culprit naming, threshold enforcement, explicit randomisers incl. zero.",
         "Evidence, not proof.", "DESIGN.md §5 C17"),
 "C19": ("fault_enumeration", "deterministic simulation of a verifier node with several seeded verifier RNG streams; enumeration of invalid-item positions and cancelling pairs against the conjunction of single verifications",
         "Per world: all-valid batches, empty batch, one invalid item at every position (size<=16) per kind, complementary pairs at every pair (size<=8), 3 verifier streams each.",
         "The 2^-128 bound itself is not measurable.", "DESIGN.md §5 C19"),
})
CLAIMED.update({
 "C02": ("exploration", "deterministic simulation in recording mode (random-source and wire seams) + refinement of the recorded history against an independent executable reference model (Python RFC 9591 / BIP-340 implementation pinned to the RFC vectors)",
         "Every recorded session of a sampled population of worlds is recomputed by the reference from (shares, the 32+32 random bytes per signer, message, identifiers): nonces, commitments, binding factors, group commitment, shares, signature compared byte for byte; identifier sweep; single-signer signatures cross over both ways.",
         "Trusted base: the Python reference (refuses to run unless it reproduces the RFC vectors). No schedule in this oracle (DESIGN.md §6).", "DESIGN.md §5 C02"),
 "C12": ("exploration", "deterministic simulation + seeded fault injection on the bytes of every envelope and stored slot (bit flips, byte substitution, length faults, hostile dictionary from the independent reference, version / ciphersuite-id faults, cross-suite misdelivery); canonicity oracle decode => re-encode equals input",
         "Around every valid fixed-size encoding seen in a simulated deployment: all single-bit flips, all values of first/last byte, random substitutions and strings, wrong lengths, hostile encodings; composite types: binary+JSON round trip, header faults, cross-suite payloads. ~3.7M decodes per quick run.",
         "Sampling around valid encodings, never all 2^264 strings; composite postcard encodings are not required to reject trailing bytes.", "DESIGN.md §5 C12"),
 "C14": ("exploration", "deterministic simulation + high-rate seeded corruption / Byzantine faults on every envelope kind and stored slot and adversarial well-typed arguments to every protocol entry point, each call under catch_unwind with overflow checks and debug assertions on",
         "~1.3M decoder inputs (structure-aware mutations, JSON structure damage, cross-suite payloads) + ~270k adversarial entry-point calls per quick run; any panic is a violation with the exact bytes / argument description.",
         "A search for a counter-example: a clean batch is evidence, not proof. Honest local state.", "DESIGN.md §5 C14"),
 "C15": ("exploration", "deterministic simulation with the random-source seam in recording and fault modes (constant, repeating 32/64, counter, replayed, shared between signers); oracle = RFC nonce derivation (suite H3 in harness + Python reference) and 'equal iff (window, share) equal' over the history",
         "Every commit of simulated deployments plus dedicated commit/preprocess(k) histories on faulty sources; exact consumption (two 32-byte requests per pair), H3 derivation, commitments, non-zero, disjoint windows.",
         "'Uniform' is not measurable.", "DESIGN.md §5 C15"),
 "C16": ("exploration", "deterministic simulation with the random-source seam: twin runs of every randomised entry point on recorded / replayed / different / per-draw-perturbed streams",
         "For each of 10 entry points and sampled (n,t): reproducible bit for bit on the same stream, every listed secret-derived value changes on another stream, each draw matters, each value hangs on its own draw, values pairwise distinct, draws >= values.",
         "Draw counts are lower bounds. Batch blinders are not observable (consumption + C19).", "DESIGN.md §5 C16"),
 "C18": ("exploration", "deterministic simulation of Taproot sessions (honest-path faults, Byzantine signers) with the 8 parity cells steered from public observations; oracles: libsecp256k1, independent k256+sha2 BIP-341 code, Python BIP-340/341",
         "Seeded search; each run is assigned a parity cell and reaches it (else harness error); signatures verify under the independently derived output key, not under the untweaked key; culprit naming identical in every cell.",
         "Evidence, not proof.", "DESIGN.md §5 C18"),
 "C20": ("other", "deterministic simulation to populate live secrets, then state inspection at simulated teardown: drop_in_place in a harness-owned slot + allocator seam scanning heap blocks at release; zeroize() re-read; Debug renderings searched for every encoding; non-interference renderings",
         "All secret-bearing types x values from simulated worlds; controls (ManuallyDrop, Copy type, un-wiped heap block) must still show the secret or the run is a harness error.",
         "Observes what the drop glue writes in this build; compiler dead-store elimination elsewhere is out of reach. No schedule in this oracle.", "DESIGN.md §5 C20"),
})
NOT_YET = "check not built yet in this round (planned, see DESIGN.md §5)"

checks = []
for i in ids:
    if i in CLAIMED:
        cat, tech, text, note, ref = CLAIMED[i]
        checks.append({
            "property_id": i,
            "quick_cmd": f"./check {i} --tier quick",
            "thorough_cmd": f"./check {i} --tier thorough",
            "evidence_file": f"/verif/evidence/{i}.json",
            "replay_cmd_template": f"./check {i} --replay {{path}}",
            "engine": "frostsim",
            "level_claimed": {"category": cat, "text": text, "design_ref": ref},
            "level_note": note,
            "technique": tech,
        })
na = [{"property_id": i, "reason": NOT_YET} for i in ids if i not in CLAIMED]
m = {
 "version": 1,
 "setup_cmd": "cd /verif && ./tools/setup.sh",
 "hooks": {
   "guard": "frost_verif",
   "enable": "no hook is needed: every seam is a type parameter (R: CryptoRng), a byte-level (de)serialiser, or lives in the harness binary; the guard name is reserved",
   "baseline_off_cmd": "cd /repo && cargo test --workspace --no-fail-fast --offline",
   "source_commits": [],
   "add_only": True,
 },
 "engines": [{"name": "frostsim", "path": "/verif/sim", "serves_properties": [c["property_id"] for c in checks],
              "kind_free_text": "deterministic simulator (seeded scheduler, simulated network/storage/RNG, fault injection) running the real frost crates; Python reference model under /verif/ref"}],
 "checks": checks,
 "not_applicable": na,
 "notes": "Exit codes: 0 held, 1 violation (VIOLATION line + replay file), 2 harness error. VERIF_SEED and VERIF_TIER honoured. Every check runs a second, smaller batch (a quarter of the runs) on a build without debug assertions / overflow checks (DESIGN.md §0.1). See DESIGN.md §6 for what this technique cannot reach and §0.4 for which checks catch which seeded changes.",
}
json.dump(m, open(f"{V}/MANIFEST.json", "w"), indent=1)
print("wrote MANIFEST.json with", len(checks), "checks,", len(na), "not_applicable")
