#!/usr/bin/env bash
# Determinism: for each property and several seeds, run the same (seed, run count) twice in separate processes at
# different worker counts and compare the batch digest (event logs of every run) and the evaluation counters.
# usage: tools/determinism.sh <runs-per-check> <seed> [seed ...]
cd "$(dirname "$0")/.."
runs=$1; shift
./check C20 --no-evidence --runs 1 >/dev/null 2>&1   # make sure the binary is current
BIN=sim/target/debug/frostsim
bad=0; n=0
for seed in "$@"; do
 for id in C01 C02 C03 C04 C05 C06 C07 C08 C09 C10 C11 C12 C13 C14 C15 C16 C17 C18 C19 C20; do
  a=$(VERIF_SEED=$seed $BIN run $id --verif-dir $PWD --no-evidence --no-ref --runs $runs --jobs 16 | tail -1 | sed 's/wall=[0-9.]*s//')
  b=$(VERIF_SEED=$seed $BIN run $id --verif-dir $PWD --no-evidence --no-ref --runs $runs --jobs 3  | tail -1 | sed 's/wall=[0-9.]*s//')
  n=$((n+1))
  if [ "$a" != "$b" ]; then bad=$((bad+1)); echo "NONDETERMINISTIC seed=$seed $id"; echo " $a"; echo " $b"; fi
  # and the second build profile (no debug assertions, suite crates without default features) must replay the SAME event logs
  if [ -x sim/target/nodebug/frostsim ]; then
    c=$(VERIF_SEED=$seed sim/target/nodebug/frostsim run $id --verif-dir $PWD --no-evidence --no-ref --runs $runs --jobs 8 | tail -1 | sed 's/wall=[0-9.]*s//')
    n=$((n+1))
    if [ "$a" != "$c" ]; then bad=$((bad+1)); echo "BUILD PROFILES DIFFER seed=$seed $id"; echo " $a"; echo " $c"; fi
  fi
 done
 echo "seed $seed compared ($n comparisons, $bad mismatches)"
done
echo "TOTAL: $n comparisons, $bad mismatches"
