#!/usr/bin/env python3
"""Write the prompt for a fresh sub-agent that is to produce property-breaking changes (seeded defects).
usage: tools/mkprompt.py <ID> <round>   ->  /tmp/wt-out/<ID>.prompt<round>.txt  and  /tmp/wt-out/<ID>.property.json
The sub-agent sees the text of ONE property and its own scratch worktree - nothing from /verif. The list of changes
that already exist is taken from the earlier sub-agents' own descriptions (seeded/<ID>-k/meta.json needs_to_manifest)."""
import glob, json, os, sys
ID, rnd = sys.argv[1], int(sys.argv[2])
V = os.path.dirname(os.path.dirname(os.path.abspath(__file__)))
prop = [json.loads(l) for l in open(f"{V}/properties.jsonl") if l.strip() and json.loads(l)["id"] == ID][0]
os.makedirs("/tmp/wt-out", exist_ok=True)
json.dump(prop, open(f"/tmp/wt-out/{ID}.property.json", "w"), indent=1)
t = open(f"{V}/tools/mutant_prompt.template").read()
k1, k2 = 2 * rnd - 1, 2 * rnd
t = t.replace("@ID@", ID).replace("@id@", ID.lower())
t = t.replace(f"demo_{ID.lower()}_1.rs", f"demo_{ID.lower()}_{k1}.rs")
existing = []
for d in sorted(glob.glob(f"{V}/seeded/{ID}-*")):
    m = json.load(open(d + "/meta.json"))
    existing.append(f"- {os.path.basename(d)}: {m['needs_to_manifest']}")
# changes for OTHER properties that turned out to break this one as well
for d in sorted(glob.glob(f"{V}/seeded/*")):
    m = json.load(open(d + "/meta.json"))
    if m["property"] != ID and ID in m.get("also", []):
        existing.append(f"- {os.path.basename(d)} (written for {m['property']}): {m['needs_to_manifest']}")
extra = ""
if existing:
    extra += "\n## Changes that already exist for this property (do NOT repeat them or close variants; find different code sites and different triggers)\n" + "\n".join(existing) + "\n"
if rnd == 2:
    extra += "\nFor this second round, prefer kinds of defects that the first round did not produce: behaviour that depends on a multi-step SEQUENCE of operations, on the ORDER or history in which messages / contributions arrive or are filed, on a restart from persisted state at a particular point, on the INTERACTION of two features, on one particular ciphersuite, or on an error path. Changes guarded by a size threshold were common in the first round: at most one of your two changes may be of that kind.\n"
if rnd >= 3:
    extra += f"""
For this round ({rnd}), look where the earlier rounds did not: (a) the CIPHERSUITE CRATES' OWN code rather than frost-core - their `Ciphersuite` / `Group` / `Field` implementations (hash-to-scalar functions, element and scalar (de)serialisation, identity / cofactor handling, the Taproot crate's pre_sign / pre_aggregate / pre_verify / post_dkg hooks and tweak helpers) and their thin wrapper functions in `frost-*/src/keys/*.rs`, `src/lib.rs` (`round1`, `round2`, `aggregate`, `keys::dkg`, `keys::refresh`, `keys::repairable`), which the generic tests in frost-core mostly bypass; (b) frost-rerandomized and its interaction with the rest; (c) behaviour that exists only in a build WITHOUT debug assertions / overflow checks, or only with / without a cargo feature (`serde`, `serialization`, `cheater-detection`, `internals`); (d) dependence on particular VALUES rather than sizes (a zero or one scalar, the identity or the generator as a point, an identifier equal to another value in the computation, a message that is empty or equals a domain-separation string, high bit set in an encoding, equal hiding and binding nonces, two participants with related shares); (e) what an ERROR names or returns (culprit identifiers, error variants), and what state is left behind after a failed call (can the caller retry?); (f) anything that differs between the FIRST and LATER calls on the same object or between calls in a different ORDER. No change of this round may be guarded by a size threshold (more than N of something).
"""
if rnd >= 4:
    extra = extra.replace("No change of this round may be guarded by a size threshold (more than N of something).", "")
    extra += f"""
Additional guidance for round {rnd}: earlier rounds have used up the obvious sites, size thresholds, build profiles (debug assertions) and cargo features - do NOT use a build profile, a cargo feature or a size threshold as the trigger this time. Go for what is left: (1) the LESS CENTRAL clauses of the property statement (read every sentence of it; pick a clause none of the existing changes attacks); (2) TWO-SITE changes where each edit is harmless alone; (3) behaviour that depends on a particular COMBINATION of parameters (t = 2, t = n, n = 2, exactly t signers versus more, the lowest or the highest identifier, identifiers that are neighbours, a participant that is both helper and signer, the coordinator also being a participant); (4) REPEATED or RE-ORDERED use of the API (the same object used twice, calling part2 twice, refreshing twice in a row, repairing then refreshing then repairing, signing two sessions with interleaved rounds, aggregating the same shares twice); (5) EQUAL or RELATED inputs (two participants with the same commitment, the same message in two sessions, a share equal to another share, a key equal to a nonce); (6) the contents of SUCCESSFUL outputs that nobody reads in the tests (recorded threshold, recorded identifier, the verifying shares inside a package, the header of an encoded value, what getters return after a state change). Prefer silent wrong results over errors or panics.
"""
marker = "## Deliverables"
i = t.index(marker)
t = t[:i] + extra.lstrip("\n") + "\n" + t[i:]
t = t.replace("(for each change k = 1, 2)", f"(for each change k = {k1}, {k2} - this is round {rnd})")
t = t.replace("mut<k>", "mut<k>")
open(f"/tmp/wt-out/{ID}.prompt{rnd}.txt", "w").write(t)
print(f"/tmp/wt-out/{ID}.prompt{rnd}.txt")
