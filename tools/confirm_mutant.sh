#!/usr/bin/env bash
# Confirm a sub-agent's seeded change in its scratch worktree: (1) patch applies and the whole workspace test suite passes
# with it (demo files moved aside), (2) the demo fails with the change, (3) the demo passes without it.
# usage: confirm_mutant.sh <ID> <k>     (uses /tmp/wt/<ID> and /tmp/wt-out/<ID>/mut<k>)
ID=$1; K=$2; WT=/tmp/wt/$ID; OUT=/tmp/wt-out/$ID/mut$K
export CARGO_NET_OFFLINE=true
cd $WT || exit 2
git checkout -q -- . ; 
# park every demo test so the suite run covers only the existing tests
mkdir -p /tmp/wt-out/$ID/parked; find . -path ./target -prune -o -name 'demo_*' -print | while read f; do mv "$f" /tmp/wt-out/$ID/parked/ 2>/dev/null; done
git status --short | grep -v '^??' ; 
git apply --check $OUT/patch.diff || { echo "RESULT $ID mut$K: patch does not apply"; exit 1; }
git apply $OUT/patch.diff
cargo test --workspace --no-fail-fast --offline > $OUT/confirm_suite.log 2>&1
suite_rc=$?
passed=$(grep -E "^test result" $OUT/confirm_suite.log | awk '{p+=$4; f+=$6} END {print p" passed "f" failed"}')
DP=$(cat $OUT/demo_path.txt | tr -d '\n' | sed 's/^ *//;s/ *$//')
mkdir -p $(dirname $DP); cp $OUT/demo.rs $DP
CMD=$(grep -v '^#' $OUT/demo_cmd.txt | grep cargo | head -1 | sed "s#cd /tmp/wt/$ID *&& *##")
( eval "$CMD" ) > $OUT/confirm_demo_with.log 2>&1; with_rc=$?
git apply -R $OUT/patch.diff
( eval "$CMD" ) > $OUT/confirm_demo_without.log 2>&1; without_rc=$?
rm -f $DP
echo "RESULT $ID mut$K: suite_rc=$suite_rc ($passed) demo_with_change_rc=$with_rc demo_without_change_rc=$without_rc  [want 0, !=0, 0]"
