#!/usr/bin/env bash
# the closing validation of a build round: zero-alarm sweep over seeds, determinism (worker counts and build profiles), thorough tier
cd "$(dirname "$0")/.."
echo "== multiseed"; ./tools/multiseed.sh 1 4 9
echo "== determinism"; ./tools/determinism.sh 24 6 7
echo "== thorough"; ./tools/thorough_all.sh
