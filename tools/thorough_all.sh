#!/usr/bin/env bash
# run every thorough check once (no evidence), report wall time and exit code
cd "$(dirname "$0")/.."
for id in "${@:-C01 C02 C03 C04 C05 C06 C07 C08 C09 C10 C11 C12 C13 C14 C15 C16 C17 C18 C19 C20}"; do
 for i in $id; do
  s=$(date +%s); out=$(./check $i --tier thorough --no-evidence 2>&1); rc=$?; e=$(date +%s)
  echo "$i thorough rc=$rc $((e-s))s $(echo "$out" | tail -1 | cut -c1-160)"
  [ $rc -ne 0 ] && echo "$out" | grep -E "VIOLATION|oracle=|HARNESS" | head -5
 done
done
exit 0
