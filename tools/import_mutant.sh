#!/usr/bin/env bash
# import a confirmed sub-agent change: import_mutant.sh <ID> <k> "<needs>"  -> /verif/seeded/<ID>-<k>/
ID=$1; K=$2; NEEDS="$3"; SRC=/tmp/wt-out/$ID/mut$K; DST=/verif/seeded/$ID-$K
mkdir -p $DST; cp $SRC/patch.diff $SRC/demo.rs $SRC/demo_path.txt $SRC/demo_cmd.txt $DST/; cp $SRC/README.md $DST/README.md
R=$(cat /tmp/wt-out/$ID/confirm*.log | grep "RESULT $ID mut$K" | tail -1)
python3 - "$ID" "$K" "$NEEDS" "$R" <<'PY'
import json,sys
ID,K,needs,res=sys.argv[1:5]
json.dump({"property":ID,"source":"independent sub-agent given only the property text and a scratch worktree","needs_to_manifest":needs,
 "confirmed":{"what_was_run":"tools/confirm_mutant.sh in the scratch worktree: full workspace suite with the change (demo files parked), demo with the change, demo without it","result":res},
 "also":[]}, open(f"/verif/seeded/{ID}-{K}/meta.json","w"), indent=1)
PY
echo imported $DST
