#!/usr/bin/env bash
# zero-alarm sweep: every quick check under several seeds; prints only failures and a summary
cd "$(dirname "$0")/.."
fail=0
for seed in "$@"; do
  for id in C01 C02 C03 C04 C05 C06 C07 C08 C09 C10 C11 C12 C13 C14 C15 C16 C17 C18 C19 C20; do
    out=$(VERIF_SEED=$seed ./check $id --no-evidence 2>&1); rc=$?
    if [ $rc -ne 0 ]; then fail=$((fail+1)); echo "SEED $seed $id rc=$rc"; echo "$out" | grep -E "VIOLATION|oracle=|HARNESS" | head -5; fi
  done
  echo "seed $seed done (failures so far: $fail)"
done
echo "TOTAL FAILURES: $fail"; [ $fail -eq 0 ]
