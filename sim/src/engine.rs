//! Seeded search driver: shards runs over worker threads (results merged in run-index order, so
//! the outcome is independent of the worker count), minimises and persists violations as replay
//! files, writes the evidence file.

use std::collections::{BTreeMap, BTreeSet};
use std::io::Write;
use std::panic::{AssertUnwindSafe, catch_unwind};
use std::sync::Mutex;
use std::sync::atomic::{AtomicBool, AtomicU64, Ordering};
use std::time::Instant;

use serde_json::{Value, json};

use crate::genr::Tier;
use crate::prng::fnv64;
use crate::scenario::*;

#[derive(Default, Clone, Debug)]
pub struct RunReport {
    pub probes: BTreeMap<String, u64>,
    pub faults_fired: BTreeMap<String, u64>,
    pub steps: u64,
    pub delivered: u64,
    pub evaluations: u64,
    pub digest: u64,
    pub nontrivial: bool,
    pub shape: String,
    pub extra_shapes: Vec<String>,
    pub sample: Option<Value>,
    /// lines for the Python reference (one JSON object each)
    pub trace: Vec<String>,
}

impl RunReport {
    pub fn probe(&mut self, name: &str) {
        *self.probes.entry(name.to_string()).or_default() += 1;
    }
    pub fn probe_n(&mut self, name: &str, n: u64) {
        *self.probes.entry(name.to_string()).or_default() += n;
    }
}

pub enum Exec {
    Ok(RunReport),
    Violation(Violation, RunReport),
    Harness(String),
}

pub struct Prop {
    pub id: &'static str,
    pub level: &'static str,
    pub runs: fn(Tier) -> u64,
    pub generate: fn(u64, u64, Tier) -> Scenario,
    pub exec: fn(&Scenario) -> Exec,
    pub shrink: fn(&Scenario) -> Vec<Scenario>,
    pub rule: &'static str,
    pub distinct_measure: &'static str,
    pub assumptions: &'static [&'static str],
    pub real: &'static [&'static str],
    pub stub: &'static [&'static str],
    pub independent: &'static [&'static str],
    /// how many trace lines per (type, suite) the reference checks in the quick tier (0 = no reference)
    pub ref_sample: fn(Tier) -> usize,
    /// probes that must be non-zero, else the run is a harness error (coverage floor)
    pub required_probes: &'static [&'static str],
    /// optional preparation step run once before the batch (e.g. ask the reference for inputs)
    pub prepare: Option<fn(&Options) -> Result<(), String>>,
}

pub struct Options {
    pub tier: Tier,
    pub seed: u64,
    pub runs: Option<u64>,
    pub jobs: usize,
    pub evidence: Option<String>,
    pub verif_dir: String,
    pub max_wall_s: u64,
    pub write_evidence: bool,
    pub no_ref: bool,
    /// fraction of the default run count (second-profile runs)
    pub scale: f64,
    /// recorded in replay files so that `check --replay` picks the same build
    pub profile_tag: String,
}

pub struct KnownFinding {
    pub property: String,
    pub oracle: String,
    pub suite: String,
    pub needle: String,
    pub text: String,
}

pub fn load_known(verif_dir: &str) -> Vec<KnownFinding> {
    let mut v = Vec::new();
    let Ok(s) = std::fs::read_to_string(format!("{verif_dir}/KNOWN_FINDINGS.txt")) else {
        return v;
    };
    for line in s.lines() {
        let line = line.trim();
        if !line.starts_with("known:") {
            continue;
        }
        let (head, text) = match line.split_once("::") {
            Some((h, t)) => (h, t.trim().to_string()),
            None => (line, String::new()),
        };
        let mut kf = KnownFinding { property: String::new(), oracle: String::new(), suite: "*".into(), needle: String::new(), text };
        for tok in head["known:".len()..].split_whitespace() {
            if let Some((k, val)) = tok.split_once('=') {
                match k {
                    "property" => kf.property = val.into(),
                    "oracle" => kf.oracle = val.into(),
                    "suite" => kf.suite = val.into(),
                    "match" => kf.needle = val.into(),
                    _ => {}
                }
            }
        }
        if !kf.property.is_empty() && !kf.oracle.is_empty() {
            v.push(kf);
        }
    }
    v
}

fn known_match<'a>(known: &'a [KnownFinding], scen: &Scenario, v: &Violation) -> Option<&'a KnownFinding> {
    known.iter().find(|k| {
        k.property == v.property && k.oracle == v.oracle && (k.suite == "*" || k.suite == scen.suite) && (k.needle.is_empty() || v.detail.contains(&k.needle))
    })
}

struct PerRun {
    report: RunReport,
    violation: Option<(Scenario, Violation)>,
    harness: Option<String>,
    suite: String,
}

pub fn run_exec(prop: &Prop, scen: &Scenario) -> Exec {
    match catch_unwind(AssertUnwindSafe(|| (prop.exec)(scen))) {
        Ok(e) => e,
        Err(p) => {
            let what = if let Some(s) = p.downcast_ref::<&str>() {
                s.to_string()
            } else if let Some(s) = p.downcast_ref::<String>() {
                s.clone()
            } else {
                "panic".into()
            };
            // where did it panic? The hook keeps "panicked at <file>:<line>:<col>: <message>". A panic raised inside the library's own
            // sources (the mirror of /repo) on inputs a check built through the public API is the library's failure to answer, not
            // the harness's: it is reported as a violation of the property being checked; anything else is a harness error.
            let loc = crate::props::c14::LAST_PANIC.with(|l| l.borrow().clone());
            if loc.contains("/mirror/frost-") {
                let mut v = Violation::new(prop.id, &format!("{}.library_panicked", prop.id), format!("a library call made by this check panicked: {}", loc.chars().take(300).collect::<String>()));
                v.narrow = None;
                return Exec::Violation(v, RunReport::default());
            }
            Exec::Harness(format!("harness panic in run {} ({}): {what} [{}]", scen.run, scen.suite, loc.chars().take(200).collect::<String>()))
        }
    }
}

/// `frostsim digest <ID> <run>`: execute one run alone and print its event-log digest and evaluation count.
pub fn digest_of_run(prop: &Prop, opt: &Options, run: u64) -> i32 {
    let scen = (prop.generate)(opt.seed, run, opt.tier);
    match run_exec(prop, &scen) {
        Exec::Ok(r) => {
            println!("digest={} evaluations={} outcome=ok", r.digest, r.evaluations);
            0
        }
        Exec::Violation(v, r) => {
            println!("digest={} evaluations={} outcome=violation:{}", r.digest, r.evaluations, v.oracle);
            1
        }
        Exec::Harness(e) => {
            println!("outcome=harness:{e}");
            2
        }
    }
}

/// `frostsim digest <ID> <replay file>`: execute the file's scenario alone and print its digest.
pub fn digest_of_file(prop: &Prop, path: &str) -> i32 {
    let Some(scen) = std::fs::read_to_string(path).ok().and_then(|b| serde_json::from_str::<Scenario>(&b).ok()) else {
        println!("outcome=harness:cannot read {path}");
        return 2;
    };
    match run_exec(prop, &scen) {
        Exec::Ok(r) | Exec::Violation(_, r) => {
            println!("digest={} evaluations={} outcome=done", r.digest, r.evaluations);
            0
        }
        Exec::Harness(e) => {
            println!("outcome=harness:{e}");
            2
        }
    }
}

/// Delta-debug the scenario while the same oracle of the same property keeps firing.
pub fn minimise(prop: &Prop, scen: &Scenario, viol: &Violation, digest0: u64) -> (Scenario, Violation, u64) {
    let mut cur = scen.clone();
    let mut cur_v = viol.clone();
    let mut cur_d = digest0;
    let mut attempts = 0;
    let started = Instant::now();
    // a sweep that failed on one trial: first restrict the scenario to that trial
    if let Some(only) = &viol.narrow {
        let mut cand = cur.clone();
        if !cand.extra.is_object() {
            cand.extra = json!({});
        }
        cand.extra["only"] = only.clone();
        if let Exec::Violation(v, r) = run_exec(prop, &cand) {
            if v.oracle == viol.oracle {
                cur = cand;
                cur_v = v;
                cur_d = r.digest;
            }
        }
    }
    'outer: loop {
        let cands = (prop.shrink)(&cur);
        for cand in cands {
            attempts += 1;
            if attempts > 400 || started.elapsed().as_secs() > 60 {
                break 'outer;
            }
            if let Exec::Violation(v, r) = run_exec(prop, &cand) {
                if v.oracle == viol.oracle && v.property == viol.property {
                    cur = cand;
                    cur_v = v;
                    cur_d = r.digest;
                    continue 'outer;
                }
            }
        }
        break;
    }
    cur.minimised_from = json!({
        "phases": scen.phases.len(),
        "instances": scen.inst_count(),
        "faults": scen.faults.len(),
        "n": scen.n,
        "attempts": attempts,
    });
    (cur, cur_v, cur_d)
}

pub fn write_replay(verif_dir: &str, scen: &Scenario, v: &Violation, digest: u64) -> String {
    let mut s = scen.clone();
    s.oracle = v.oracle.clone();
    s.detail = v.detail.clone();
    s.event_log_digest = format!("{digest:016x}");
    let dir = format!("{verif_dir}/replays");
    let _ = std::fs::create_dir_all(&dir);
    let oracle_tag: String = v.oracle.chars().map(|c| if c.is_ascii_alphanumeric() { c } else { '_' }).collect();
    let path = format!("{dir}/{}-{}-{}-{}-{}.json", v.property, scen.suite, scen.seed, scen.run, oracle_tag);
    let body = serde_json::to_string_pretty(&s).unwrap();
    let _ = std::fs::write(&path, body);
    path
}

/// Generic scenario-level shrink candidates.
pub fn generic_shrink(s: &Scenario) -> Vec<Scenario> {
    let mut out = Vec::new();
    // drop all faults, then each fault
    if !s.faults.is_empty() {
        let mut c = s.clone();
        c.faults.clear();
        out.push(c);
        for i in 0..s.faults.len() {
            let mut c = s.clone();
            c.faults.remove(i);
            out.push(c);
        }
    }
    if s.sched != Sched::Fifo {
        let mut c = s.clone();
        c.sched = Sched::Fifo;
        out.push(c);
    }
    // drop trailing phases / single instances of later phases (fault references to removed
    // instances simply never fire; instance ids of earlier instances are unchanged when removing from the end)
    if s.phases.len() > 1 {
        let mut c = s.clone();
        c.phases.pop();
        let cnt = c.inst_count() as u32;
        c.faults.retain(|f| fault_inst(f) < cnt);
        out.push(c);
        let last = s.phases.len() - 1;
        if s.phases[last].len() > 1 {
            let mut c = s.clone();
            c.phases[last].pop();
            let cnt = c.inst_count() as u32;
            c.faults.retain(|f| fault_inst(f) < cnt);
            out.push(c);
        }
    }
    if s.wire != crate::wire::Fmt::Bin {
        let mut c = s.clone();
        c.wire = crate::wire::Fmt::Bin;
        out.push(c);
    }
    // default identifiers
    if s.id_scheme != "default" {
        let mut c = s.clone();
        c.id_scheme = "default".into();
        c.ids_hex = crate::genr::default_ids_hex(&s.suite, s.np());
        out.push(c);
    }
    // one participant fewer: the last participant node, if nothing refers to it
    if s.spares == 0 && s.n > 2 && s.t < s.n {
        let last = s.n as usize - 1;
        let referenced = s.phases.iter().flatten().any(|i| match i {
            Inst::Sign { signers, .. } => signers.contains(&last),
            Inst::RefreshDealer { remaining } | Inst::RefreshDkg { remaining } => remaining.contains(&last),
            Inst::Repair { target, helpers } => *target == last || helpers.contains(&last),
            _ => false,
        });
        if !referenced {
            let old_hub = s.hub();
            let mut c = s.clone();
            c.n -= 1;
            c.ids_hex.remove(last);
            let new_hub = c.hub();
            let remap = |n: usize| if n == old_hub { Some(new_hub) } else if n == last { None } else { Some(n) };
            let remap_m = |m: &MsgRef| Some(MsgRef { inst: m.inst, kind: m.kind, from: remap(m.from)?, to: remap(m.to)? });
            c.faults = s
                .faults
                .iter()
                .filter_map(|f| {
                    Some(match f {
                        Fault::Drop(m) => Fault::Drop(remap_m(m)?),
                        Fault::Dup(m) => Fault::Dup(remap_m(m)?),
                        Fault::Hold(m, k) => Fault::Hold(remap_m(m)?, *k),
                        Fault::Crash { node, after, down_for } => Fault::Crash { node: remap(*node)?, after: remap_m(after)?, down_for: *down_for },
                        Fault::CrashAfterStart { node, inst, down_for } => Fault::CrashAfterStart { node: remap(*node)?, inst: *inst, down_for: *down_for },
                        Fault::Partition { nodes, after, steps } => Fault::Partition { nodes: nodes.iter().filter_map(|n| remap(*n)).collect(), after: remap_m(after)?, steps: *steps },
                    })
                })
                .collect();
            out.push(c);
        }
    }
    // simplify signing instances: empty message, fewer signers
    for (pi, ph) in s.phases.iter().enumerate() {
        for (ii, inst) in ph.iter().enumerate() {
            if let Inst::Sign { signers, msg_hex, mode } = inst {
                if !msg_hex.is_empty() {
                    let mut c = s.clone();
                    c.phases[pi][ii] = Inst::Sign { signers: signers.clone(), msg_hex: String::new(), mode: mode.clone() };
                    out.push(c);
                }
                if signers.len() > s.t as usize {
                    let mut c = s.clone();
                    let mut sg = signers.clone();
                    sg.pop();
                    c.phases[pi][ii] = Inst::Sign { signers: sg, msg_hex: msg_hex.clone(), mode: mode.clone() };
                    out.push(c);
                }
            }
        }
    }
    out
}

fn fault_inst(f: &Fault) -> u32 {
    match f {
        Fault::Drop(m) | Fault::Dup(m) | Fault::Hold(m, _) => m.inst,
        Fault::Crash { after, .. } | Fault::Partition { after, .. } => after.inst,
        Fault::CrashAfterStart { inst, .. } => *inst,
    }
}

pub fn run_property(prop: &Prop, opt: &Options) -> i32 {
    let t0 = Instant::now();
    let runs = opt.runs.unwrap_or_else(|| (((prop.runs)(opt.tier) as f64) * opt.scale).max(1.0) as u64);
    println!("frostsim property={} tier={} VERIF_SEED={} runs={} jobs={} build_profile={}", prop.id, opt.tier.name(), opt.seed, runs, opt.jobs, opt.profile_tag);
    let known = load_known(&opt.verif_dir);
    if let Some(prep) = prop.prepare {
        if let Err(e) = prep(opt) {
            println!("HARNESS-ERROR: {e}");
            return 2;
        }
    }
    let next = AtomicU64::new(0);
    let stop = AtomicBool::new(false);
    let results: Mutex<BTreeMap<u64, PerRun>> = Mutex::new(BTreeMap::new());
    let viol_count = AtomicU64::new(0);
    std::thread::scope(|sc| {
        for _ in 0..opt.jobs.max(1) {
            sc.spawn(|| {
                loop {
                    if stop.load(Ordering::Relaxed) {
                        break;
                    }
                    let i = next.fetch_add(1, Ordering::Relaxed);
                    if i >= runs {
                        break;
                    }
                    if t0.elapsed().as_secs() > opt.max_wall_s {
                        stop.store(true, Ordering::Relaxed);
                        break;
                    }
                    let scen = match catch_unwind(AssertUnwindSafe(|| (prop.generate)(opt.seed, i, opt.tier))) {
                        Ok(s) => s,
                        Err(_) => {
                            stop.store(true, Ordering::Relaxed);
                            let what = crate::props::c14::LAST_PANIC.with(|l| l.borrow().clone());
                            results.lock().unwrap().insert(i, PerRun { report: RunReport::default(), violation: None, harness: Some(format!("harness panic while generating run {i}: {what}")), suite: "?".into() });
                            break;
                        }
                    };
                    let suite = scen.suite.clone();
                    let pr = match run_exec(prop, &scen) {
                        Exec::Ok(r) => PerRun { report: r, violation: None, harness: None, suite },
                        Exec::Violation(v, r) => {
                            // stop scheduling new work after a handful of violations
                            if viol_count.fetch_add(1, Ordering::Relaxed) >= 24 {
                                stop.store(true, Ordering::Relaxed);
                            }
                            PerRun { report: r, violation: Some((scen, v)), harness: None, suite }
                        }
                        Exec::Harness(e) => {
                            stop.store(true, Ordering::Relaxed);
                            PerRun { report: RunReport::default(), violation: None, harness: Some(e), suite }
                        }
                    };
                    results.lock().unwrap().insert(i, pr);
                }
            });
        }
    });
    let results = results.into_inner().unwrap();
    // merge in run-index order
    let mut total = RunReport::default();
    let mut shapes: BTreeSet<u64> = BTreeSet::new();
    let mut suites: BTreeMap<String, u64> = BTreeMap::new();
    let mut samples: Vec<Value> = Vec::new();
    let mut digest_all = crate::prng::Digest::default();
    let mut distinct_logs: BTreeSet<u64> = BTreeSet::new();
    let mut harness_errors: Vec<String> = Vec::new();
    let mut violations: Vec<(Scenario, Violation, u64)> = Vec::new();
    let mut fresh_replays = 0u64;
    let mut trace_lines: Vec<(u64, String)> = Vec::new();
    let done_runs = results.len() as u64;
    for (i, pr) in &results {
        if let Some(e) = &pr.harness {
            harness_errors.push(e.clone());
            continue;
        }
        let r = &pr.report;
        for (k, v) in &r.probes {
            *total.probes.entry(k.clone()).or_default() += v;
        }
        for (k, v) in &r.faults_fired {
            *total.faults_fired.entry(k.clone()).or_default() += v;
        }
        total.steps += r.steps;
        total.delivered += r.delivered;
        total.evaluations += r.evaluations;
        if r.nontrivial {
            shapes.insert(fnv64(r.shape.as_bytes()));
            for s in &r.extra_shapes {
                shapes.insert(fnv64(s.as_bytes()));
            }
        }
        *suites.entry(pr.suite.clone()).or_default() += 1;
        digest_all.add(&r.digest.to_le_bytes());
        distinct_logs.insert(r.digest);
        if let Some(s) = &r.sample {
            if samples.len() < 4 || (samples.len() < 8 && i % 97 == 0) {
                samples.push(s.clone());
            }
        }
        for l in &r.trace {
            trace_lines.push((*i, l.clone()));
        }
        if let Some((scen, v)) = &pr.violation {
            violations.push((scen.clone(), v.clone(), r.digest));
        }
    }

    // independent reference over the recorded history
    let mut ref_summary = Value::Null;
    let ref_k = (prop.ref_sample)(opt.tier);
    if !trace_lines.is_empty() && harness_errors.is_empty() && !opt.no_ref {
        let work = format!("{}/work", opt.verif_dir);
        let _ = std::fs::create_dir_all(&work);
        let path = format!("{work}/{}.{}.trace.jsonl", prop.id, opt.tier.name());
        let mut f = std::fs::File::create(&path).expect("trace file");
        for (_, l) in &trace_lines {
            writeln!(f, "{l}").unwrap();
        }
        drop(f);
        let mut cmd = std::process::Command::new("python3");
        cmd.arg(format!("{}/ref/check_trace.py", opt.verif_dir)).arg("--jobs").arg(format!("{}", opt.jobs));
        if ref_k > 0 {
            cmd.arg("--sample").arg(format!("{ref_k}")).arg("--seed").arg(format!("{}", opt.seed));
        }
        cmd.arg(&path);
        match cmd.output() {
            Err(e) => harness_errors.push(format!("cannot run reference: {e}")),
            Ok(out) => {
                let stdout = String::from_utf8_lossy(&out.stdout).to_string();
                let code = out.status.code().unwrap_or(2);
                let last = stdout.lines().last().unwrap_or("").to_string();
                ref_summary = serde_json::from_str(&last).unwrap_or(Value::String(last));
                if code == 2 || code > 2 {
                    harness_errors.push(format!("reference failed (exit {code}): {} {}", stdout.lines().last().unwrap_or(""), String::from_utf8_lossy(&out.stderr)));
                } else if code == 1 {
                    let mut seen_runs = BTreeSet::new();
                    for l in stdout.lines().filter(|l| l.starts_with("MISMATCH")) {
                        // MISMATCH line=<n> ...
                        let lineno: usize = l.split_whitespace().find_map(|t| t.strip_prefix("line=")).and_then(|v| v.parse().ok()).unwrap_or(0);
                        if lineno == 0 || lineno > trace_lines.len() {
                            continue;
                        }
                        let run = trace_lines[lineno - 1].0;
                        if !seen_runs.insert(run) {
                            continue;
                        }
                        let scen = (prop.generate)(opt.seed, run, opt.tier);
                        let v = Violation::new(prop.id, &format!("{}.reference_mismatch", prop.id), l.to_string());
                        violations.push((scen, v, results.get(&run).map(|p| p.report.digest).unwrap_or(0)));
                    }
                }
            }
        }
    }

    // coverage floor
    if harness_errors.is_empty() && violations.is_empty() && done_runs == runs {
        for p in prop.required_probes {
            if total.probes.get(*p).copied().unwrap_or(0) == 0 {
                harness_errors.push(format!("coverage floor: probe '{p}' stayed at zero"));
            }
        }
    }

    // fresh-process replay of sampled runs: one run of every suite (the last of each) and run 0 are executed again, each
    // ALONE in a new process, and must reproduce the same event log and the same number of evaluations. A replay is a pure
    // function of seed, run and code - state that lives in the process (a cache filled by whichever ciphersuite came first, a
    // lazily initialised table) would make the in-batch result depend on what ran before it.
    if harness_errors.is_empty() && violations.is_empty() && done_runs == runs && std::env::var("FROSTSIM_NO_FRESH_REPLAY").is_err() {
        let mut picks: Vec<u64> = Vec::new();
        let mut seen: BTreeSet<String> = BTreeSet::new();
        // the LAST run of every suite (the first indices carry the deliberately huge worlds of some checks) and run 0
        for (i, pr) in results.iter().rev() {
            if seen.insert(pr.suite.clone()) {
                picks.push(*i);
            }
        }
        if results.contains_key(&0) && !picks.contains(&0) {
            picks.push(0);
        }
        let exe = std::env::current_exe().ok();
        // all children at once (they are independent), then collect
        let mut children = Vec::new();
        for run in picks {
            let Some(exe) = &exe else { break };
            let child = std::process::Command::new(exe)
                .args(["digest", prop.id, &run.to_string(), "--seed", &opt.seed.to_string(), "--tier", opt.tier.name(), "--verif-dir", &opt.verif_dir])
                .env("FROSTSIM_NO_FRESH_REPLAY", "1")
                .stdout(std::process::Stdio::piped())
                .stderr(std::process::Stdio::null())
                .spawn();
            children.push((run, child));
        }
        for (run, child) in children {
            let text = match child.and_then(|c| c.wait_with_output()) {
                Ok(o) => String::from_utf8_lossy(&o.stdout).to_string(),
                Err(e) => {
                    harness_errors.push(format!("fresh-process replay of run {run}: cannot start: {e}"));
                    continue;
                }
            };
            let get = |k: &str| text.split_whitespace().find_map(|w| w.strip_prefix(k)).and_then(|v| v.parse::<u64>().ok());
            let (Some(d), Some(ev)) = (get("digest="), get("evaluations=")) else {
                harness_errors.push(format!("fresh-process replay of run {run}: no result line ({})", text.chars().take(200).collect::<String>()));
                continue;
            };
            let pr = &results[&run];
            fresh_replays += 1;
            if d != pr.report.digest || ev != pr.report.evaluations {
                let scen = (prop.generate)(opt.seed, run, opt.tier);
                let v = Violation::new(
                    prop.id,
                    &format!("{}.fresh_process_replay_differs", prop.id),
                    format!(
                        "run {run} ({}) executed alone in a fresh process gives event-log digest {d:016x} / {ev} evaluations, inside the batch {:016x} / {}: the library's behaviour depends on what the process did before (state shared across calls or ciphersuites)",
                        pr.suite, pr.report.digest, pr.report.evaluations
                    ),
                );
                violations.push((scen, v, pr.report.digest));
            }
        }
    }

    // violations: minimise, persist, report
    let mut reported = 0u64;
    let mut known_hits: BTreeSet<String> = BTreeSet::new();
    let mut seen_oracles: BTreeMap<String, u32> = BTreeMap::new();
    let mut viol_samples: Vec<Value> = Vec::new();
    for (scen, v, digest) in &violations {
        if let Some(k) = known_match(&known, scen, v) {
            known_hits.insert(format!("KNOWN-FINDING: property={} oracle={} {}", k.property, k.oracle, k.text));
            continue;
        }
        let c = seen_oracles.entry(format!("{}|{}", v.oracle, scen.suite)).or_default();
        *c += 1;
        if *c > 1 {
            continue; // one replay per (oracle, suite)
        }
        let (min_scen, min_v, min_d) = if v.oracle.ends_with("reference_mismatch") { (scen.clone(), v.clone(), *digest) } else { minimise(prop, scen, v, *digest) };
        let mut min_scen = min_scen;
        if opt.profile_tag != "dev" {
            if !min_scen.extra.is_object() {
                min_scen.extra = json!({});
            }
            min_scen.extra["build_profile"] = json!(opt.profile_tag);
        }
        let path = write_replay(&opt.verif_dir, &min_scen, &min_v, min_d);
        println!("VIOLATION property={} replay={}", prop.id, path);
        println!("  oracle={} suite={} seed={} run={} detail={}", min_v.oracle, scen.suite, scen.seed, scen.run, min_v.detail);
        viol_samples.push(json!({"oracle": min_v.oracle, "suite": scen.suite, "run": scen.run, "detail": min_v.detail, "replay": path}));
        reported += 1;
    }
    for k in &known_hits {
        println!("{k}");
    }
    for e in &harness_errors {
        println!("HARNESS-ERROR: {e}");
    }

    let wall = t0.elapsed().as_secs_f64();
    if opt.write_evidence {
        let per_hour = if wall > 0.0 { (done_runs as f64 / wall * 3600.0) as u64 } else { 0 };
        let ev = json!({
            "property_id": prop.id,
            "tier": opt.tier.name(),
            "seed": opt.seed,
            "level": prop.level,
            "coverage": {
                "evaluations": total.evaluations.max(done_runs),
                "distinct_nontrivial": shapes.len(),
                "rule": prop.rule,
                "samples": if samples.is_empty() { vec![json!({"note": "no sample recorded"})] } else { samples },
                "runs": done_runs,
                "runs_planned": runs,
                "runs_per_hour": per_hour,
                "seeds_per_hour": per_hour,
                "sim_steps": total.steps,
                "envelopes_delivered": total.delivered,
                "simulated_time": format!("{} logical steps (the library has no clock; steps order events)", total.steps),
                "faults_fired": total.faults_fired,
                "probes": total.probes,
                "suites": suites,
                "distinct_measure": prop.distinct_measure,
                "components": {"real": prop.real, "stub": prop.stub, "independent": prop.independent},
                "reference": ref_summary,
                "batch_digest": digest_all.hex(),
                "distinct_event_logs": distinct_logs.len(),
                "fresh_process_replays": fresh_replays,
                "violations_found": viol_samples,
                "known_findings_hit": known_hits.iter().cloned().collect::<Vec<_>>(),
                "harness_errors": harness_errors,
                "jobs": opt.jobs,
                "build_profile": opt.profile_tag,
            },
            "assumptions": prop.assumptions,
            "wall_s": wall,
            "violations": reported,
        });
        let path = opt.evidence.clone().unwrap_or_else(|| format!("{}/evidence/{}.json", opt.verif_dir, prop.id));
        if let Some(dir) = std::path::Path::new(&path).parent() {
            let _ = std::fs::create_dir_all(dir);
        }
        std::fs::write(&path, serde_json::to_string_pretty(&ev).unwrap()).expect("write evidence");
    }
    println!(
        "done property={} runs={}/{} evaluations={} distinct={} steps={} delivered={} violations={} known={} harness_errors={} wall={:.1}s digest={}",
        prop.id,
        done_runs,
        runs,
        total.evaluations,
        shapes.len(),
        total.steps,
        total.delivered,
        reported,
        known_hits.len(),
        harness_errors.len(),
        wall,
        digest_all.hex()
    );
    // a reported violation is a fact about the library whatever else happened in the batch: it decides the exit code (harness
    // errors of other runs have been printed above)
    if reported > 0 {
        return 1;
    }
    if !harness_errors.is_empty() {
        return 2;
    }
    if done_runs < runs {
        println!("HARNESS-ERROR: wall-clock cap reached after {done_runs}/{runs} runs");
        return 2;
    }
    0
}

pub fn replay(prop: &Prop, path: &str, verif_dir: &str) -> i32 {
    let body = match std::fs::read_to_string(path) {
        Ok(b) => b,
        Err(e) => {
            println!("HARNESS-ERROR: cannot read {path}: {e}");
            return 2;
        }
    };
    let scen: Scenario = match serde_json::from_str(&body) {
        Ok(s) => s,
        Err(e) => {
            println!("HARNESS-ERROR: cannot parse {path}: {e}");
            return 2;
        }
    };
    println!("replay property={} suite={} seed={} run={} expected_oracle={}", scen.property, scen.suite, scen.seed, scen.run, scen.oracle);
    if scen.oracle.ends_with("fresh_process_replay_differs") {
        // the violation is a DIFFERENCE between the run inside a process that has already worked for other ciphersuites and the
        // run alone: reproduce both sides - a dozen warm-up runs (every suite appears) and then the scenario in this process, the
        // scenario alone in a child process
        for r in 0..12u64 {
            if r != scen.run {
                let _ = run_exec(prop, &(prop.generate)(scen.seed, r, Tier::Quick));
            }
        }
        let inside = match run_exec(prop, &scen) {
            Exec::Ok(r) | Exec::Violation(_, r) => (r.digest, r.evaluations),
            Exec::Harness(e) => {
                println!("HARNESS-ERROR: {e}");
                return 2;
            }
        };
        let alone = std::env::current_exe().ok().and_then(|exe| std::process::Command::new(exe).args(["digest", prop.id, path, "--verif-dir", verif_dir]).env("FROSTSIM_NO_FRESH_REPLAY", "1").output().ok()).map(|o| String::from_utf8_lossy(&o.stdout).to_string()).unwrap_or_default();
        let get = |k: &str| alone.split_whitespace().find_map(|w| w.strip_prefix(k)).and_then(|v| v.parse::<u64>().ok());
        let (Some(d), Some(ev)) = (get("digest="), get("evaluations=")) else {
            println!("HARNESS-ERROR: the child process gave no result ({})", alone.chars().take(200).collect::<String>());
            return 2;
        };
        if (d, ev) != inside {
            println!("VIOLATION property={} replay={}", scen.property, path);
            println!("  oracle={} detail=after warm-up runs of other ciphersuites this process gives digest {:016x} / {} evaluations, a fresh process {d:016x} / {ev}", scen.oracle, inside.0, inside.1);
            println!("  same_oracle=true");
            return 1;
        }
        println!("replay: no violation (inside {:016x}, alone {d:016x})", inside.0);
        return 0;
    }
    match run_exec(prop, &scen) {
        Exec::Harness(e) => {
            println!("HARNESS-ERROR: {e}");
            2
        }
        Exec::Ok(r) => {
            // reference-only oracles need the reference over this run's trace
            if scen.oracle.ends_with("reference_mismatch") && !r.trace.is_empty() {
                let work = format!("{verif_dir}/work");
                let _ = std::fs::create_dir_all(&work);
                let tpath = format!("{work}/replay.{}.trace.jsonl", scen.property);
                std::fs::write(&tpath, r.trace.join("\n") + "\n").unwrap();
                let out = std::process::Command::new("python3").arg(format!("{verif_dir}/ref/check_trace.py")).arg(&tpath).output();
                if let Ok(out) = out {
                    let code = out.status.code().unwrap_or(2);
                    print!("{}", String::from_utf8_lossy(&out.stdout));
                    if code == 1 {
                        println!("VIOLATION property={} replay={}", scen.property, path);
                        return 1;
                    }
                    if code == 2 {
                        return 2;
                    }
                }
            }
            println!("replay: no violation (digest {:016x})", r.digest);
            0
        }
        Exec::Violation(v, r) => {
            println!("VIOLATION property={} replay={}", v.property, path);
            println!("  oracle={} detail={}", v.oracle, v.detail);
            let same_digest = format!("{:016x}", r.digest) == scen.event_log_digest;
            println!("  digest={:016x} same_oracle={} same_event_log_digest={}", r.digest, v.oracle == scen.oracle, same_digest);
            1
        }
    }
}
