//! Harness-side BIP-340/341 arithmetic for the Taproot suite, written against k256 + sha2 directly
//! (shares no code with frost-secp256k1-tr).

use k256::elliptic_curve::ops::Reduce;
use k256::elliptic_curve::point::AffineCoordinates;
use k256::{ProjectivePoint, Scalar, U256};
use sha2::{Digest, Sha256};

pub fn tagged_hash(tag: &str, parts: &[&[u8]]) -> [u8; 32] {
    let th = Sha256::digest(tag.as_bytes());
    let mut h = Sha256::new();
    h.update(th);
    h.update(th);
    for p in parts {
        h.update(p);
    }
    let mut out = [0u8; 32];
    out.copy_from_slice(&h.finalize());
    out
}

pub fn x_bytes(p: &ProjectivePoint) -> [u8; 32] {
    let mut out = [0u8; 32];
    out.copy_from_slice(&p.to_affine().x());
    out
}

pub fn y_is_odd(p: &ProjectivePoint) -> bool {
    bool::from(p.to_affine().y_is_odd())
}

pub fn even(p: ProjectivePoint) -> ProjectivePoint {
    if y_is_odd(&p) { -p } else { p }
}

/// BIP-341 tweak scalar t = int(hashTapTweak(x(P) || root)) mod n.
pub fn tap_tweak_scalar(p: &ProjectivePoint, root: Option<&[u8]>) -> Scalar {
    let x = x_bytes(p);
    let h = match root {
        None => tagged_hash("TapTweak", &[&x]),
        Some(r) => tagged_hash("TapTweak", &[&x, r]),
    };
    <Scalar as Reduce<U256>>::reduce(&U256::from_be_slice(&h))
}

/// BIP-341 taproot_tweak_pubkey on a full point: Q = lift_x(x(P)) + t*G.
pub fn output_key(p: &ProjectivePoint, root: Option<&[u8]>) -> ProjectivePoint {
    let t = tap_tweak_scalar(p, root);
    even(*p) + ProjectivePoint::GENERATOR * t
}

/// What distributed key generation must output for the Taproot suite: the key-path-only tweaked
/// key and the correspondingly mapped share.
pub fn dkg_post_map(sum_c0: ProjectivePoint, share: Scalar) -> (ProjectivePoint, Scalar) {
    let t = tap_tweak_scalar(&sum_c0, None);
    let s = if y_is_odd(&sum_c0) { -share } else { share };
    (even(sum_c0) + ProjectivePoint::GENERATOR * t, s + t)
}

/// A BIP-340 signature made by the harness itself from a known secret key and a known nonce, and its MIRROR: the same x(R) with
/// the response that belongs to -R. The first is valid; the second is not (BIP-340 demands an even-Y R), although
/// x(z'G - eP) = x(R).
pub fn bip340_sign_pair(d0: Scalar, k0: Scalar, msg: &[u8]) -> ([u8; 64], [u8; 64]) {
    let p = ProjectivePoint::GENERATOR * d0;
    let d = if y_is_odd(&p) { -d0 } else { d0 };
    let r = ProjectivePoint::GENERATOR * k0;
    let k = if y_is_odd(&r) { -k0 } else { k0 };
    let e = <Scalar as Reduce<U256>>::reduce(&U256::from_be_slice(&tagged_hash("BIP0340/challenge", &[&x_bytes(&r), &x_bytes(&p), msg])));
    let mut good = [0u8; 64];
    good[..32].copy_from_slice(&x_bytes(&r));
    good[32..].copy_from_slice(&(k + e * d).to_bytes());
    let mut mirror = good;
    mirror[32..].copy_from_slice(&(e * d - k).to_bytes());
    (good, mirror)
}
