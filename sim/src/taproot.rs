//! Harness-side BIP-340/341 arithmetic for the Taproot suite, written against k256 + sha2 directly
//! (shares no code with frost-secp256k1-tr).

use k256::elliptic_curve::ops::Reduce;
use k256::elliptic_curve::point::AffineCoordinates;
use k256::{ProjectivePoint, Scalar, U256};
use sha2::{Digest, Sha256};

pub fn tagged_hash(tag: &str, parts: &[&[u8]]) -> [u8; 32] {
    let th = Sha256::digest(tag.as_bytes());
    let mut h = Sha256::new();
    h.update(th);
    h.update(th);
    for p in parts {
        h.update(p);
    }
    let mut out = [0u8; 32];
    out.copy_from_slice(&h.finalize());
    out
}

pub fn x_bytes(p: &ProjectivePoint) -> [u8; 32] {
    let mut out = [0u8; 32];
    out.copy_from_slice(&p.to_affine().x());
    out
}

pub fn y_is_odd(p: &ProjectivePoint) -> bool {
    bool::from(p.to_affine().y_is_odd())
}

pub fn even(p: ProjectivePoint) -> ProjectivePoint {
    if y_is_odd(&p) { -p } else { p }
}

/// BIP-341 tweak scalar t = int(hashTapTweak(x(P) || root)) mod n.
pub fn tap_tweak_scalar(p: &ProjectivePoint, root: Option<&[u8]>) -> Scalar {
    let x = x_bytes(p);
    let h = match root {
        None => tagged_hash("TapTweak", &[&x]),
        Some(r) => tagged_hash("TapTweak", &[&x, r]),
    };
    <Scalar as Reduce<U256>>::reduce(&U256::from_be_slice(&h))
}

/// BIP-341 taproot_tweak_pubkey on a full point: Q = lift_x(x(P)) + t*G.
pub fn output_key(p: &ProjectivePoint, root: Option<&[u8]>) -> ProjectivePoint {
    let t = tap_tweak_scalar(p, root);
    even(*p) + ProjectivePoint::GENERATOR * t
}

/// What distributed key generation must output for the Taproot suite: the key-path-only tweaked
/// key and the correspondingly mapped share.
pub fn dkg_post_map(sum_c0: ProjectivePoint, share: Scalar) -> (ProjectivePoint, Scalar) {
    let t = tap_tweak_scalar(&sum_c0, None);
    let s = if y_is_odd(&sum_c0) { -share } else { share };
    (even(sum_c0) + ProjectivePoint::GENERATOR * t, s + t)
}
