//! One integer decides everything: SplitMix64-seeded xoshiro256** with *named* streams.
//!
//! `stream(seed, run, label)` hashes the label into the state, so removing an operation or a fault
//! during minimisation never shifts the randomness of anything else. Nothing here reads a clock.

#[derive(Clone, Debug)]
pub struct Prng {
    s: [u64; 4],
}

fn splitmix(x: &mut u64) -> u64 {
    *x = x.wrapping_add(0x9E37_79B9_7F4A_7C15);
    let mut z = *x;
    z = (z ^ (z >> 30)).wrapping_mul(0xBF58_476D_1CE4_E5B9);
    z = (z ^ (z >> 27)).wrapping_mul(0x94D0_49BB_1331_11EB);
    z ^ (z >> 31)
}

/// 64-bit FNV-1a followed by a splitmix finaliser; used for labels and for event-log digests.
pub fn fnv64(data: &[u8]) -> u64 {
    let mut h: u64 = 0xcbf2_9ce4_8422_2325;
    for b in data {
        h ^= *b as u64;
        h = h.wrapping_mul(0x0000_0100_0000_01B3);
    }
    let mut x = h;
    splitmix(&mut x)
}

impl Prng {
    pub fn from_seed(seed: u64) -> Self {
        let mut x = seed;
        let s = [splitmix(&mut x), splitmix(&mut x), splitmix(&mut x), splitmix(&mut x)];
        Prng { s }
    }

    pub fn next_u64(&mut self) -> u64 {
        let r = self.s[1].wrapping_mul(5).rotate_left(7).wrapping_mul(9);
        let t = self.s[1] << 17;
        self.s[2] ^= self.s[0];
        self.s[3] ^= self.s[1];
        self.s[1] ^= self.s[2];
        self.s[0] ^= self.s[3];
        self.s[2] ^= t;
        self.s[3] = self.s[3].rotate_left(45);
        r
    }

    /// Uniform in 0..n (n > 0). Slight modulo bias is irrelevant here.
    pub fn below(&mut self, n: u64) -> u64 {
        debug_assert!(n > 0);
        self.next_u64() % n
    }

    pub fn range(&mut self, lo: u64, hi_incl: u64) -> u64 {
        lo + self.below(hi_incl - lo + 1)
    }

    pub fn chance(&mut self, num: u64, den: u64) -> bool {
        self.below(den) < num
    }

    pub fn pick<'a, T>(&mut self, xs: &'a [T]) -> &'a T {
        &xs[self.below(xs.len() as u64) as usize]
    }

    pub fn shuffle<T>(&mut self, xs: &mut [T]) {
        for i in (1..xs.len()).rev() {
            let j = self.below(i as u64 + 1) as usize;
            xs.swap(i, j);
        }
    }

    pub fn fill(&mut self, dst: &mut [u8]) {
        for chunk in dst.chunks_mut(8) {
            let v = self.next_u64().to_le_bytes();
            chunk.copy_from_slice(&v[..chunk.len()]);
        }
    }

    pub fn bytes(&mut self, n: usize) -> Vec<u8> {
        let mut v = vec![0u8; n];
        self.fill(&mut v);
        v
    }

    /// Random k-subset of 0..n, returned sorted.
    pub fn subset(&mut self, n: usize, k: usize) -> Vec<usize> {
        let mut all: Vec<usize> = (0..n).collect();
        self.shuffle(&mut all);
        all.truncate(k);
        all.sort();
        all
    }
}

/// Independent stream for (seed, run, label).
pub fn stream(seed: u64, run: u64, label: &str) -> Prng {
    let h = fnv64(label.as_bytes());
    let mut x = seed ^ 0xA076_1D64_78BD_642F;
    let a = splitmix(&mut x);
    let mut y = run.wrapping_mul(0xE703_7ED1_A0B4_28DB) ^ a;
    let b = splitmix(&mut y);
    Prng::from_seed(b ^ h.rotate_left(17) ^ (h >> 3))
}

/// Running digest of an event log: order-sensitive, no allocation of the whole log needed.
#[derive(Clone, Debug)]
pub struct Digest {
    h: u64,
    pub events: u64,
}

impl Default for Digest {
    fn default() -> Self {
        Digest { h: 0x243F_6A88_85A3_08D3, events: 0 }
    }
}

impl Digest {
    pub fn add(&mut self, data: &[u8]) {
        let x = fnv64(data);
        self.h = (self.h.rotate_left(5) ^ x).wrapping_mul(0x9E37_79B9_7F4A_7C15);
        self.events += 1;
    }
    pub fn add_str(&mut self, s: &str) {
        self.add(s.as_bytes());
    }
    pub fn hex(&self) -> String {
        format!("{:016x}", self.h)
    }
    pub fn value(&self) -> u64 {
        self.h
    }
}
