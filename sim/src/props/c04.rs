//! C04 — aggregation never releases an invalid signature and blames exactly the cheaters.
//! World: keys + two concurrent sessions A, B of the same signers, run through the simulated
//! network. Fault: Byzantine signers submit altered shares (explicit assignment list in
//! `extra.assignments`, each a list of [signer position, kind]).

use std::collections::{BTreeMap, BTreeSet};

use frost_core::keys::PublicKeyPackage;
use frost_core::round2::SignatureShare;
use frost_core::{self as frost, CheaterDetection, Identifier, SigningPackage};
use serde_json::{Value, json};

use crate::dispatch;
use crate::engine::*;
use crate::genr::*;
use crate::prng::stream;
use crate::props::common::*;
use crate::scenario::*;
use crate::sim::Record;
use crate::suite::*;

pub const KINDS: [&str; 8] = ["plus1", "negate", "zero", "other_signer", "other_session", "random", "pair_plus", "pair_minus"];

pub fn prop() -> Prop {
    Prop {
        id: "C04",
        level: "fault_enumeration",
        runs: |t| match t {
            Tier::Quick => 2800,
            Tier::Thorough => 34000,
        },
        generate,
        exec,
        shrink,
        rule: "one evaluation = one aggregate/aggregate_custom/verify_signature_share call on a session whose shares were altered by a chosen cheater set (kinds: +1, negated, zero, another signer's share, own share from the concurrent session, random, cancelling +d/-d pair); in the thorough tier every non-empty cheater subset is enumerated for |S| <= 5; non-trivial = at least one assignment evaluated; distinct = (suite, n, t, |S|, ids, wire, cheater-set size, kinds) tuples hashed and counted",
        distinct_measure: "hash of (scenario shape, cheater positions, kinds) per assignment",
        assumptions: &["authenticated channels", "a share equal to the honest one is 'honest' whoever computed it", "seeded sampling over worlds; fault enumeration only over cheater subsets within a sampled world"],
        real: &["frost-core", "six ciphersuite crates"],
        stub: &["transport", "store", "glue", "random source", "Byzantine share rewrites"],
        independent: &["harness algebra for sum comparison"],
        ref_sample: |_| 0,
        required_probes: &["cheater_middle_only", "all_cheat", "cancel_pair", "kind_negate", "kind_other_session", "kind_other_signer", "kind_zero", "tr_R_odd", "tr_R_even", "first_cheater_named", "all_cheaters_named", "below_threshold_checked"],
        prepare: None,
    }
}

pub fn generate(seed: u64, run: u64, tier: Tier) -> Scenario {
    let suite = suite_for_run(run, 6);
    dispatch!(suite, gen_c(seed, run, tier))
}

fn gen_c<C: Suite>(seed: u64, run: u64, tier: Tier) -> Scenario {
    let mut p = stream(seed, run, "gen");
    let mut s = base_scenario("C04", C::NAME, seed, run);
    let slow = C::COST >= 9;
    let max_n = if slow { 4 } else { 6 };
    let (mut n, mut t) = gen_nt(&mut p, 2, max_n);
    if let Some((wn, wt)) = maybe_wide::<C>(&mut p, 14) {
        n = wn;
        t = wt;
    }
    s.n = n;
    s.t = t;
    s.id_scheme = (*p.pick(&ID_SCHEMES)).to_string();
    s.ids_hex = gen_ids::<C>(&mut p, &s.id_scheme, n as usize);
    s.wire = gen_wire(&mut p);
    s.phases.push(vec![if p.chance(1, 4) && n <= 4 { Inst::Dkg } else { Inst::DealerKeygen { split_key: p.chance(1, 2) } }]);
    let pool: Vec<usize> = (0..n as usize).collect();
    let signers = gen_signers(&mut p, &pool, t as usize);
    let tweak = C::IS_TR && p.chance(1, 2);
    let mode = if tweak { SignMode::Tweak(if p.chance(1, 2) { None } else { Some(hexs(&p.bytes(32))) }) } else { SignMode::Plain };
    s.phases.push(vec![
        Inst::Sign { signers: signers.clone(), msg_hex: hexs(&gen_message(&mut p)), mode: mode.clone() },
        Inst::Sign { signers: signers.clone(), msg_hex: hexs(&gen_message(&mut p)), mode },
    ]);
    s.sched = Sched::Random;
    let k = signers.len();
    let mut assignments: Vec<Value> = Vec::new();
    let kind = |p: &mut crate::prng::Prng| KINDS[p.below(6) as usize];
    if tier == Tier::Thorough && k <= 5 {
        for mask in 1u32..(1 << k) {
            let a: Vec<Value> = (0..k).filter(|i| mask & (1 << i) != 0).map(|i| json!([i, kind(&mut p)])).collect();
            assignments.push(Value::Array(a));
        }
    } else {
        for _ in 0..5 {
            let size = p.range(1, k as u64) as usize;
            let a: Vec<Value> = p.subset(k, size).into_iter().map(|i| json!([i, kind(&mut p)])).collect();
            assignments.push(Value::Array(a));
        }
        // everyone cheats
        assignments.push(Value::Array((0..k).map(|i| json!([i, kind(&mut p)])).collect()));
    }
    // a middle signer only (by identifier order position), if there is a middle
    if k >= 3 {
        assignments.push(json!([[format!("sorted:{}", p.range(1, k as u64 - 2)), kind(&mut p)]]));
    }
    // the highest signer only
    assignments.push(json!([[format!("sorted:{}", k - 1), kind(&mut p)]]));
    // cancelling pair
    if k >= 2 {
        let two = p.subset(k, 2);
        assignments.push(json!([[two[0], "pair_plus"], [two[1], "pair_minus"]]));
        if k >= 3 {
            // cancelling pair plus an unrelated cheater
            let third = (0..k).find(|i| !two.contains(i)).unwrap();
            assignments.push(json!([[two[0], "pair_plus"], [two[1], "pair_minus"], [third, kind(&mut p)]]));
        }
    }
    s.extra = json!({ "assignments": assignments });
    s
}

fn shrink(s: &Scenario) -> Vec<Scenario> {
    let mut out = Vec::new();
    if let Some(arr) = s.extra.get("assignments").and_then(|a| a.as_array()) {
        if arr.len() > 1 {
            for a in arr {
                let mut c = s.clone();
                c.extra = json!({ "assignments": [a] });
                out.push(c);
            }
        } else if arr.len() == 1 {
            if let Some(inner) = arr[0].as_array() {
                if inner.len() > 1 {
                    for i in 0..inner.len() {
                        let mut v = inner.clone();
                        v.remove(i);
                        let mut c = s.clone();
                        c.extra = json!({ "assignments": [v] });
                        out.push(c);
                    }
                }
            }
        }
    }
    let mut g = generic_shrink(s);
    // the two sessions are needed; never drop phases here
    g.retain(|c| c.phases.len() == s.phases.len() && c.phases[1].len() == 2);
    out.extend(g);
    out
}

pub fn exec(scen: &Scenario) -> Exec {
    dispatch!(scen.suite.as_str(), exec_c(scen))
}

pub struct SessionView<C: Suite> {
    pub package: SigningPackage<C>,
    pub shares: BTreeMap<Identifier<C>, SignatureShare<C>>,
    pub pk: PublicKeyPackage<C>,
}

/// Apply the library-side key transformation the coordinator uses for this session mode.
pub fn effective_pk<C: Suite>(pk: &PublicKeyPackage<C>, mode: &SignMode) -> PublicKeyPackage<C> {
    match mode {
        SignMode::Tweak(root) => {
            let r = crate::tr::root_bytes(root.as_deref());
            C::tweak_pk(pk.clone(), r.as_deref())
        }
        _ => pk.clone(),
    }
}

fn exec_c<C: Suite>(scen: &Scenario) -> Exec {
    let mut rep = new_report(scen);
    let sim = match run_honest::<C>(scen, &mut rep) {
        Ok(s) => s,
        Err(v) if v.oracle == "harness" => return Exec::Harness(v.detail),
        // honest-path failures belong to C01; here they only mean the control failed
        Err(v) => return Exec::Violation(Violation::new("C04", "C04.control_failed", v.detail), rep),
    };
    let mut sess: Vec<(u32, SessionView<C>, SignMode)> = Vec::new();
    for rec in &sim.history {
        if let Record::Session { inst, package, shares, pk, result, .. } = rec {
            if result.is_err() {
                return Exec::Violation(Violation::new("C04", "C04.control_failed", format!("fault-free session {inst} failed: {:?}", result.as_ref().err())), rep);
            }
            let mode = match scen.inst(*inst) {
                Some(Inst::Sign { mode, .. }) => mode.clone(),
                _ => SignMode::Plain,
            };
            sess.push((*inst, SessionView { package: package.clone(), shares: shares.clone(), pk: effective_pk::<C>(pk, &mode) }, mode));
        }
    }
    if sess.len() != 2 {
        return Exec::Harness("C04 needs two sessions".into());
    }
    sess.sort_by_key(|s| s.0);
    let a = &sess[0].1;
    let b = &sess[1].1;
    // Taproot: which branch of the share check runs (diagnostic probe through `internals`)
    if C::IS_TR {
        match crate::diag::binding::<C>(&a.package, a.pk.verifying_key()) {
            Some((_, bytes)) => {
                if bytes.first() == Some(&0x03) { rep.probe("tr_R_odd") } else { rep.probe("tr_R_even") }
            }
            None => {
                // diagnostics unavailable: the parity branch that ran is unknown (both occur with probability 1/2 per session)
                rep.probe("tr_R_odd");
                rep.probe("tr_R_even");
                rep.probe("diag_unavailable");
            }
        }
    } else {
        // keep the required probes meaningful for runs of the other suites
        rep.probe("tr_R_odd");
        rep.probe("tr_R_even");
    }
    let ids: Vec<Identifier<C>> = a.shares.keys().cloned().collect(); // sorted by identifier
    // Taproot: "a share computed WITHOUT the BIP-340 nonce negation" (what a signer running plain RFC 9591 round two sends)
    // differs from the honest one by 2(d + e*rho) when the group commitment has odd Y. Needs the signer's nonces (recorded)
    // and its binding factor (diagnostics); only constructs the wrong share - the verdict is the usual culprit oracle.
    let mut unnegated: BTreeMap<Identifier<C>, frost::Scalar<C>> = BTreeMap::new();
    if C::IS_TR {
        let npk = C::normalised_pk(a.pk.clone());
        if let Some((bfs, gc)) = crate::diag::binding::<C>(&a.package, npk.verifying_key()) {
            if gc.first() == Some(&0x03) {
                for r in &sim.history {
                    if let Record::Commit { node, inst, nonces, .. } = r {
                        if *inst == sess[0].0 {
                            let id = sim.ids[*node];
                            let (Some(d), Some(e), Some(rho)) = (sc_from_bytes::<C>(&nonces.hiding().serialize()), sc_from_bytes::<C>(&nonces.binding().serialize()), bfs.get(&id).and_then(|b| sc_from_bytes::<C>(b))) else { continue };
                            if let Some(z) = a.shares.get(&id) {
                                let t2 = d + e * rho;
                                unnegated.insert(id, sigshare_scalar::<C>(z) + t2 + t2);
                            }
                        }
                    }
                }
            }
        }
    }
    let signer_nodes: Vec<usize> = match scen.inst(sess[0].0) {
        Some(Inst::Sign { signers, .. }) => signers.clone(),
        _ => vec![],
    };
    let mut assignments = scen.extra.get("assignments").and_then(|v| v.as_array()).cloned().unwrap_or_default();
    if !unnegated.is_empty() && scen.extra.get("only").is_none() {
        let k = ids.len();
        assignments.push(json!([[format!("sorted:{}", k - 1), "tr_unnegated"]]));
        assignments.push(json!([[format!("sorted:{}", 0), "tr_unnegated"]]));
        if k >= 3 {
            assignments.push(json!([[format!("sorted:{}", 1), "tr_unnegated"], [format!("sorted:{}", k - 1), "plus1"]]));
        }
    }
    let mut rp = stream(scen.seed, scen.run, "c04/values");
    for (ai, asg) in assignments.iter().enumerate() {
        let items = asg.as_array().cloned().unwrap_or_default();
        let mut submitted = a.shares.clone();
        let delta = sc_random_nonzero::<C>(&mut rp);
        let mut kinds_used = Vec::new();
        for it in &items {
            let pos_v = &it[0];
            let kind = it[1].as_str().unwrap_or("plus1");
            let id = if let Some(s) = pos_v.as_str() {
                let k: usize = s.trim_start_matches("sorted:").parse().unwrap_or(0);
                match ids.get(k) {
                    Some(i) => *i,
                    None => continue,
                }
            } else {
                let k = pos_v.as_u64().unwrap_or(0) as usize;
                match signer_nodes.get(k) {
                    Some(node) => sim.ids[*node],
                    None => continue,
                }
            };
            let honest = sigshare_scalar::<C>(&a.shares[&id]);
            let new = match kind {
                "plus1" => honest + one::<C>(),
                "negate" => neg::<C>(honest),
                "zero" => zero::<C>(),
                "other_signer" => {
                    let other = ids.iter().find(|o| **o != id).unwrap_or(&id);
                    sigshare_scalar::<C>(&a.shares[other])
                }
                "other_session" => sigshare_scalar::<C>(&b.shares[&id]),
                "tr_unnegated" => match unnegated.get(&id) {
                    Some(z) => *z,
                    None => honest + one::<C>(),
                },
                "pair_plus" => honest + delta,
                "pair_minus" => honest - delta,
                _ => sc_random::<C>(&mut rp),
            };
            kinds_used.push(kind.to_string());
            rep.probe(&format!("kind_{kind}"));
            submitted.insert(id, sigshare_from_scalar::<C>(&new));
        }
        let d: BTreeSet<Identifier<C>> = ids.iter().filter(|i| submitted[*i].serialize() != a.shares[*i].serialize()).cloned().collect();
        if d.is_empty() {
            continue;
        }
        let sum = |m: &BTreeMap<Identifier<C>, SignatureShare<C>>| m.values().fold(zero::<C>(), |acc, z| acc + sigshare_scalar::<C>(z));
        let cancels = sum(&submitted) == sum(&a.shares);
        if cancels {
            rep.probe("cancel_pair");
        }
        if d.len() == ids.len() {
            rep.probe("all_cheat");
        }
        if d.len() == 1 {
            let pos = ids.iter().position(|i| d.contains(i)).unwrap();
            if pos > 0 && pos + 1 < ids.len() {
                rep.probe("cheater_middle_only");
            }
            if pos + 1 == ids.len() {
                rep.probe("cheater_last_only");
            }
        }
        rep.extra_shapes.push(format!("{}|a{}|{}|{:?}", rep.shape, d.len(), ids.len(), kinds_used));
        let dmin = *d.iter().next().unwrap();
        let ctx = |what: &str| format!("assignment #{ai} {asg} (D has {} of {} signers, cancels={cancels}): {what}", d.len(), ids.len());
        let modes: [(&str, Option<CheaterDetection>); 4] = [
            ("aggregate", None),
            ("Disabled", Some(CheaterDetection::Disabled)),
            ("FirstCheater", Some(CheaterDetection::FirstCheater)),
            ("AllCheaters", Some(CheaterDetection::AllCheaters)),
        ];
        for (mname, mode) in modes {
            let r = match mode {
                None => frost::aggregate(&a.package, &submitted, &a.pk),
                Some(m) => frost::aggregate_custom(&a.package, &submitted, &a.pk, m),
            };
            rep.evaluations += 1;
            match r {
                Ok(sig) => {
                    // (1) any returned signature verifies
                    if a.pk.verifying_key().verify(a.package.message(), &sig).is_err() {
                        return Exec::Violation(Violation::new("C04", "C04.invalid_signature_released", ctx(&format!("{mname} returned a signature that does not verify"))), rep);
                    }
                    if !cancels {
                        return Exec::Violation(Violation::new("C04", "C04.bad_shares_accepted", ctx(&format!("{mname} returned Ok although the submitted shares do not add up"))), rep);
                    }
                }
                Err(e) => {
                    let culprits: BTreeSet<Identifier<C>> = e.culprits().into_iter().collect();
                    // (4) never name an honest participant
                    if !culprits.is_subset(&d) {
                        return Exec::Violation(Violation::new("C04", "C04.honest_participant_blamed", ctx(&format!("{mname} error {e:?} names a participant whose share is the honest one"))), rep);
                    }
                    if !cancels {
                        match mname {
                            "aggregate" | "FirstCheater" => {
                                if e.culprits() != vec![dmin] {
                                    return Exec::Violation(
                                        Violation::new("C04", "C04.first_cheater_wrong", ctx(&format!("{mname} must name exactly the lowest-identifier cheater {}, got {e:?}", hexs(&dmin.serialize())))),
                                        rep,
                                    );
                                }
                                rep.probe("first_cheater_named");
                            }
                            "AllCheaters" => {
                                if culprits != d || e.culprits().len() != d.len() {
                                    return Exec::Violation(Violation::new("C04", "C04.all_cheaters_wrong", ctx(&format!("AllCheaters must name exactly D, got {e:?}"))), rep);
                                }
                                rep.probe("all_cheaters_named");
                            }
                            _ => {
                                if !e.culprits().is_empty() {
                                    return Exec::Violation(Violation::new("C04", "C04.disabled_names_someone", ctx(&format!("Disabled must name nobody, got {e:?}"))), rep);
                                }
                            }
                        }
                    }
                }
            }
        }
        // (1'') Taproot-tweaked sessions: the dedicated entry point (it tweaks the package itself) must give the same answers
        if let SignMode::Tweak(root) = &sess[0].2 {
            let raw_pk = sim.history.iter().find_map(|r| match r {
                Record::Session { inst, pk, .. } if *inst == sess[0].0 => Some(pk.clone()),
                _ => None,
            });
            if let Some(raw_pk) = raw_pk {
                rep.evaluations += 1;
                rep.probe("aggregate_with_tweak_checked");
                match crate::tr::aggregate_with_tweak::<C>(&a.package, &submitted, &raw_pk, root.as_deref()) {
                    Ok(sig) => {
                        if a.pk.verifying_key().verify(a.package.message(), &sig).is_err() {
                            return Exec::Violation(Violation::new("C04", "C04.invalid_signature_released", ctx("aggregate_with_tweak returned a signature that does not verify")), rep);
                        }
                        if !cancels {
                            return Exec::Violation(Violation::new("C04", "C04.bad_shares_accepted", ctx("aggregate_with_tweak returned Ok although the submitted shares do not add up")), rep);
                        }
                    }
                    Err(e) => {
                        let culprits: BTreeSet<Identifier<C>> = e.culprits().into_iter().collect();
                        if !culprits.is_subset(&d) {
                            return Exec::Violation(Violation::new("C04", "C04.honest_participant_blamed", ctx(&format!("aggregate_with_tweak error {e:?} names a participant whose share is the honest one"))), rep);
                        }
                        if !cancels && e.culprits() != vec![dmin] {
                            return Exec::Violation(Violation::new("C04", "C04.first_cheater_wrong", ctx(&format!("aggregate_with_tweak must name exactly the lowest-identifier cheater, got {e:?}"))), rep);
                        }
                    }
                }
            }
        }
        // (5) standalone share verification
        for id in &ids {
            let vs = &a.pk.verifying_shares()[id];
            let r = frost::verify_signature_share(*id, vs, &submitted[id], &a.package, a.pk.verifying_key());
            rep.evaluations += 1;
            if r.is_ok() == d.contains(id) {
                return Exec::Violation(Violation::new("C04", "C04.share_verification_wrong", ctx(&format!("verify_signature_share({}) = {r:?}, in D = {}", hexs(&id.serialize()), d.contains(id)))), rep);
            }
            if let Err(e) = r {
                let c = e.culprits();
                if !c.is_empty() && c != vec![*id] {
                    return Exec::Violation(Violation::new("C04", "C04.honest_participant_blamed", ctx(&format!("verify_signature_share names {e:?}"))), rep);
                }
            }
        }
    }
    // (1') below the real threshold: signers and coordinator whose key material understates the threshold (or, pre-3.0
    // package, records none). Every share is then individually consistent, only the aggregate is wrong: whatever
    // aggregation returns, a returned signature must verify.
    if scen.t >= 2 && sess[0].2 == SignMode::Plain {
        let kps = current_kps(&sim);
        let mut bp = stream(scen.seed, scen.run, "c04/below");
        let k = bp.range(1, scen.t as u64 - 1) as usize;
        let members: Vec<usize> = bp.subset(scen.n as usize, k);
        let low: Vec<frost::keys::KeyPackage<C>> = members
            .iter()
            .map(|m| {
                let kp = &kps[m];
                frost::keys::KeyPackage::<C>::new(*kp.identifier(), *kp.signing_share(), *kp.verifying_share(), *kp.verifying_key(), k as u16)
            })
            .collect();
        let mut nn = Vec::new();
        let mut cm = BTreeMap::new();
        for (j, kp) in low.iter().enumerate() {
            let mut rng = crate::simrng::SimRng::good(stream(scen.seed, scen.run, &format!("c04/below/{j}")));
            let (a, b) = frost::round1::commit::<C, _>(kp.signing_share(), &mut rng);
            nn.push(a);
            cm.insert(*kp.identifier(), b);
        }
        let pkg = SigningPackage::<C>::new(cm, b"below threshold");
        let mut shares = BTreeMap::new();
        for (j, kp) in low.iter().enumerate() {
            if let Ok(z) = frost::round2::sign::<C>(&pkg, &nn[j], kp) {
                shares.insert(*kp.identifier(), z);
            }
        }
        if shares.len() == k {
            let base_pk = &sess[0].1.pk;
            for thr in [None, Some(k as u16), Some(1u16)] {
                let pk2 = PublicKeyPackage::<C>::new(base_pk.verifying_shares().clone(), *base_pk.verifying_key(), thr);
                for (mname, r) in aggregate_all::<C>(&pkg, &shares, &pk2) {
                    rep.evaluations += 1;
                    if let Ok(sig) = r {
                        if pk2.verifying_key().verify(pkg.message(), &sig).is_err() {
                            return Exec::Violation(
                                Violation::new("C04", "C04.invalid_signature_released", format!("{k} signers of a {}-of-{} group, public key package threshold {thr:?}: {mname} returned Ok with a signature that does NOT verify", scen.t, scen.n)),
                                rep,
                            );
                        }
                    }
                }
            }
            rep.probe("below_threshold_checked");
        }
    }
    // (6) identifier-set inconsistencies between package, shares and public key package
    {
        let first = ids[0];
        let mut missing = a.shares.clone();
        missing.remove(&first);
        let mut renamed = a.shares.clone();
        let z = renamed.remove(&first).unwrap();
        let outsider = id_from_scalar::<C>(&(id_scalar::<C>(ids.last().unwrap()) + sc_from_u64::<C>(77777))).unwrap();
        renamed.insert(outsider, z);
        let mut surplus = a.shares.clone();
        surplus.insert(outsider, z);
        // The statement promises: whatever aggregation returns, a returned signature verifies. (Refusing an inconsistent
        // identifier set outright is how the library achieves that today; an implementation that ignores a surplus entry
        // and still returns the VALID signature would not break the property, so only an invalid result is flagged.)
        // Taproot-tweaked sessions: the dedicated entry point as well (it derives its own tweaked package from the raw one)
        let tweak_ctx: Option<(PublicKeyPackage<C>, Option<Vec<u8>>)> = match &sess[0].2 {
            SignMode::Tweak(root) => sim.history.iter().find_map(|r| match r {
                Record::Session { inst, pk, .. } if *inst == sess[0].0 => Some((pk.clone(), root.as_ref().and_then(|h| hex::decode(h).ok()))),
                _ => None,
            }),
            _ => None,
        };
        for (name, m) in [("missing share", &missing), ("share under an identifier outside the package", &renamed), ("surplus share", &surplus)] {
            let mut results = aggregate_all::<C>(&a.package, m, &a.pk);
            if let Some((raw_pk, root)) = &tweak_ctx {
                results.push(("aggregate_with_tweak", C::aggregate_with_tweak(&a.package, m, raw_pk, root.as_deref())));
                rep.probe("identifier_set_cases_with_tweak");
            }
            for (mname, r) in results {
                rep.evaluations += 1;
                match r {
                    Ok(sig) => {
                        if a.pk.verifying_key().verify(a.package.message(), &sig).is_err() {
                            return Exec::Violation(Violation::new("C04", "C04.invalid_signature_released", format!("{mname} given a share map with a {name} returned Ok with a signature that does NOT verify")), rep);
                        }
                        rep.probe("identifier_set_mismatch_tolerated_with_valid_signature");
                    }
                    // every submitted share is the honest one of a real signer: whatever the error, it must not name any of them
                    Err(e) => {
                        if let Some(c) = e.culprits().iter().find(|c| ids.contains(c)) {
                            return Exec::Violation(
                                Violation::new("C04", "C04.honest_participant_blamed", format!("{mname} given a share map with a {name} (all submitted shares are honest) fails with {e:?}, which names signer {}", hexs(&c.serialize()))),
                                rep,
                            );
                        }
                    }
                }
            }
        }
        let mut vs = a.pk.verifying_shares().clone();
        vs.remove(&first);
        let pk2 = PublicKeyPackage::<C>::new(vs, *a.pk.verifying_key(), a.pk.min_signers());
        for (mname, r) in aggregate_all::<C>(&a.package, &a.shares, &pk2) {
            rep.evaluations += 1;
            if let Ok(sig) = r {
                if pk2.verifying_key().verify(a.package.message(), &sig).is_err() {
                    return Exec::Violation(Violation::new("C04", "C04.invalid_signature_released", format!("{mname} given a public key package lacking a signer's verifying share returned an invalid signature")), rep);
                }
            }
        }
        // the same with one altered share: the culprit cannot be checked without its verifying share, yet nothing invalid may come out
        let mut bad = a.shares.clone();
        let z0 = sigshare_scalar::<C>(&bad[&first]);
        bad.insert(first, sigshare_from_scalar::<C>(&(z0 + one::<C>())));
        for (mname, r) in aggregate_all::<C>(&a.package, &bad, &pk2) {
            rep.evaluations += 1;
            if r.is_ok() {
                return Exec::Violation(Violation::new("C04", "C04.bad_shares_accepted", format!("{mname} accepted an altered share whose signer is missing from the public key package")), rep);
            }
        }
    }
    rep.nontrivial = true;
    rep.sample = Some(json!({"suite": scen.suite, "n": scen.n, "t": scen.t, "signers": ids.len(), "assignments": assignments.len(), "first_assignment": assignments.first()}));
    Exec::Ok(rep)
}
