//! C16 — all secret randomness is drawn fresh from the caller's source and nowhere else.
//! Seam: the random source. Each randomised entry point of each node role (dealer, DKG
//! participant, refresh dealer / participant, repair helper, coordinator, single signer, batch
//! verifier) is run on a recording source, then re-run (a) on the replayed stream, (b) on a
//! different stream, (c) once per recorded draw with only that draw's bytes perturbed.

use std::collections::BTreeMap;

use frost_core::keys::{self, IdentifierList, KeyPackage, PublicKeyPackage, dkg, refresh, repairable};
use frost_core::{self as frost, Identifier, SigningKey, VerifyingKey};
use frost_rerandomized::RandomizedParams;
use serde_json::json;

use crate::dispatch;
use crate::engine::*;
use crate::genr::*;
use crate::prng::{Prng, stream};
use crate::props::common::*;
use crate::scenario::*;
use crate::simrng::{RngMode, SimRng};
use crate::suite::*;

pub fn prop() -> Prop {
    Prop {
        id: "C16",
        level: "exploration",
        runs: |t| match t {
            Tier::Quick => 3600,
            Tier::Thorough => 40000,
        },
        generate,
        exec,
        shrink: generic_shrink,
        rule: "one evaluation = one execution of a randomised entry point (generate_with_dealer, split, dkg::part1, compute_refreshing_shares, refresh_dkg_part1, repair_share_part1, new_from_commitments, SigningKey::new, SigningKey::sign, batch verify) on a controlled source; per trial: recorded run, replayed run (all outputs bit-identical), different-stream run (every listed secret-derived value changes), one run per recorded draw with that draw perturbed (each draw matters; each listed value has a draw that moves it while another listed value stays), pairwise distinctness of listed values, draws >= listed values; non-trivial = all perturbation runs of a trial done; distinct = (suite, entry point, n, t) hashed and counted",
        distinct_measure: "hash of (suite, entry point, n, t, number of draws)",
        assumptions: &["draw counts are lower bounds (rejection sampling may legitimately draw more)", "'uniform' is not measurable", "batch blinders are not observable: draws >= items, reproducibility, and C19's cancelling-pair rejection stand in"],
        real: &["frost-core, frost-rerandomized, six ciphersuite crates (Field::random)"],
        stub: &["random source (recording / replaying / perturbing)", "glue"],
        independent: &[],
        ref_sample: |_| 0,
        required_probes: &["special_draws_checked", "ep_generate_with_dealer", "ep_split", "ep_dkg_part1", "ep_compute_refreshing_shares", "ep_refresh_dkg_part1", "ep_repair_share_part1", "ep_new_from_commitments", "ep_signing_key_new", "ep_signing_key_sign", "ep_batch_verify", "t_ge_4"],
        prepare: None,
    }
}

pub fn generate(seed: u64, run: u64, tier: Tier) -> Scenario {
    let suite = suite_for_run(run, 6);
    dispatch!(suite, gen_c(seed, run, tier))
}

fn gen_c<C: Suite>(seed: u64, run: u64, tier: Tier) -> Scenario {
    let mut p = stream(seed, run, "gen");
    let mut s = base_scenario("C16", C::NAME, seed, run);
    let slow = C::COST >= 9;
    let max_n = match (tier, slow) {
        (_, true) => 4,
        (Tier::Quick, false) => 6,
        (Tier::Thorough, false) => 8,
    };
    let (n, t) = gen_nt(&mut p, 2, max_n);
    s.n = n;
    s.t = t;
    s.id_scheme = (*p.pick(&ID_SCHEMES)).to_string();
    s.ids_hex = gen_ids::<C>(&mut p, &s.id_scheme, n as usize);
    // the world (keys for the refresh / repair / rerandomise roles) comes from a dealer through the simulator
    s.phases.push(vec![Inst::DealerKeygen { split_key: true }]);
    s.sched = Sched::Random;
    s
}

pub fn exec(scen: &Scenario) -> Exec {
    dispatch!(scen.suite.as_str(), exec_c(scen))
}

/// Output of one execution: every observable output (name -> bytes), and which of them are the
/// "listed" secret-derived values.
struct Out {
    all: BTreeMap<String, Vec<u8>>,
    listed: Vec<String>,
}

type Runner<'a, C> = Box<dyn Fn(&mut SimRng) -> Result<Out, frost::Error<C>> + 'a>;

fn comm_entries<C: Suite>(prefix: &str, c: &keys::VerifiableSecretSharingCommitment<C>, out: &mut BTreeMap<String, Vec<u8>>) -> Vec<String> {
    let mut names = Vec::new();
    for (k, e) in c.serialize().unwrap_or_default().into_iter().enumerate() {
        let n = format!("{prefix}{k}");
        out.insert(n.clone(), e);
        names.push(n);
    }
    names
}

fn trial<C: Suite>(name: &str, scen: &Scenario, run: &Runner<C>, min_listed: usize, rep: &mut RunReport) -> Option<Violation> {
    let viol = |o: &str, d: String| Some(Violation::new("C16", o, format!("{name}: {d}")));
    let base_stream = stream(scen.seed, scen.run, &format!("c16/{name}/base"));
    let mut rec = SimRng::good(base_stream);
    rep.evaluations += 1;
    let o0 = match run(&mut rec) {
        Ok(o) => o,
        Err(e) => return viol("C16.control_failed", format!("{e:?}")),
    };
    if o0.listed.len() < min_listed {
        return viol("C16.control_failed", format!("{} listed values, expected at least {min_listed}", o0.listed.len()));
    }
    let draws = rec.draws.clone();
    let recorded = rec.out.clone();
    // (c0) enough randomness (in BYTES - the granularity of the requests is the implementation's business: at least 16 bytes,
    // i.e. 128 bits, per secret-derived value), pairwise distinct listed values
    if recorded.len() < 16 * o0.listed.len() {
        return viol("C16.too_few_draws", format!("{} bytes ({} requests) drawn from the random source for {} secret-derived values", recorded.len(), draws.len(), o0.listed.len()));
    }
    for i in 0..o0.listed.len() {
        for j in (i + 1)..o0.listed.len() {
            if o0.all[&o0.listed[i]] == o0.all[&o0.listed[j]] {
                return viol("C16.values_coincide", format!("'{}' and '{}' are equal within one call", o0.listed[i], o0.listed[j]));
            }
        }
    }
    // (a) replay: everything bit-identical, same consumption
    {
        let mut r = SimRng::replay(recorded.clone(), stream(scen.seed, scen.run, "c16/fallback"));
        rep.evaluations += 1;
        match run(&mut r) {
            Ok(o) => {
                if o.all != o0.all {
                    let k = o0.all.iter().find(|(k, v)| o.all.get(*k) != Some(v)).map(|x| x.0.clone()).unwrap_or_default();
                    return viol("C16.not_reproducible", format!("same random bytes, different output '{k}': something else feeds the computation"));
                }
                if r.total() != recorded.len() {
                    return viol("C16.not_reproducible", format!("replay consumed {} bytes, recording {}", r.total(), recorded.len()));
                }
            }
            Err(e) => return viol("C16.not_reproducible", format!("replay failed: {e:?}")),
        }
    }
    // (b) a wholly different stream: every listed value changes
    {
        let mut r = SimRng::good(stream(scen.seed, scen.run, &format!("c16/{name}/other")));
        rep.evaluations += 1;
        match run(&mut r) {
            Ok(o) => {
                for l in &o0.listed {
                    if o.all.get(l) == o0.all.get(l) {
                        return viol("C16.value_ignores_random_source", format!("'{l}' is the same under a completely different random stream"));
                    }
                }
            }
            Err(e) => return viol("C16.control_failed", format!("other stream: {e:?}")),
        }
    }
    // (c) perturb one draw at a time
    let mut moved_by: BTreeMap<String, Vec<usize>> = BTreeMap::new();
    let mut stayed_under: BTreeMap<usize, Vec<String>> = BTreeMap::new();
    // windows of 16 bytes over everything that was consumed (independent of request boundaries)
    let windows: Vec<(usize, usize)> = (0..recorded.len().div_ceil(16)).map(|w| (w * 16, 16.min(recorded.len() - w * 16))).collect();
    for (di, (off, len)) in windows.iter().enumerate() {
        let mut r = SimRng::new(RngMode::ReplayPerturbed { stream: recorded.clone(), off: *off, len: *len, fallback: stream(scen.seed, scen.run, "c16/fallback") });
        rep.evaluations += 1;
        match run(&mut r) {
            Ok(o) => {
                if r.draws.len() != draws.len() {
                    // rejection sampling took another path (negligible, but possible): skip this draw
                    rep.probe("perturbation_changed_draw_count");
                    continue;
                }
                if o.all == o0.all {
                    // a request whose bytes influence nothing is not what the property forbids (it speaks about the VALUES, each
                    // of which must have its own draw): recorded for the evidence, not a verdict
                    rep.probe("draw_without_observable_effect");
                    continue;
                }
                for l in &o0.listed {
                    if o.all.get(l) != o0.all.get(l) {
                        moved_by.entry(l.clone()).or_default().push(di);
                    } else {
                        stayed_under.entry(di).or_default().push(l.clone());
                    }
                }
            }
            Err(e) => return viol("C16.control_failed", format!("perturbed draw {di}: {e:?}")),
        }
    }
    for l in &o0.listed {
        let Some(ds) = moved_by.get(l) else {
            return viol("C16.value_ignores_random_source", format!("no 16-byte window of the consumed randomness influences '{l}'"));
        };
        if o0.listed.len() >= 2 && !ds.iter().any(|d| stayed_under.get(d).map(|s| !s.is_empty()).unwrap_or(false)) {
            return viol("C16.values_share_one_draw", format!("every window of the consumed randomness that moves '{l}' moves all other secret-derived values too: it is not drawn on its own"));
        }
    }
    // (d) special source outputs for one request at a time - all zeroes, and the encodings of the scalars 1 and 2 - with the
    // rest of the stream unchanged: different source outputs must not collapse into the same value (a fallback to a fixed value
    // when a draw is unusable, instead of drawing again, is exactly such a collapse)
    {
        let specials: Vec<(&str, Option<Vec<u8>>)> = vec![("one", craft_draw::<C>(one::<C>())), ("two", craft_draw::<C>(sc_from_u64::<C>(2)))];
        let mut reqs: Vec<usize> = (0..draws.len()).collect();
        if reqs.len() > 10 {
            let tail: Vec<usize> = reqs[reqs.len() - 4..].to_vec();
            reqs.truncate(6);
            reqs.extend(tail);
        }
        for di in reqs {
            let (off, len) = draws[di];
            let mut cands: Vec<(&str, Vec<u8>)> = vec![("zeroes", vec![0u8; len])];
            // answers that encode an integer at or above the group order in either byte order (suites that sample by rejection
            // must draw AGAIN - consuming more of the source - and not fall back to a fixed value)
            if len >= 2 {
                let mut a = vec![0xffu8; len];
                cands.push(("all ff", a.clone()));
                a[len - 1] = 0xfe;
                cands.push(("ff..fe", a.clone()));
                a[len - 1] = 0xff;
                a[0] = 0xfe;
                cands.push(("fe..ff", a));
            }
            for (n, c) in &specials {
                if let Some(c) = c {
                    if c.len() == len {
                        cands.push((*n, c.clone()));
                    }
                }
            }
            if cands.len() < 2 {
                rep.probe("special_draw_no_candidates");
                continue;
            }
            let mut outs: Vec<(&str, Out, usize)> = Vec::new();
            for (cn, c) in &cands {
                let mut st = recorded.clone();
                st[off..off + len].copy_from_slice(c);
                let mut r = SimRng::replay(st, stream(scen.seed, scen.run, "c16/fallback"));
                rep.evaluations += 1;
                // an unusable draw may legitimately make the call fail (e.g. a zero coefficient): no verdict then
                match std::panic::catch_unwind(std::panic::AssertUnwindSafe(|| run(&mut r))) {
                    Ok(Ok(o)) => {
                        let used = r.total();
                        outs.push((*cn, o, used))
                    }
                    _ => rep.probe("special_draw_call_failed"),
                }
            }
            for i in 0..outs.len() {
                for j in (i + 1)..outs.len() {
                    // two answers that were both refused and drawn again continue on the same following bytes: equal values are
                    // then legitimate (the run consumed more of the source than the recording did)
                    if outs[i].2 > recorded.len() && outs[j].2 > recorded.len() {
                        rep.probe("special_draw_both_redrawn");
                        continue;
                    }
                    for l in &o0.listed {
                        let (Some(a), Some(b)) = (outs[i].1.all.get(l), outs[j].1.all.get(l)) else { continue };
                        if a == b && Some(a) != o0.all.get(l) {
                            return viol(
                                "C16.different_source_output_same_value",
                                format!("request #{di} ({len} bytes) answered with {} and with {} (rest of the stream unchanged) gives the same '{l}' = {}: the value is a fixed fallback, not drawn from the source", outs[i].0, outs[j].0, hexs(a)),
                            );
                        }
                    }
                }
            }
            rep.probe("special_draws_checked");
        }
    }
    rep.extra_shapes.push(format!("{}|{name}|n{}t{}|d{}", scen.suite, scen.n, scen.t, draws.len()));
    None
}

fn exec_c<C: Suite>(scen: &Scenario) -> Exec {
    let mut rep = new_report(scen);
    let sim = match run_honest::<C>(scen, &mut rep) {
        Ok(s) => s,
        Err(v) if v.oracle == "harness" => return Exec::Harness(v.detail),
        Err(v) => return Exec::Violation(Violation::new("C16", "C16.control_failed", v.detail), rep),
    };
    let n = scen.n;
    let t = scen.t;
    if t >= 4 {
        rep.probe("t_ge_4");
    }
    let ids: Vec<Identifier<C>> = sim.ids[..n as usize].to_vec();
    let kps_map = current_kps(&sim);
    let kps: Vec<KeyPackage<C>> = (0..n as usize).map(|p| kps_map[&p].clone()).collect();
    let Some(pk): Option<PublicKeyPackage<C>> = sim.hub.as_ref().and_then(|h| h.pk.clone()) else { return Exec::Harness("no pk".into()) };
    let use_default = scen.id_scheme == "default";
    let mut gp = stream(scen.seed, scen.run, "c16/setup");
    let fixed_key = SigningKey::<C>::from_scalar(sc_random_nonzero::<C>(&mut gp)).unwrap();
    let msg = gp.bytes(20);
    macro_rules! go {
        ($probe:expr, $name:expr, $min:expr, $runner:expr) => {{
            let r: Runner<C> = Box::new($runner);
            rep.probe($probe);
            if let Some(v) = trial::<C>($name, scen, &r, $min, &mut rep) {
                return Exec::Violation(v, rep);
            }
        }};
    }
    let il = |ids: &'_ [Identifier<C>]| -> Vec<Identifier<C>> { ids.to_vec() };
    // generate_with_dealer: key + t-1 coefficients
    {
        let idv = il(&ids);
        go!("ep_generate_with_dealer", "generate_with_dealer", t as usize, move |rng: &mut SimRng| {
            let list = if use_default { IdentifierList::Default } else { IdentifierList::Custom(&idv) };
            let (shares, pkx) = keys::generate_with_dealer::<C, _>(n, t, list, rng)?;
            let mut all = BTreeMap::new();
            let listed = comm_entries::<C>("C", shares.values().next().unwrap().commitment(), &mut all);
            for (id, s) in &shares {
                all.insert(format!("share/{}", hexs(&id.serialize())), s.signing_share().serialize());
            }
            all.insert("pk".into(), pkx.serialize().unwrap_or_default());
            Ok(Out { all, listed })
        });
    }
    // split: t-1 coefficients (C_0 is fixed by the key)
    {
        let idv = il(&ids);
        let key = fixed_key.clone();
        go!("ep_split", "split", t as usize - 1, move |rng: &mut SimRng| {
            let list = if use_default { IdentifierList::Default } else { IdentifierList::Custom(&idv) };
            let (shares, pkx) = keys::split::<C, _>(&key, n, t, list, rng)?;
            let mut all = BTreeMap::new();
            let mut listed = comm_entries::<C>("C", shares.values().next().unwrap().commitment(), &mut all);
            listed.remove(0);
            for (id, s) in &shares {
                all.insert(format!("share/{}", hexs(&id.serialize())), s.signing_share().serialize());
            }
            all.insert("pk".into(), pkx.serialize().unwrap_or_default());
            Ok(Out { all, listed })
        });
    }
    // dkg::part1: t coefficients + proof nonce
    {
        let id = ids[0];
        go!("ep_dkg_part1", "dkg::part1", t as usize + 1, move |rng: &mut SimRng| {
            let (sec, pkg) = dkg::part1::<C, _>(id, n, t, &mut *rng)?;
            let mut all = BTreeMap::new();
            let mut listed = comm_entries::<C>("C", pkg.commitment(), &mut all);
            let sb = pkg.proof_of_knowledge().serialize().unwrap_or_default();
            let rl = sb.len() - sc_len::<C>();
            all.insert("proof_R".into(), sb[..rl].to_vec());
            all.insert("proof_z".into(), sb[rl..].to_vec());
            listed.push("proof_R".into());
            all.insert("secret".into(), serde_json::to_vec(&sec).unwrap_or_default());
            Ok(Out { all, listed })
        });
    }
    // compute_refreshing_shares: t-1 coefficients
    {
        let idv = il(&ids);
        let pkc = pk.clone();
        go!("ep_compute_refreshing_shares", "compute_refreshing_shares", t as usize - 1, move |rng: &mut SimRng| {
            let (shares, npk) = refresh::compute_refreshing_shares::<C, _>(pkc.clone(), &idv, rng)?;
            let mut all = BTreeMap::new();
            let listed = comm_entries::<C>("C", shares[0].commitment(), &mut all);
            for s in &shares {
                all.insert(format!("share/{}", hexs(&s.identifier().serialize())), s.signing_share().serialize());
            }
            all.insert("pk".into(), npk.serialize().unwrap_or_default());
            Ok(Out { all, listed })
        });
    }
    // refresh_dkg_part1: t-1 coefficients + proof nonce
    {
        let id = ids[0];
        go!("ep_refresh_dkg_part1", "refresh_dkg_part1", t as usize, move |rng: &mut SimRng| {
            let (sec, pkg) = refresh::refresh_dkg_part1::<C, _>(id, n, t, &mut *rng)?;
            let mut all = BTreeMap::new();
            let mut listed = comm_entries::<C>("C", pkg.commitment(), &mut all);
            let sb = pkg.proof_of_knowledge().serialize().unwrap_or_default();
            let rl = sb.len() - sc_len::<C>();
            all.insert("proof_R".into(), sb[..rl].to_vec());
            all.insert("proof_z".into(), sb[rl..].to_vec());
            listed.push("proof_R".into());
            all.insert("secret".into(), serde_json::to_vec(&sec).unwrap_or_default());
            Ok(Out { all, listed })
        });
    }
    // repair_share_part1: |H|-1 free blinding values
    if n as usize - 1 >= t as usize {
        let mut hp = stream(scen.seed, scen.run, "c16/helpers");
        let target = hp.below(n as u64) as usize;
        let pool: Vec<usize> = (0..n as usize).filter(|x| *x != target).collect();
        let hk = hp.range(t as u64, pool.len() as u64) as usize;
        let hs: Vec<usize> = hp.subset(pool.len(), hk).into_iter().map(|i| pool[i]).collect();
        let hid: Vec<Identifier<C>> = hs.iter().map(|h| ids[*h]).collect();
        let kp = kps[hs[0]].clone();
        let tid = ids[target];
        let mut sorted = hid.clone();
        sorted.sort();
        let last = *sorted.last().unwrap();
        go!("ep_repair_share_part1", "repair_share_part1", hk - 1, move |rng: &mut SimRng| {
            let deltas = repairable::repair_share_part1::<C, _>(&hid, &kp, rng, tid)?;
            let mut all = BTreeMap::new();
            let mut listed = Vec::new();
            for (id, d) in &deltas {
                let name = format!("delta/{}", hexs(&id.serialize()));
                all.insert(name.clone(), d.serialize());
                // the value for the highest helper is the correcting one, not a free draw
                if *id != last {
                    listed.push(name);
                }
            }
            Ok(Out { all, listed })
        });
    } else {
        rep.probe("ep_repair_share_part1");
    }
    // RandomizedParams::new_from_commitments: the seed
    {
        let mut cm = BTreeMap::new();
        for (j, kp) in kps.iter().take(t as usize).enumerate() {
            let mut r = SimRng::good(stream(scen.seed, scen.run, &format!("c16/commit/{j}")));
            cm.insert(*kp.identifier(), frost::round1::commit::<C, _>(kp.signing_share(), &mut r).1);
        }
        let vk = *pk.verifying_key();
        go!("ep_new_from_commitments", "new_from_commitments", 1, move |rng: &mut SimRng| {
            let (params, seed) = RandomizedParams::<C>::new_from_commitments(&vk, &cm, &mut *rng)?;
            let mut all = BTreeMap::new();
            all.insert("seed".into(), seed);
            all.insert("randomizer".into(), params.randomizer().serialize());
            Ok(Out { all, listed: vec!["seed".into()] })
        });
    }
    // SigningKey::new and SigningKey::sign
    {
        go!("ep_signing_key_new", "SigningKey::new", 1, move |rng: &mut SimRng| {
            let k = SigningKey::<C>::new(rng);
            let mut all = BTreeMap::new();
            all.insert("key".into(), k.serialize());
            Ok(Out { all, listed: vec!["key".into()] })
        });
        let key = fixed_key.clone();
        let m = msg.clone();
        go!("ep_signing_key_sign", "SigningKey::sign", 1, move |rng: &mut SimRng| {
            let sig = key.sign(&mut *rng, &m);
            let sb = sig.serialize().unwrap_or_default();
            let rl = sb.len() - sc_len::<C>();
            let mut all = BTreeMap::new();
            all.insert("R".into(), sb[..rl].to_vec());
            all.insert("z".into(), sb[rl..].to_vec());
            Ok(Out { all, listed: vec!["R".into()] })
        });
    }
    // batch verifier: blinders are not observable; consumption and reproducibility are
    {
        rep.probe("ep_batch_verify");
        let items = 2 + (scen.run % 5) as usize;
        let vk = VerifyingKey::<C>::from(&fixed_key);
        let mut sigs = Vec::new();
        for j in 0..items {
            let r = SimRng::good(stream(scen.seed, scen.run, &format!("c16/batchsig/{j}")));
            let m: Vec<u8> = format!("item {j}").into_bytes();
            sigs.push((m.clone(), fixed_key.sign(r, &m)));
        }
        let verify = |rng: &mut SimRng| -> bool {
            let mut v = frost::batch::Verifier::<C>::new();
            for (m, s) in &sigs {
                v.queue(frost::batch::Item::<C>::new(vk, *s, m).unwrap());
            }
            v.verify(&mut *rng).is_ok()
        };
        let mut rec = SimRng::good(stream(scen.seed, scen.run, "c16/batch"));
        rep.evaluations += 2;
        let ok = verify(&mut rec);
        if !ok {
            return Exec::Violation(Violation::new("C16", "C16.control_failed", "valid batch rejected".to_string()), rep);
        }
        if rec.total() < 16 * items {
            return Exec::Violation(Violation::new("C16", "C16.too_few_draws", format!("batch verify of {items} items drew {} bytes ({} requests) from the random source: fewer than 128 bits per item, i.e. not a blinder per item", rec.total(), rec.draws.len())), rep);
        }
        // every item has a blinder of its own, the first one included: a batch of k items consumes at least 16 bytes more than a
        // batch of k-1 items (k = 1: at least 16 bytes at all)
        let mut prev = 0usize;
        for k in 1..=items {
            let mut r = SimRng::good(stream(scen.seed, scen.run, "c16/batch"));
            let mut v = frost::batch::Verifier::<C>::new();
            for (m, s) in sigs.iter().take(k) {
                v.queue(frost::batch::Item::<C>::new(vk, *s, m).unwrap());
            }
            rep.evaluations += 1;
            if v.verify(&mut r).is_err() {
                return Exec::Violation(Violation::new("C16", "C16.control_failed", format!("valid batch of {k} rejected")), rep);
            }
            if r.total() < prev + 16 {
                return Exec::Violation(
                    Violation::new("C16", "C16.too_few_draws", format!("batch verify of {k} item(s) drew {} bytes, of {} item(s) {prev} bytes: the added item has no blinder of its own drawn from the source", r.total(), k - 1)),
                    rep,
                );
            }
            prev = r.total();
        }
        let mut again = SimRng::replay(rec.out.clone(), stream(scen.seed, scen.run, "c16/fallback"));
        if !verify(&mut again) || again.total() != rec.total() {
            return Exec::Violation(Violation::new("C16", "C16.not_reproducible", "batch verify: replay differs".to_string()), rep);
        }
        // distinct windows for distinct items: no two requests return the same stream window (the source is good)
        let mut offs: Vec<usize> = rec.draws.iter().map(|d| d.0).collect();
        offs.dedup();
        if offs.len() != rec.draws.len() {
            return Exec::Harness("recording source handed out overlapping windows".into());
        }
    }
    let _: Option<Prng> = None;
    rep.nontrivial = true;
    rep.sample = Some(json!({"suite": scen.suite, "n": scen.n, "t": scen.t, "entry_points": 10, "example": "dkg::part1: perturbing request #k moves C_k only; perturbing the last request moves proof_R only"}));
    Exec::Ok(rep)
}
