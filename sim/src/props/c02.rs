//! C02 — every intermediate and final value is bit-exact with RFC 9591.
//! The mixed-implementation deployment: nodes run the library; a second, independent
//! implementation of the same specification (Python reference, pinned to the RFC vectors)
//! recomputes everything from the recorded history - key shares, the 32 random bytes behind every
//! nonce (random-source seam in recording mode), message, identifiers - and must agree byte for
//! byte with every recorded nonce, commitment, binding factor, group commitment, signature share
//! and signature. Single-signer signatures cross over in both directions.

use std::collections::BTreeMap;

use frost_core::{self as frost, Identifier, Signature, SigningKey, VerifyingKey};
use serde_json::{Value, json};

use crate::dispatch;
use crate::engine::*;
use crate::genr::*;
use crate::prng::stream;
use crate::props::common::*;
use crate::scenario::*;
use crate::sim::Record;
use crate::simrng::SimRng;
use crate::suite::*;

pub fn prop() -> Prop {
    Prop {
        id: "C02",
        level: "exploration",
        runs: |t| match t {
            Tier::Quick => 2000,
            Tier::Thorough => 16000,
        },
        generate,
        exec,
        shrink: generic_shrink,
        rule: "one evaluation = one recorded fact recomputed by the independent reference and compared byte for byte: per signing session every signer's two nonces (from the recorded 32+32 random bytes and the share), two commitments, verifying share, binding factor, the group commitment, every signature share and the final signature (+ ordinary verification); identifier encodings for a sweep of u16 values; library-made single-signer signatures verified by the reference; reference-made ones verified by the library; non-trivial = at least one session recorded; distinct = scenario shapes (suite, n, t, id scheme, |S|, message class, keygen, tweak) hashed and counted",
        distinct_measure: "hash of scenario shape key",
        assumptions: &["the Python reference is the trusted base; it refuses to run unless it reproduces the RFC 9591 appendix vectors (copies pinned under ref/vectors)", "no schedule in this oracle: the simulator contributes the recording seams and the population of configurations", "all inputs are sampled, never enumerated"],
        real: &["frost-core round1/round2/aggregate, identifier, signature, signing_key; six ciphersuite crates"],
        stub: &["transport", "store", "glue", "random source (recording)"],
        independent: &["Python reference implementation of RFC 9591 / BIP-340 / BIP-341 (ref/frost_ref.py, curves.py, hashes.py, bip340_ref.py)"],
        ref_sample: |_| 0,
        required_probes: &["session_recorded", "signers_ge_4", "signers_ge_9", "signers_ge_33", "preprocess_batch", "injected_nonce_session", "injected_adjacent_same_binding", "injected_all_same", "ids_derived", "ids_scalar", "ids_u16ext", "msg_empty", "msg_multiblock", "keys_dkg", "taproot_tweak", "single_sig_lib_made", "single_sig_ref_made", "ident_swept"],
        prepare: Some(prepare),
    }
}

fn single_path(verif_dir: &str, suite: &str, seed: u64) -> String {
    format!("{verif_dir}/work/single.{suite}.{seed}.jsonl")
}

fn prepare(opt: &Options) -> Result<(), String> {
    std::fs::create_dir_all(format!("{}/work", opt.verif_dir)).map_err(|e| e.to_string())?;
    for s in SUITES {
        let path = single_path(&opt.verif_dir, s, opt.seed);
        let out = std::process::Command::new("python3").arg(format!("{}/ref/make_single.py", opt.verif_dir)).arg(s).arg("40").arg(format!("{}", opt.seed)).output().map_err(|e| format!("make_single.py: {e}"))?;
        if !out.status.success() {
            return Err(format!("make_single.py {s} failed: {}", String::from_utf8_lossy(&out.stderr)));
        }
        std::fs::write(&path, &out.stdout).map_err(|e| e.to_string())?;
    }
    Ok(())
}

pub fn generate(seed: u64, run: u64, tier: Tier) -> Scenario {
    let suite = suite_for_run(run, 5);
    dispatch!(suite, gen_c(seed, run, tier))
}

fn gen_c<C: Suite>(seed: u64, run: u64, tier: Tier) -> Scenario {
    let mut p = stream(seed, run, "gen");
    let mut s = base_scenario("C02", C::NAME, seed, run);
    let slow = C::COST >= 9;
    let max_n = match (tier, slow) {
        (Tier::Quick, false) => 6,
        (Tier::Quick, true) => 4,
        (Tier::Thorough, false) => 12,
        (Tier::Thorough, true) => 6,
    };
    let (mut n, mut t) = gen_nt(&mut p, 2, max_n);
    let dkg = p.chance(1, 4);
    if !dkg && !slow && p.chance(1, 14) {
        // larger signer sets also in the quick tier
        n = p.range(9, if C::COST >= 3 { 14 } else { 20 }) as u16;
        t = p.range(2, n as u64) as u16;
    }
    if dkg {
        n = n.min(if slow { 3 } else { 5 });
        t = t.min(n);
    }
    // rare wide sessions: more than 32 signers, counts on both sides of block boundaries (33, 40, 64, 65, 70, 97)
    let mut wide_k = 0usize;
    if !dkg && C::COST <= 3 && p.chance(1, if tier == Tier::Quick { 50 } else { 80 }) {
        n = *p.pick(&[33u16, 40, 64, 65, 70, 97]);
        t = (*p.pick(&[2u16, 3, 33])).min(n);
        wide_k = p.range((t as u64).max(33), n as u64) as usize;
    }
    s.n = n;
    s.t = t;
    s.id_scheme = (*p.pick(&ID_SCHEMES)).to_string();
    s.ids_hex = gen_ids::<C>(&mut p, &s.id_scheme, n as usize);
    s.wire = gen_wire(&mut p);
    s.phases.push(vec![if dkg { Inst::Dkg } else { Inst::DealerKeygen { split_key: p.chance(1, 2) } }]);
    let pool: Vec<usize> = (0..n as usize).collect();
    let mut ph = Vec::new();
    for _ in 0..p.range(1, 2) {
        let mode = if C::IS_TR && p.chance(1, 2) {
            SignMode::Tweak(match p.below(3) {
                0 => None,
                1 => Some(hexs(&p.bytes(32))),
                _ => Some(hexs(&p.bytes(*p.clone().pick(&[0usize, 1, 33, 64])))),
            })
        } else {
            SignMode::Plain
        };
        let mut msg = gen_message(&mut p);
        if tier == Tier::Thorough && p.chance(1, 10) {
            msg = p.bytes(4096);
        }
        let signers = if wide_k > 0 {
            let mut sg = p.subset(n as usize, wide_k);
            p.shuffle(&mut sg);
            sg
        } else {
            gen_signers(&mut p, &pool, t as usize)
        };
        ph.push(Inst::Sign { signers, msg_hex: hexs(&msg), mode });
        if wide_k > 0 {
            break;
        }
    }
    s.phases.push(ph);
    s.sched = Sched::Random;
    // identifier sweep slice of this run
    let per = if tier == Tier::Quick { 3 } else { 8 };
    s.extra = json!({"ident_from": (run * per) % 65535 + 1, "ident_count": per});
    s
}

pub fn exec(scen: &Scenario) -> Exec {
    dispatch!(scen.suite.as_str(), exec_c(scen))
}

fn exec_c<C: Suite>(scen: &Scenario) -> Exec {
    let mut rep = new_report(scen);
    let sim = match run_honest::<C>(scen, &mut rep) {
        Ok(s) => s,
        Err(v) if v.oracle == "harness" => return Exec::Harness(v.detail),
        Err(v) => return Exec::Violation(Violation::new("C02", "C02.control_failed", v.detail), rep),
    };
    let run_tag = json!(scen.run);
    // ---- sessions --------------------------------------------------------------------------------------
    for rec in &sim.history {
        let Record::Session { inst, package, shares, pk, result, .. } = rec else { continue };
        let sig = match result {
            Ok(s) => s,
            Err(e) => return Exec::Violation(Violation::new("C02", "C02.control_failed", format!("session {inst}: {e:?}")), rep),
        };
        let mode = match scen.inst(*inst) {
            Some(Inst::Sign { mode, .. }) => mode.clone(),
            _ => SignMode::Plain,
        };
        let mut signers: Vec<Value> = Vec::new();
        for (id, z) in shares {
            let node = node_of(&sim, id).unwrap();
            let Some((rng_out, nonces, commitments, share)) = sim.history.iter().find_map(|r| match r {
                Record::Commit { node: nd, inst: i, rng_out, nonces, commitments, share, .. } if *nd == node && i == inst => Some((rng_out.clone(), nonces.clone(), *commitments, *share)),
                _ => None,
            }) else {
                return Exec::Harness("missing commit record".into());
            };
            if rng_out.len() != 64 {
                return Exec::Violation(Violation::new("C02", "C02.nonce_randomness_not_32_plus_32", format!("commit consumed {} random bytes", rng_out.len())), rep);
            }
            let vs = pk.verifying_shares().get(id).and_then(|v| v.serialize().ok()).unwrap_or_default();
            signers.push(json!({
                "id": hexs(&id.serialize()),
                "share": hexs(&share.serialize()),
                "verifying_share": hexs(&vs),
                "rand_hiding": hexs(&rng_out[..32]),
                "rand_binding": hexs(&rng_out[32..]),
                "hiding_nonce": hexs(&nonces.hiding().serialize()),
                "binding_nonce": hexs(&nonces.binding().serialize()),
                "hiding_commitment": hexs(&commitments.hiding().serialize().unwrap_or_default()),
                "binding_commitment": hexs(&commitments.binding().serialize().unwrap_or_default()),
                "sig_share": hexs(&z.serialize()),
            }));
            rep.evaluations += 9;
        }
        // the order in which signers are listed is irrelevant to the reference: list them in arrival order of the shares
        let tweak = match &mode {
            SignMode::Tweak(r) => {
                rep.probe("taproot_tweak");
                json!({"merkle_root": r})
            }
            _ => Value::Null,
        };
        // diagnostics through `internals` (plain mode only: they localise WHICH value deviates first)
        let mut line = json!({
            "type": "session", "suite": C::NAME, "run": run_tag,
            "group_key": hexs(&pk.verifying_key().serialize().unwrap_or_default()),
            "message": hexs(package.message()),
            "signers": signers,
            "signature": hexs(&sig.serialize().unwrap_or_default()),
            "tweak": tweak,
        });
        if mode == SignMode::Plain && !C::IS_TR {
            if let Some((bfs_raw, gc)) = crate::diag::binding::<C>(package, pk.verifying_key()) {
                let mut bfs = serde_json::Map::new();
                for (id, bf) in &bfs_raw {
                    bfs.insert(hexs(&id.serialize()), json!(hexs(bf)));
                }
                line["diag"] = json!({"binding_factors": bfs, "group_commitment": hexs(&gc)});
            }
        }
        // the binding-factor preimages through the public accessor (vk || H4(msg) || H5(commitment list) || id)
        if mode == SignMode::Plain && !C::IS_TR {
            if let Ok(pre) = package.binding_factor_preimages(pk.verifying_key(), &[]) {
                let mut m = serde_json::Map::new();
                for (id, b) in &pre {
                    m.insert(hexs(&id.serialize()), json!(hexs(b)));
                }
                if line.get("diag").is_none() {
                    line["diag"] = json!({});
                }
                line["diag"]["binding_factor_preimages"] = Value::Object(m);
                rep.evaluations += pre.len() as u64;
                rep.probe("binding_factor_preimages_compared");
            }
        }
        rep.trace.push(line.to_string());
        rep.evaluations += 2;
        rep.probe("session_recorded");
        if shares.len() >= 4 {
            rep.probe("signers_ge_4");
        }
        if shares.len() >= 9 {
            rep.probe("signers_ge_9");
        }
        if shares.len() >= 33 {
            rep.probe("signers_ge_33");
        }
        if package.message().is_empty() {
            rep.probe("msg_empty");
        }
        if package.message().len() > 128 {
            rep.probe("msg_multiblock");
        }
    }
    rep.probe(&format!("ids_{}", scen.id_scheme));
    if matches!(scen.phases[0][0], Inst::Dkg) {
        rep.probe("keys_dkg");
    }
    if !C::IS_TR {
        rep.probe("taproot_tweak");
    }
    // ---- identifier encodings -----------------------------------------------------------------------------
    {
        let from = scen.extra["ident_from"].as_u64().unwrap_or(1);
        let count = scen.extra["ident_count"].as_u64().unwrap_or(1);
        // a stride co-prime to 65535 spreads each batch over the whole range (all bit positions of the u16 are exercised early)
        let mut vals: Vec<u16> = (0..count).map(|k| ((((from - 1 + k) * 10007) % 65535) + 1) as u16).collect();
        if scen.run < 12 {
            vals.extend([1u16, 2, 255, 256, 257, 32767, 32768, 65534, 65535]);
        }
        for v in vals {
            match Identifier::<C>::try_from(v) {
                Ok(id) => rep.trace.push(json!({"type":"ident","suite":C::NAME,"run":run_tag,"u16":v,"encoding":hexs(&id.serialize())}).to_string()),
                Err(e) => return Exec::Violation(Violation::new("C02", "C02.identifier_rejected", format!("Identifier::try_from({v}) = {e:?}")), rep),
            }
            rep.evaluations += 1;
            rep.probe("ident_swept");
        }
    }
    // ---- a session on INJECTED nonces with structure that random draws never have: the same pair at every signer, the same binding
    // (or hiding) nonce at two signers adjacent in identifier order, hiding = binding, the scalars 1 and 2, q-1 ---------------
    if let Some(pk) = sim.hub.as_ref().and_then(|h| h.pk.clone()) {
        let kps = current_kps(&sim);
        let mut g = stream(scen.seed, scen.run, "c02/injected");
        let n = scen.n as usize;
        let k = g.range(scen.t as u64, n.min(scen.t as usize + 3) as u64) as usize;
        let mut members: Vec<frost::keys::KeyPackage<C>> = g.subset(n, k).into_iter().filter_map(|i| kps.get(&i).cloned()).collect();
        members.sort_by_key(|kp| *kp.identifier());
        if members.len() == k && k >= 2 {
            let plan = *g.pick(&["all_same", "adjacent_same_binding", "adjacent_same_hiding", "hiding_eq_binding", "one_and_two", "minus_one", "adjacent_swapped"]);
            let base_h = sc_random_nonzero::<C>(&mut g);
            let base_b = sc_random_nonzero::<C>(&mut g);
            let j0 = g.below(k as u64 - 1) as usize;
            let mut pairs: Vec<(frost::Scalar<C>, frost::Scalar<C>)> = (0..k).map(|_| (sc_random_nonzero::<C>(&mut g), sc_random_nonzero::<C>(&mut g))).collect();
            match plan {
                "all_same" => pairs.iter_mut().for_each(|p| *p = (base_h, base_b)),
                "adjacent_same_binding" => {
                    pairs[j0].1 = base_b;
                    pairs[j0 + 1].1 = base_b;
                }
                "adjacent_same_hiding" => {
                    pairs[j0].0 = base_h;
                    pairs[j0 + 1].0 = base_h;
                }
                "hiding_eq_binding" => pairs.iter_mut().for_each(|p| p.1 = p.0),
                "one_and_two" => pairs.iter_mut().for_each(|p| *p = (one::<C>(), sc_from_u64::<C>(2))),
                "minus_one" => pairs.iter_mut().for_each(|p| *p = (neg::<C>(one::<C>()), neg::<C>(one::<C>()))),
                _ => {
                    // signer j0+1 uses signer j0's pair swapped
                    pairs[j0 + 1] = (pairs[j0].1, pairs[j0].0);
                }
            }
            let msg = gen_message(&mut g);
            let mut nonces = Vec::new();
            let mut cm = BTreeMap::new();
            let mut okk = true;
            for (kp, (h, b)) in members.iter().zip(pairs.iter()) {
                match (frost::round1::Nonce::<C>::deserialize(&sc_bytes::<C>(h)), frost::round1::Nonce::<C>::deserialize(&sc_bytes::<C>(b))) {
                    (Ok(hn), Ok(bn)) => {
                        let nn = frost::round1::SigningNonces::<C>::from_nonces(hn, bn);
                        cm.insert(*kp.identifier(), *nn.commitments());
                        nonces.push(nn);
                    }
                    _ => okk = false,
                }
            }
            if okk {
                let pkg = frost::SigningPackage::<C>::new(cm, &msg);
                let mut shares = BTreeMap::new();
                for (kp, nn) in members.iter().zip(nonces.iter()) {
                    match frost::round2::sign::<C>(&pkg, nn, kp) {
                        Ok(z) => {
                            shares.insert(*kp.identifier(), z);
                        }
                        Err(e) => return Exec::Violation(Violation::new("C02", "C02.structured_nonce_session_failed", format!("plan {plan}: sign = {e:?}")), rep),
                    }
                }
                let sig = match frost::aggregate::<C>(&pkg, &shares, &pk) {
                    Ok(s) => s,
                    Err(e) => return Exec::Violation(Violation::new("C02", "C02.structured_nonce_session_failed", format!("plan {plan} ({k} signers, equal nonces at sorted positions {j0},{}): honest shares do not aggregate: {e:?}", j0 + 1)), rep),
                };
                let signers: Vec<Value> = members
                    .iter()
                    .zip(nonces.iter())
                    .map(|(kp, nn)| {
                        json!({
                            "id": hexs(&kp.identifier().serialize()),
                            "share": hexs(&kp.signing_share().serialize()),
                            "verifying_share": hexs(&pk.verifying_shares().get(kp.identifier()).and_then(|v| v.serialize().ok()).unwrap_or_default()),
                            "hiding_nonce": hexs(&nn.hiding().serialize()),
                            "binding_nonce": hexs(&nn.binding().serialize()),
                            "hiding_commitment": hexs(&nn.commitments().hiding().serialize().unwrap_or_default()),
                            "binding_commitment": hexs(&nn.commitments().binding().serialize().unwrap_or_default()),
                            "sig_share": hexs(&shares[kp.identifier()].serialize()),
                        })
                    })
                    .collect();
                rep.trace.push(
                    json!({"type": "session", "suite": C::NAME, "run": run_tag, "what": format!("injected nonces, plan {plan}"),
                        "group_key": hexs(&pk.verifying_key().serialize().unwrap_or_default()), "message": hexs(&msg), "signers": signers,
                        "signature": hexs(&sig.serialize().unwrap_or_default()), "tweak": Value::Null})
                    .to_string(),
                );
                rep.evaluations += 2 + 5 * k as u64;
                rep.probe("injected_nonce_session");
                rep.probe(&format!("injected_{plan}"));
            }
        }
    }
    // ---- nonces from the batch entry point (round1::preprocess): every pair, not only the first, is nonce_generate ------------
    {
        let mut g = stream(scen.seed, scen.run, "c02/preprocess");
        let k = *g.pick(&[2u8, 2, 3, 4, 7]);
        let share_scalar = match g.below(6) {
            0 => one::<C>(),
            _ => sc_random_nonzero::<C>(&mut g),
        };
        let share = share_from_scalar::<C>(&share_scalar);
        let mut rng = SimRng::good(stream(scen.seed, scen.run, "c02/preprocess/rng"));
        let (nonces, comms) = frost::round1::preprocess::<C, _>(k, &share, &mut rng);
        if nonces.len() != k as usize || comms.len() != k as usize {
            return Exec::Violation(Violation::new("C02", "C02.preprocess_wrong_count", format!("preprocess({k}) returned {} nonce pairs and {} commitment pairs", nonces.len(), comms.len())), rep);
        }
        // candidates: every 32-byte draw the library made, in order (the reference accepts a nonce if SOME draw explains it,
        // so that the order of draws inside the batch is not part of the oracle)
        let out = &rng.out;
        let cands: Vec<String> = rng.draws.iter().filter(|(_, l)| *l == 32).map(|(o, l)| hexs(&out[*o..*o + *l])).collect();
        let sb = hexs(&share.serialize());
        for (j, (nn, cc)) in nonces.iter().zip(comms.iter()).enumerate() {
            if nn.commitments() != cc {
                return Exec::Violation(Violation::new("C02", "C02.preprocess_commitment_mismatch", format!("preprocess({k}) pair {j}: returned commitments are not the commitments of the returned nonces")), rep);
            }
            for (which, nb, cb) in [("hiding", nn.hiding().serialize(), cc.hiding().serialize().unwrap_or_default()), ("binding", nn.binding().serialize(), cc.binding().serialize().unwrap_or_default())] {
                rep.trace.push(json!({"type":"nonce","suite":C::NAME,"run":run_tag,"what":format!("preprocess({k}) pair {j} {which}"),"share":sb,"rand_candidates":cands,"nonce":hexs(&nb),"commitment":hexs(&cb)}).to_string());
                rep.evaluations += 1;
            }
        }
        rep.probe("preprocess_batch");
    }
    // ---- single-signer signatures, both directions -------------------------------------------------------------
    {
        let mut rng = SimRng::good(stream(scen.seed, scen.run, "c02/single/key"));
        let sk = SigningKey::<C>::new(&mut rng);
        let vk = VerifyingKey::<C>::from(&sk);
        let mut mp = stream(scen.seed, scen.run, "c02/single/msg");
        let msg = gen_message(&mut mp);
        let sig = sk.sign(SimRng::good(stream(scen.seed, scen.run, "c02/single/sign")), &msg);
        rep.trace.push(
            json!({"type":"single_sig","suite":C::NAME,"run":run_tag,"signing_key":hexs(&sk.serialize()),"verifying_key":hexs(&vk.serialize().unwrap_or_default()),"message":hexs(&msg),"signature":hexs(&sig.serialize().unwrap_or_default())})
                .to_string(),
        );
        rep.evaluations += 1;
        rep.probe("single_sig_lib_made");
        // reference-made signatures of this run's slice
        let dir = std::env::var("FROSTSIM_VERIF_DIR").unwrap_or_else(|_| "/verif".into());
        let path = single_path(&dir, C::NAME, scen.seed);
        let body = match std::fs::read_to_string(&path) {
            Ok(b) => b,
            Err(_) => {
                // replay in a fresh checkout: ask the reference now
                match std::process::Command::new("python3").arg(format!("{dir}/ref/make_single.py")).arg(C::NAME).arg("40").arg(format!("{}", scen.seed)).output() {
                    Ok(o) if o.status.success() => String::from_utf8_lossy(&o.stdout).to_string(),
                    _ => return Exec::Harness(format!("reference-made signatures not available ({path})")),
                }
            }
        };
        let lines: Vec<&str> = body.lines().filter(|l| !l.trim().is_empty()).collect();
        if lines.is_empty() {
            return Exec::Harness("make_single.py produced nothing".into());
        }
        for k in 0..2 {
            let l = lines[((scen.run as usize) * 2 + k) % lines.len()];
            let v: Value = match serde_json::from_str(l) {
                Ok(v) => v,
                Err(e) => return Exec::Harness(format!("bad make_single line: {e}")),
            };
            let get = |f: &str| hex::decode(v[f].as_str().unwrap_or("")).unwrap_or_default();
            let (vkb, m, sb) = (get("verifying_key"), get("message"), get("signature"));
            rep.evaluations += 1;
            rep.probe("single_sig_ref_made");
            let vk = match VerifyingKey::<C>::deserialize(&vkb) {
                Ok(k) => k,
                Err(e) => return Exec::Violation(Violation::new("C02", "C02.library_rejects_reference_signature", format!("verifying key {} made by the reference does not decode: {e:?}", hexs(&vkb))), rep),
            };
            let sig = match Signature::<C>::deserialize(&sb) {
                Ok(s) => s,
                Err(e) => return Exec::Violation(Violation::new("C02", "C02.library_rejects_reference_signature", format!("signature {} made by the reference does not decode: {e:?}", hexs(&sb))), rep),
            };
            if let Err(e) = vk.verify(&m, &sig) {
                return Exec::Violation(Violation::new("C02", "C02.library_rejects_reference_signature", format!("signature made by the independent signer is rejected: {e:?}; vk = {}, msg = {}, sig = {}", hexs(&vkb), hexs(&m), hexs(&sb))), rep);
            }
            // and the signing key of the reference gives the same verifying key in the library
            if let Ok(sk2) = SigningKey::<C>::deserialize(&get("signing_key")) {
                let vk2 = VerifyingKey::<C>::from(&sk2);
                let same = if C::IS_TR { vk2.serialize().map(|b| b[1..].to_vec()).ok() == Some(vkb[1..].to_vec()) } else { vk2 == vk };
                if !same {
                    return Exec::Violation(Violation::new("C02", "C02.verifying_key_differs_from_reference", format!("G * {} differs from the reference's verifying key", v["signing_key"])), rep);
                }
            }
        }
    }
    let _: BTreeMap<u8, u8> = BTreeMap::new();
    rep.nontrivial = rep.probes.get("session_recorded").copied().unwrap_or(0) > 0;
    rep.sample = Some(json!({"suite": scen.suite, "n": scen.n, "t": scen.t, "ids": scen.id_scheme, "phases": scen.phases, "trace_lines": rep.trace.len(), "first_trace_line": rep.trace.first().map(|l| l.chars().take(500).collect::<String>())}));
    Exec::Ok(rep)
}
