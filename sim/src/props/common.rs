//! Shared executor pieces: run a scenario's phases through the simulator, honest-path checks
//! (no step fails, bounded liveness once faults stop), and the signing-session oracle of C01.

use std::collections::BTreeMap;

use frost_core::keys::{KeyPackage, PublicKeyPackage};
use frost_core::round2::SignatureShare;
use frost_core::{self as frost, CheaterDetection, Identifier, Signature, SigningPackage};
use serde_json::json;

use crate::engine::RunReport;
use crate::scenario::*;
use crate::sim::*;
use crate::suite::*;

pub fn new_report(scen: &Scenario) -> RunReport {
    let mut r = RunReport::default();
    r.shape = scen.shape_key();
    r
}

pub fn absorb_stats<C: Suite>(sim: &Sim<C>, rep: &mut RunReport) {
    rep.steps += sim.stats.steps;
    rep.delivered += sim.stats.delivered;
    for (k, v) in &sim.stats.faults_fired {
        *rep.faults_fired.entry(k.to_string()).or_default() += v;
    }
    if sim.stats.reordered > 0 {
        *rep.faults_fired.entry("reorder".into()).or_default() += sim.stats.reordered;
    }
    rep.digest ^= sim.log.value();
    if sim.stats.restarts > 0 {
        rep.probe_n("restarts", sim.stats.restarts);
    }
}

/// Run all phases. `Err(Violation)` for honest-path failures (a step failed, or an instance did not
/// complete within the bound once faults had stopped), `Err` harness string inside Violation with
/// oracle "harness" for harness-level problems.
pub fn run_honest<C: Suite>(scen: &Scenario, rep: &mut RunReport) -> Result<Sim<C>, Violation> {
    let mut sim = Sim::<C>::new(scen).map_err(|e| Violation::new(&scen.property, "harness", e))?;
    run_phases(&mut sim, scen, rep)?;
    Ok(sim)
}

pub fn run_phases<C: Suite>(sim: &mut Sim<C>, scen: &Scenario, rep: &mut RunReport) -> Result<(), Violation> {
    let pid = scen.property.clone();
    for phase in 0..scen.phases.len() {
        // a repair of an existing participant first loses that participant's share
        for inst in &scen.phases[phase] {
            if let Inst::Repair { target, .. } = inst {
                if *target < scen.n as usize {
                    sim.lose_share(*target);
                }
            }
        }
        if let Err(e) = sim.run_phase(phase) {
            absorb_stats(sim, rep);
            // exceeding the step bound after the fault budget is spent = bounded-liveness failure
            return Err(Violation::new(&pid, &format!("{pid}.liveness"), e));
        }
        if let Some(v) = honest_errors(sim, &pid) {
            absorb_stats(sim, rep);
            return Err(v);
        }
        for inst in scen.phase_range(phase) {
            if !sim.inst_complete(inst) {
                absorb_stats(sim, rep);
                return Err(Violation::new(
                    &pid,
                    &format!("{pid}.liveness"),
                    format!("instance {inst} ({:?}) did not complete after the network went quiet (faults exhausted, all envelopes delivered)", scen.inst(inst).unwrap()),
                ));
            }
        }
    }
    absorb_stats(sim, rep);
    Ok(())
}

pub fn honest_errors<C: Suite>(sim: &Sim<C>, pid: &str) -> Option<Violation> {
    for r in &sim.history {
        match r {
            Record::LibError { node, inst, call, err } => {
                return Some(Violation::new(pid, &format!("{pid}.honest_step_failed"), format!("node {node} instance {inst}: {call} failed on the honest path: {err}")));
            }
            Record::Panic { node, inst, what } => {
                return Some(Violation::new(pid, &format!("{pid}.honest_step_panicked"), format!("node {node} instance {inst}: panic: {what}")));
            }
            Record::HubPkMismatch { inst, from } => {
                return Some(Violation::new(pid, &format!("{pid}.public_key_packages_differ"), format!("instance {inst}: participant {from} reported a different PublicKeyPackage")));
            }
            _ => {}
        }
    }
    None
}

pub fn sig_bytes<C: Suite>(sig: &Signature<C>) -> Vec<u8> {
    sig.serialize().unwrap_or_default()
}

/// All three detection modes plus plain aggregate on the given inputs.
pub fn aggregate_all<C: Suite>(
    pkg: &SigningPackage<C>,
    shares: &BTreeMap<Identifier<C>, SignatureShare<C>>,
    pk: &PublicKeyPackage<C>,
) -> Vec<(&'static str, Result<Signature<C>, frost::Error<C>>)> {
    vec![
        ("aggregate", frost::aggregate(pkg, shares, pk)),
        ("custom:Disabled", frost::aggregate_custom(pkg, shares, pk, CheaterDetection::Disabled)),
        ("custom:FirstCheater", frost::aggregate_custom(pkg, shares, pk, CheaterDetection::FirstCheater)),
        ("custom:AllCheaters", frost::aggregate_custom(pkg, shares, pk, CheaterDetection::AllCheaters)),
        // and through the ciphersuite crate's own entry points
        ("suite crate aggregate", C::w_aggregate(pkg, shares, pk)),
        ("suite crate custom:Disabled", C::w_aggregate_custom(pkg, shares, pk, CheaterDetection::Disabled)),
        ("suite crate custom:AllCheaters", C::w_aggregate_custom(pkg, shares, pk, CheaterDetection::AllCheaters)),
    ]
}

/// The C01 oracle for one completed plain session. `kps`: key packages of the signers (for the
/// "group key as seen by every signer" check).
pub fn check_plain_session<C: Suite>(
    pid: &str,
    inst: u32,
    pkg: &SigningPackage<C>,
    shares: &BTreeMap<Identifier<C>, SignatureShare<C>>,
    pk: &PublicKeyPackage<C>,
    result: &Result<Signature<C>, frost::Error<C>>,
    kps: &[KeyPackage<C>],
    rep: &mut RunReport,
    emit_trace: bool,
) -> Option<Violation> {
    let sig = match result {
        Ok(s) => *s,
        Err(e) => return Some(Violation::new(pid, &format!("{pid}.aggregate_failed"), format!("session {inst}: aggregate returned {e:?} for honest signers"))),
    };
    rep.evaluations += 1;
    let sb = sig_bytes(&sig);
    for (name, r) in aggregate_all(pkg, shares, pk) {
        match r {
            Err(e) => return Some(Violation::new(pid, &format!("{pid}.aggregate_failed"), format!("session {inst}: {name} returned {e:?} for honest signers"))),
            Ok(s2) => {
                if sig_bytes(&s2) != sb {
                    return Some(Violation::new(pid, &format!("{pid}.aggregate_modes_disagree"), format!("session {inst}: {name} produced a different signature")));
                }
            }
        }
        rep.evaluations += 1;
    }
    let big = shares.len() > 64;
    for (pos, (id, z)) in shares.iter().enumerate() {
        // very large sessions: first, last and every 40th signer (each check recomputes the whole group commitment)
        if big && pos != 0 && pos + 1 != shares.len() && pos % 40 != 7 {
            continue;
        }
        let vs = match pk.verifying_shares().get(id) {
            Some(v) => v,
            None => return Some(Violation::new(pid, "harness", format!("session {inst}: signer not in public key package"))),
        };
        if let Err(e) = frost::verify_signature_share(*id, vs, z, pkg, pk.verifying_key()) {
            return Some(Violation::new(pid, &format!("{pid}.honest_share_rejected"), format!("session {inst}: verify_signature_share({}) = {e:?}", hexs(&id.serialize()))));
        }
        rep.evaluations += 1;
    }
    // serialise -> deserialise -> verify under the group key from the public key package and from every signer
    let sig2 = match Signature::<C>::deserialize(&sb) {
        Ok(s) => s,
        Err(e) => return Some(Violation::new(pid, &format!("{pid}.signature_does_not_decode"), format!("session {inst}: {e:?}"))),
    };
    let msg = pkg.message();
    if let Err(e) = pk.verifying_key().verify(msg, &sig2) {
        return Some(Violation::new(pid, &format!("{pid}.signature_does_not_verify"), format!("session {inst}: VerifyingKey::verify = {e:?}")));
    }
    for kp in kps {
        if let Err(e) = kp.verifying_key().verify(msg, &sig2) {
            return Some(Violation::new(pid, &format!("{pid}.signature_does_not_verify"), format!("session {inst}: verify under signer {}'s group key = {e:?}", hexs(&kp.identifier().serialize()))));
        }
    }
    rep.evaluations += 1;
    let vkb = pk.verifying_key().serialize().unwrap_or_default();
    if let Some(ok) = C::third_party_verify(&vkb, msg, &sb) {
        rep.probe("third_party_verified");
        rep.evaluations += 1;
        if !ok {
            return Some(Violation::new(pid, &format!("{pid}.third_party_verifier_rejects"), format!("session {inst}: independent verifier rejects sig={} vk={} msg={}", hexs(&sb), hexs(&vkb), hexs(msg))));
        }
    }
    if emit_trace {
        rep.trace.push(
            json!({"type":"verify","suite":C::NAME,"verifying_key":hexs(&vkb),"message":hexs(msg),"signature":hexs(&sb),"expect":true,"tweak":null}).to_string(),
        );
    }
    None
}

/// Current key packages of all participant nodes that have one.
pub fn current_kps<C: Suite>(sim: &Sim<C>) -> BTreeMap<usize, KeyPackage<C>> {
    let mut m = BTreeMap::new();
    for (p, st) in sim.parts.iter().enumerate() {
        if let Some(st) = st {
            if let Some(kp) = &st.kp {
                m.insert(p, kp.clone());
            }
        }
    }
    m
}

pub fn node_of<C: Suite>(sim: &Sim<C>, id: &Identifier<C>) -> Option<usize> {
    sim.ids.iter().position(|i| i == id)
}

/// A byte string that makes the suite's `Field::random` return exactly `s` when it is what the random source hands out
/// (little-endian wide / exact-width big-endian layouts are tried; `None` if neither reproduces `s`).
pub fn craft_draw<C: Suite>(s: frost::Scalar<C>) -> Option<Vec<u8>> {
    use frost_core::{Field, Group};
    type F<C> = <<C as frost::Ciphersuite>::Group as Group>::Field;
    let le = {
        let mut b = F::<C>::little_endian_serialize(&s).as_ref().to_vec();
        b.resize(if b.len() > 40 { 114 } else { 64 }, 0);
        b
    };
    let be = sc_bytes::<C>(&s);
    for cand in [le, be] {
        let mut r = crate::simrng::SimRng::replay(cand.clone(), crate::prng::stream(0, 0, "craft/never"));
        let got = F::<C>::random(&mut r);
        if got == s && r.total() == cand.len() {
            return Some(cand);
        }
    }
    None
}

// ---- which route direct library calls of the sweeps take: frost-core's generic functions, or the ciphersuite crate's own entry
// points (thin wrappers the generic tests bypass). Decided per run (odd runs take the wrappers), so both are exercised and a
// replay, which keeps seed and run, takes the same route.
thread_local! {
    static ROUTE_SUITE_CRATE: std::cell::Cell<bool> = const { std::cell::Cell::new(false) };
}
pub fn set_route(run: u64, rep: &mut RunReport) {
    let suite_crate = run % 2 == 1;
    ROUTE_SUITE_CRATE.with(|r| r.set(suite_crate));
    rep.probe(if suite_crate { "route_suite_crate_entry_points" } else { "route_frost_core_generics" });
}
fn route_suite_crate() -> bool {
    ROUTE_SUITE_CRATE.with(|r| r.get())
}
#[allow(clippy::type_complexity)]
pub fn dkg_part2<C: Suite>(
    secret: frost::keys::dkg::round1::SecretPackage<C>,
    r1: &BTreeMap<Identifier<C>, frost::keys::dkg::round1::Package<C>>,
) -> Result<(frost::keys::dkg::round2::SecretPackage<C>, BTreeMap<Identifier<C>, frost::keys::dkg::round2::Package<C>>), frost::Error<C>> {
    if route_suite_crate() { C::w_dkg_part2(secret, r1) } else { frost::keys::dkg::part2::<C>(secret, r1) }
}
pub fn dkg_part3<C: Suite>(
    s2: &frost::keys::dkg::round2::SecretPackage<C>,
    r1: &BTreeMap<Identifier<C>, frost::keys::dkg::round1::Package<C>>,
    r2: &BTreeMap<Identifier<C>, frost::keys::dkg::round2::Package<C>>,
) -> Result<(KeyPackage<C>, PublicKeyPackage<C>), frost::Error<C>> {
    if route_suite_crate() { C::w_dkg_part3(s2, r1, r2) } else { frost::keys::dkg::part3::<C>(s2, r1, r2) }
}
