//! C06 — dealer key generation yields consistent, verifiable shares of the given key.
//! World: a dealer node distributing shares and the public key package over the simulated network
//! (honest-path faults). Faults: Byzantine dealer / tampering in transit on every single coordinate
//! of every share; arrival-order seam (order of the custom identifier list); parameter faults.

use std::collections::BTreeMap;

use frost_core::keys::{self, IdentifierList, KeyPackage, PublicKeyPackage, SecretShare, VerifiableSecretSharingCommitment};
use frost_core::{self as frost, Identifier, SigningKey};
use serde_json::json;

use crate::dispatch;
use crate::engine::*;
use crate::genr::*;
use crate::prng::stream;
use crate::props::c07::check_key_material;
use crate::props::common::*;
use crate::scenario::*;
use crate::sim::Record;
use crate::simrng::SimRng;
use crate::suite::*;

pub fn prop() -> Prop {
    Prop {
        id: "C06",
        level: "fault_enumeration",
        runs: |t| match t {
            Tier::Quick => 2500,
            Tier::Thorough => 30000,
        },
        generate,
        exec,
        shrink: generic_shrink,
        rule: "one evaluation = one oracle call on a dealer output (share verifies, key package consistent with public key package, threshold, commitment length, C_0 = G*key, t-subsets reconstruct the key [all C(n,t) when <= 200], t+1 consistent, list-order independence) or one tampered share (value, identifier -> other / fresh, each of the t commitment entries, truncation, extension) offered to KeyPackage::try_from, or one invalid parameter set; non-trivial = tamper sweep done; distinct = (suite, n, t, ids, wire, split/generate) x tamper coordinate hashed and counted",
        distinct_measure: "hash of (scenario shape, tamper coordinate)",
        assumptions: &["seeded sampling over worlds; enumeration over tamper positions within a world"],
        real: &["frost-core keys", "six ciphersuite crates"],
        stub: &["transport", "store", "glue", "random source", "tampering dealer / network"],
        independent: &["harness Lagrange interpolation and commitment evaluation"],
        ref_sample: |_| 0,
        required_probes: &["degree_ge_3", "degree_ge_6", "degree_ge_15", "params_list_plus_65536", "tamper_value", "tamper_identifier_other", "tamper_identifier_fresh", "tamper_commitment_0", "tamper_commitment_last", "tamper_truncate", "tamper_extend", "order_independent", "params_refused", "all_subsets_reconstruct", "split_known_key"],
        prepare: None,
    }
}

pub fn generate(seed: u64, run: u64, tier: Tier) -> Scenario {
    let suite = suite_for_run(run, 6);
    dispatch!(suite, gen_c(seed, run, tier))
}

fn gen_c<C: Suite>(seed: u64, run: u64, tier: Tier) -> Scenario {
    let mut p = stream(seed, run, "gen");
    let mut s = base_scenario("C06", C::NAME, seed, run);
    let slow = C::COST >= 9;
    let max_n = match (tier, slow) {
        (Tier::Quick, false) => 8,
        (Tier::Quick, true) => 5,
        (Tier::Thorough, false) => 16,
        (Tier::Thorough, true) => 8,
    };
    let (mut n, mut t) = gen_nt(&mut p, 2, max_n);
    // now and then a high-degree sharing (the commitment evaluation and Horner loops for degree >= 15)
    if !slow && p.chance(1, 30) {
        n = p.range(16, if C::COST >= 3 { 24 } else { 40 }) as u16;
        t = p.range(16, n as u64) as u16;
    }
    s.n = n;
    s.t = t;
    s.id_scheme = (*p.pick(&ID_SCHEMES)).to_string();
    s.ids_hex = gen_ids::<C>(&mut p, &s.id_scheme, n as usize);
    s.wire = gen_wire(&mut p);
    s.phases.push(vec![Inst::DealerKeygen { split_key: p.chance(2, 3) }]);
    s.sched = if p.chance(1, 5) { Sched::Fifo } else { Sched::Random };
    let mask = if p.chance(1, 3) { 0 } else { p.range(1, 31) as u32 };
    let mut fp = stream(seed, run, "faults");
    s.faults = gen_honest_faults(&mut fp, &s, p.range(0, 5) as usize, mask);
    // boundary parameter sets (expensive ones only in the thorough tier on the cheapest suite)
    let big = tier == Tier::Thorough && C::COST <= 1 && p.chance(1, 60);
    // an identifier list that is too long by exactly 65536 (costs seconds if it is ever accepted): once in a while
    let long_list = match tier {
        Tier::Quick => C::COST <= 1 && run % 60 == 0,
        Tier::Thorough => C::COST <= 2 && p.chance(1, 60),
    };
    s.extra = json!({"big_params": big, "long_list": long_list});
    s
}

pub fn exec(scen: &Scenario) -> Exec {
    dispatch!(scen.suite.as_str(), exec_c(scen))
}

fn bump<C: Suite>(b: &[u8]) -> Option<Vec<u8>> {
    el_bytes::<C>(&(el_from_bytes::<C>(b)? + base::<C>(one::<C>())))
}

fn combos(n: usize, k: usize, cap: usize, p: &mut crate::prng::Prng) -> (Vec<Vec<usize>>, bool) {
    // number of k-subsets
    let mut count: u128 = 1;
    for i in 0..k {
        count = count * (n - i) as u128 / (i + 1) as u128;
    }
    if count <= cap as u128 {
        let mut out = Vec::new();
        let mut idx: Vec<usize> = (0..k).collect();
        loop {
            out.push(idx.clone());
            let mut i = k;
            while i > 0 && idx[i - 1] == n - k + i - 1 {
                i -= 1;
            }
            if i == 0 {
                break;
            }
            idx[i - 1] += 1;
            for j in i..k {
                idx[j] = idx[j - 1] + 1;
            }
        }
        (out, true)
    } else {
        ((0..cap).map(|_| p.subset(n, k)).collect(), false)
    }
}

fn exec_c<C: Suite>(scen: &Scenario) -> Exec {
    let mut rep = new_report(scen);
    let sim = match run_honest::<C>(scen, &mut rep) {
        Ok(s) => s,
        Err(v) if v.oracle == "harness" => return Exec::Harness(v.detail),
        Err(v) => return Exec::Violation(v, rep),
    };
    let n = scen.n as usize;
    let t = scen.t as usize;
    let viol = |o: &str, d: String| Violation::new("C06", o, d);
    let (shares, pk, key) = match sim.history.iter().find_map(|r| match r {
        Record::DealerOut { shares, pk, key, .. } => Some((shares.clone(), pk.clone(), *key)),
        _ => None,
    }) {
        Some(x) => x,
        None => return Exec::Harness("no dealer output".into()),
    };
    let ids: Vec<Identifier<C>> = sim.ids[..n].to_vec();
    if t >= 4 {
        rep.probe("degree_ge_3");
    }
    if t >= 7 {
        rep.probe("degree_ge_6");
    }
    if t >= 16 {
        rep.probe("degree_ge_15");
    }
    if key.is_some() {
        rep.probe("split_known_key");
    }
    // ---- honest output ------------------------------------------------------------------------
    if shares.len() != n {
        return Exec::Violation(viol("C06.wrong_number_of_shares", format!("{} shares for n = {n}", shares.len())), rep);
    }
    let kps = current_kps(&sim);
    let group_el = vkey_element::<C>(pk.verifying_key());
    for (p, id) in ids.iter().enumerate() {
        let Some(sh) = shares.get(id) else { return Exec::Violation(viol("C06.share_missing", format!("no share for participant {p}")), rep) };
        rep.evaluations += 4;
        if sh.identifier() != id {
            return Exec::Violation(viol("C06.share_identifier_wrong", format!("participant {p}")), rep);
        }
        let (vs, vk) = match sh.verify() {
            Ok(x) => x,
            Err(e) => return Exec::Violation(viol("C06.honest_share_rejected", format!("participant {p}: SecretShare::verify = {e:?}")), rep),
        };
        if vk != *pk.verifying_key() {
            return Exec::Violation(viol("C06.group_key_mismatch", format!("participant {p}: share's group key differs from the public key package")), rep);
        }
        // the key package the participant built after transport over the simulated network
        let kp = &kps[&p];
        if *kp.verifying_share() != vs {
            return Exec::Violation(viol("C06.verifying_share_mismatch", format!("participant {p}")), rep);
        }
        if let Some(v) = check_key_material::<C>("C06", &format!("participant {p}"), kp, &pk, scen.t, Some(&ids)) {
            return Exec::Violation(v, rep);
        }
        let ser = sh.commitment().serialize().unwrap_or_default();
        if ser.len() != t {
            return Exec::Violation(viol("C06.commitment_length_not_threshold", format!("commitment has {} entries, t = {t}", ser.len())), rep);
        }
        if el_from_bytes::<C>(&ser[0]) != Some(group_el) {
            return Exec::Violation(viol("C06.c0_not_group_key", "first commitment entry != group key".into()), rep);
        }
    }
    if let Some(k) = key {
        rep.evaluations += 1;
        if base::<C>(k) != group_el {
            return Exec::Violation(viol("C06.group_key_not_G_times_key", "group key != G * key that was split".into()), rep);
        }
    }
    // one polynomial of degree exactly t-1 with f(0) = key
    let xs: Vec<_> = ids.iter().map(|id| id_scalar::<C>(id)).collect();
    let ys: Vec<_> = ids.iter().map(|id| share_scalar::<C>(shares[id].signing_share())).collect();
    let mut cp = stream(scen.seed, scen.run, "c06/subsets");
    let (subsets, exhaustive) = combos(n, t, 200, &mut cp);
    if exhaustive {
        rep.probe("all_subsets_reconstruct");
    }
    for (si, sub) in subsets.iter().enumerate() {
        let sx: Vec<_> = sub.iter().map(|i| xs[*i]).collect();
        let sy: Vec<_> = sub.iter().map(|i| ys[*i]).collect();
        let f0 = interpolate::<C>(&sx, &sy, zero::<C>()).unwrap();
        rep.evaluations += 1;
        if base::<C>(f0) != group_el || key.map(|k| k != f0).unwrap_or(false) {
            return Exec::Violation(viol("C06.subset_does_not_reconstruct_key", format!("t-subset {sub:?} interpolates to another value at zero")), rep);
        }
        // library reconstruct on a sample of the subsets (it is the slower path)
        if si < 12 {
            let pk_list: Vec<KeyPackage<C>> = sub.iter().map(|i| kps[i].clone()).collect();
            rep.evaluations += 1;
            // alternately through frost-core and through the ciphersuite crate's own entry point
            match if si % 2 == 0 { keys::reconstruct::<C>(&pk_list) } else { C::w_reconstruct(&pk_list) } {
                Ok(sk) => {
                    if sc_from_bytes::<C>(&sk.serialize()) != Some(f0) {
                        return Exec::Violation(viol("C06.reconstruct_wrong", format!("reconstruct on t-subset {sub:?} gives another key")), rep);
                    }
                }
                Err(e) => return Exec::Violation(viol("C06.reconstruct_wrong", format!("reconstruct on t-subset {sub:?} = {e:?}")), rep),
            }
        }
        // any t+1 are consistent: the interpolant hits one more participant's share
        if let Some(other) = (0..n).find(|i| !sub.contains(i)) {
            if interpolate::<C>(&sx, &sy, xs[other]).unwrap() != ys[other] {
                return Exec::Violation(viol("C06.shares_not_on_one_polynomial", format!("share of participant {other} is not on the polynomial through t-subset {sub:?}")), rep);
            }
        }
        // degree exactly t-1: dropping one point changes the value at zero
        if t >= 2 && si < 6 {
            let f0m = interpolate::<C>(&sx[1..], &sy[1..], zero::<C>()).unwrap();
            if f0m == f0 {
                return Exec::Violation(viol("C06.degree_lower_than_threshold", format!("t-1 shares of subset {sub:?} already determine the key")), rep);
            }
        }
    }
    // shares match the commitment in the exponent, computed term by term by the harness
    {
        let ser = shares[&ids[0]].commitment().serialize().unwrap_or_default();
        let comm: Vec<_> = ser.iter().filter_map(|b| el_from_bytes::<C>(b)).collect();
        for p in 0..n {
            rep.evaluations += 1;
            if commit_eval::<C>(&comm, xs[p]) != base::<C>(ys[p]) {
                return Exec::Violation(viol("C06.share_not_matching_commitment", format!("participant {p}: G*share != sum_k id^k * C_k")), rep);
            }
        }
    }
    // identical results for any order of the custom identifier list (same key, same random stream)
    if let Some(k) = key {
        let sk = SigningKey::<C>::from_scalar(k).unwrap();
        let mut order = ids.clone();
        let mut op = stream(scen.seed, scen.run, "c06/order");
        op.shuffle(&mut order);
        order.reverse();
        let mut rng = SimRng::good(stream(scen.seed, scen.run, &format!("node{}/inst0/dealer", scen.hub())));
        rep.evaluations += 1;
        match keys::split::<C, _>(&sk, scen.n, scen.t, IdentifierList::Custom(&order), &mut rng) {
            Ok((s2, pk2)) => {
                if s2 != shares || pk2 != pk {
                    return Exec::Violation(viol("C06.depends_on_identifier_list_order", "split() output differs when the custom identifier list is given in another order".into()), rep);
                }
                rep.probe("order_independent");
            }
            Err(e) => return Exec::Violation(viol("C06.depends_on_identifier_list_order", format!("split() with permuted list = {e:?}")), rep),
        }
    } else {
        rep.probe("order_independent_skipped");
    }

    // ---- tampering: every share x every coordinate ------------------------------------------------
    let mut fp = stream(scen.seed, scen.run, "c06/fresh");
    let fresh_id = loop {
        let c = id_from_scalar::<C>(&sc_random_nonzero::<C>(&mut fp)).unwrap();
        if !ids.contains(&c) {
            break c;
        }
    };
    let only: Option<(usize, String)> = scen.extra.get("only").and_then(|o| o.as_array()).map(|a| (a[0].as_u64().unwrap() as usize, a[1].as_str().unwrap().to_string()));
    for (p, id) in ids.iter().enumerate() {
        // high-degree worlds: the sweep over all shares would cost seconds; first, last and a few others suffice there
        if n > 12 && p > 2 && p + 3 < n {
            continue;
        }
        let sh = &shares[id];
        let ser = sh.commitment().serialize().unwrap_or_default();
        let s = share_scalar::<C>(sh.signing_share());
        let mut cases: Vec<(String, SecretShare<C>)> = Vec::new();
        let comm = sh.commitment().clone();
        cases.push(("value".into(), SecretShare::<C>::new(*id, share_from_scalar::<C>(&(s + one::<C>())), comm.clone())));
        cases.push(("value_neg".into(), SecretShare::<C>::new(*id, share_from_scalar::<C>(&neg::<C>(s)), comm.clone())));
        cases.push(("value_zero".into(), SecretShare::<C>::new(*id, share_from_scalar::<C>(&zero::<C>()), comm.clone())));
        let other = ids[(p + 1) % n];
        cases.push(("identifier_other".into(), SecretShare::<C>::new(other, *sh.signing_share(), comm.clone())));
        cases.push(("identifier_fresh".into(), SecretShare::<C>::new(fresh_id, *sh.signing_share(), comm.clone())));
        for c in 0..t {
            let mut e = ser.clone();
            if let Some(b2) = bump::<C>(&e[c]) {
                e[c] = b2;
                if let Ok(cm) = VerifiableSecretSharingCommitment::<C>::deserialize(e.iter()) {
                    let name = if c == 0 { "commitment_0".to_string() } else if c + 1 == t { "commitment_last".to_string() } else { format!("commitment_{c}") };
                    cases.push((name, SecretShare::<C>::new(*id, *sh.signing_share(), cm)));
                }
            }
        }
        if let Ok(cm) = VerifiableSecretSharingCommitment::<C>::deserialize(ser[..t - 1].iter()) {
            cases.push(("truncate".into(), SecretShare::<C>::new(*id, *sh.signing_share(), cm)));
        }
        {
            let mut e = ser.clone();
            e.push(ser[t - 1].clone());
            if let Ok(cm) = VerifiableSecretSharingCommitment::<C>::deserialize(e.iter()) {
                cases.push(("extend".into(), SecretShare::<C>::new(*id, *sh.signing_share(), cm)));
            }
            let mut e = ser.clone();
            e.push(ser[0].clone());
            if let Ok(cm) = VerifiableSecretSharingCommitment::<C>::deserialize(e.iter()) {
                cases.push(("extend".into(), SecretShare::<C>::new(*id, *sh.signing_share(), cm)));
            }
        }
        for (name, bad) in cases {
            if let Some((op_, ok)) = &only {
                if *op_ != p || *ok != name {
                    continue;
                }
            }
            // through the wire, as a participant would receive it
            let bad = match crate::wire::enc(scen.wire, &bad).and_then(|b| crate::wire::dec::<SecretShare<C>>(scen.wire, &b)) {
                Ok(b) => b,
                Err(_) => continue, // not even transportable: rejected earlier
            };
            rep.evaluations += 1;
            let tag = if name.starts_with("commitment_") && name != "commitment_0" && name != "commitment_last" { "commitment_mid".to_string() } else { name.clone() };
            rep.probe(&format!("tamper_{tag}"));
            rep.extra_shapes.push(format!("{}|{name}", rep.shape));
            if KeyPackage::<C>::try_from(bad.clone()).is_ok() || bad.verify().is_ok() {
                return Exec::Violation(viol("C06.tampered_share_accepted", format!("participant {p}: share with altered {name} was accepted by KeyPackage::try_from / verify")).narrowed(json!([p, name])), rep);
            }
        }
    }

    // ---- invalid parameters --------------------------------------------------------------------
    {
        let sk = SigningKey::<C>::from_scalar(sc_random_nonzero::<C>(&mut fp)).unwrap();
        let mut try_params = |nn: u16, tt: u16, list: Option<Vec<Identifier<C>>>, what: &str, rep: &mut RunReport| -> Option<Violation> {
            let mut rng = SimRng::good(stream(scen.seed, scen.run, &format!("c06/params/{what}")));
            let il = match &list {
                Some(l) => IdentifierList::Custom(l),
                None => IdentifierList::Default,
            };
            rep.evaluations += 2;
            let a = keys::split::<C, _>(&sk, nn, tt, il, &mut rng).is_ok();
            let il = match &list {
                Some(l) => IdentifierList::Custom(l),
                None => IdentifierList::Default,
            };
            let b = keys::generate_with_dealer::<C, _>(nn, tt, il, &mut rng).is_ok();
            if a || b {
                return Some(Violation::new("C06", "C06.invalid_parameters_accepted", format!("{what}: n = {nn}, t = {tt} accepted (split: {a}, generate_with_dealer: {b})")));
            }
            None
        };
        let cases: Vec<(u16, u16, Option<Vec<Identifier<C>>>, String)> = vec![
            (scen.n, 1, None, "t = 1".into()),
            (scen.n, 0, None, "t = 0".into()),
            (1, 1, None, "n = 1".into()),
            (0, 0, None, "n = 0".into()),
            (1, 2, None, "n = 1, t = 2".into()),
            (scen.n, scen.n + 1, None, "t = n + 1".into()),
            (scen.n, 65535, None, "t = 65535 > n".into()),
            (scen.n, scen.t, Some(ids[..n - 1].to_vec()), "one identifier too few".into()),
            (scen.n, scen.t, Some({ let mut v = ids.clone(); v.push(fresh_id); v }), "one identifier too many".into()),
            (scen.n, scen.t, Some({ let mut v = ids.clone(); v[n - 1] = v[0]; v }), "duplicate identifier".into()),
            (scen.n + 1, scen.t, Some({ let mut v = ids.clone(); v.push(ids[0]); v }), "duplicate identifier with matching count".into()),
        ];
        let mut cases = cases;
        if scen.extra["long_list"].as_bool().unwrap_or(false) {
            // n + 65536 distinct identifiers for max_signers = n
            let mut v = ids.clone();
            let mut k = 1_000_000u64;
            while v.len() < n + 65536 {
                if let Some(id) = id_from_scalar::<C>(&sc_from_u64::<C>(k)) {
                    if !ids.contains(&id) {
                        v.push(id);
                    }
                }
                k += 1;
            }
            cases.push((scen.n, scen.t, Some(v), "identifier list too long by exactly 65536".into()));
            rep.probe("params_list_plus_65536");
        }
        for (nn, tt, list, what) in cases {
            if let Some(v) = try_params(nn, tt, list, &what, &mut rep) {
                return Exec::Violation(v, rep);
            }
            rep.probe("params_refused");
        }
        // a zero identifier cannot even be constructed
        rep.evaluations += 1;
        if Identifier::<C>::deserialize(&sc_bytes::<C>(&zero::<C>())).is_ok() || Identifier::<C>::try_from(0u16).is_ok() {
            return Exec::Violation(viol("C06.invalid_parameters_accepted", "a zero identifier was accepted".into()), rep);
        }
        // boundary values that are valid must behave
        let mut boundary: Vec<(u16, u16)> = vec![(2, 2), (3, 2)];
        if C::COST <= 2 {
            boundary.extend([(257, 2), (256, 3)]);
        }
        if scen.extra["big_params"].as_bool().unwrap_or(false) {
            boundary.extend([(255, 2), (256, 255), (257, 256), (65535, 2)]);
            rep.probe("big_params");
        }
        for (nn, tt) in boundary {
            let mut rng = SimRng::good(stream(scen.seed, scen.run, &format!("c06/boundary/{nn}/{tt}")));
            rep.evaluations += 1;
            match keys::generate_with_dealer::<C, _>(nn, tt, IdentifierList::Default, &mut rng) {
                Err(e) => return Exec::Violation(viol("C06.valid_parameters_refused", format!("n = {nn}, t = {tt}: {e:?}")), rep),
                Ok((sh, pkb)) => {
                    if sh.len() != nn as usize || pkb.min_signers() != Some(tt) || pkb.verifying_shares().len() != nn as usize {
                        return Exec::Violation(viol("C06.boundary_parameters_misbehave", format!("n = {nn}, t = {tt}: {} shares, threshold {:?}", sh.len(), pkb.min_signers())), rep);
                    }
                    // first, last and a middle share convert and agree with the package
                    let keys_: Vec<_> = sh.keys().cloned().collect();
                    for pick in [0usize, keys_.len() / 2, keys_.len() - 1] {
                        let s1 = sh[&keys_[pick]].clone();
                        match KeyPackage::<C>::try_from(s1) {
                            Ok(kp) => {
                                if let Some(v) = check_key_material::<C>("C06", &format!("boundary n = {nn}, t = {tt}, share #{pick}"), &kp, &pkb, tt, None) {
                                    return Exec::Violation(v, rep);
                                }
                            }
                            Err(e) => return Exec::Violation(viol("C06.boundary_parameters_misbehave", format!("n = {nn}, t = {tt}: share does not convert: {e:?}")), rep),
                        }
                    }
                }
            }
        }
    }
    let _: &PublicKeyPackage<C> = &pk;
    let _: BTreeMap<u8, u8> = BTreeMap::new();
    let _ = frost::Error::<C>::InvalidSignature;
    rep.nontrivial = true;
    rep.sample = Some(json!({"suite": scen.suite, "n": scen.n, "t": scen.t, "ids": scen.id_scheme, "wire": format!("{:?}", scen.wire), "split_known_key": key.is_some(), "t_subsets_checked": subsets.len(), "exhaustive_subsets": exhaustive, "faults": scen.faults}));
    Exec::Ok(rep)
}
