//! C01 — any t-or-more honest signers produce a signature that verifies as a plain one, whatever
//! the delivery order, losses, duplicates, partitions and crash/restarts on the way.

use serde_json::json;

use crate::dispatch;
use crate::engine::*;
use crate::genr::*;
use crate::prng::stream;
use crate::props::common::*;
use crate::scenario::*;
use crate::sim::Record;
use crate::suite::*;

pub fn prop() -> Prop {
    Prop {
        id: "C01",
        level: "exploration",
        runs: |t| match t {
            Tier::Quick => 5000,
            Tier::Thorough => 60000,
        },
        generate,
        exec,
        shrink: generic_shrink,
        rule: "one evaluation = one oracle call (aggregate in 4 modes, verify_signature_share per signer, verify after encode/decode, third-party verifier) on a signing session completed through the simulated network; a run is non-trivial if at least one session completed; distinct = distinct (suite, n, t, identifier scheme, wire format, phase shapes incl. |S| and concurrency, fault kinds, scheduler) tuples among non-trivial runs, hashed and counted",
        distinct_measure: "hash of scenario shape key (suite|n,t|id scheme|wire|instance shapes|fault kinds|scheduler)",
        assumptions: &[
            "authenticated channels: the envelope's sender index is never forged",
            "the Python verifier (ref/) is trusted after reproducing the RFC 9591 vectors; ed25519-dalek verify_strict and libsecp256k1 are trusted third-party verifiers",
            "seeded sampling: a clean batch is evidence, not proof",
        ],
        real: &["frost-core", "frost-rerandomized", "six ciphersuite crates", "curve and hash crates"],
        stub: &["transport (SimNet)", "durable store (SimStore)", "application glue (participant/coordinator/dealer)", "random source (SimRng)"],
        independent: &["ed25519-dalek verify_strict", "libsecp256k1 verify_schnorr", "Python reference verifier (ref/check_trace.py)"],
        ref_sample: |t| match t {
            Tier::Quick => 40,
            Tier::Thorough => 400,
        },
        required_probes: &["signers_gt_t", "non_prefix_subset", "t_eq_n", "keygen_dkg", "keygen_split", "keygen_dealer", "concurrent_sessions", "ids_derived", "ids_u16ext", "ids_scalar", "msg_empty", "third_party_verified", "signers_ge_9", "signers_ge_17", "signers_ge_432"],
        prepare: None,
    }
}

pub fn generate(seed: u64, run: u64, tier: Tier) -> Scenario {
    let suite = suite_for_run(run, if tier == Tier::Quick { 5 } else { 4 });
    dispatch!(suite, gen_c(seed, run, tier))
}

fn gen_c<C: Suite>(seed: u64, run: u64, tier: Tier) -> Scenario {
    let mut p = stream(seed, run, "gen");
    let mut s = base_scenario("C01", C::NAME, seed, run);
    let slow = C::COST >= 9;
    let max_n: u16 = match (tier, slow) {
        (Tier::Quick, false) => 7,
        (Tier::Quick, true) => 4,
        (Tier::Thorough, false) => 12,
        (Tier::Thorough, true) => 6,
    };
    let (mut n, mut t) = gen_nt(&mut p, 2, max_n);
    let keygen = p.below(3);
    if tier == Tier::Thorough && !slow && C::COST <= 2 && keygen != 2 && p.chance(1, 150) {
        n = *p.pick(&[20u16, 40]);
        t = p.range(2, n as u64) as u16;
    }
    // larger signer sets (9..24) also in the quick tier: batching / chunking corners only show beyond 8 signers
    if !slow && keygen != 2 && p.chance(1, 12) {
        n = p.range(9, if C::COST >= 3 { 16 } else { 24 }) as u16;
        t = match p.below(3) {
            0 => n,
            1 => p.range(9, n as u64) as u16,
            _ => p.range(2, n as u64) as u16,
        };
    }
    // rare wide worlds: participant and signer counts beyond 8-bit boundaries (dealer keys only; cheap for small t)
    let mut wide = false;
    if C::COST <= 2 && keygen != 2 && p.chance(1, if tier == Tier::Quick { 250 } else { 400 }) {
        n = *p.pick(&[33u16, 64, 65, 130, 256, 257, 300]);
        t = (*p.pick(&[2u16, 3, 17, 33, 129])).min(n);
        wide = true;
    }
    // a handful of HUGE sessions per batch (2-of-450, 440+ signers) on the big-endian suites: multiscalar code paths that
    // only exist for hundreds of points; ~5-10 s each
    let mut keygen = keygen;
    if (tier == Tier::Thorough || run < 10) && ((run % 1700 == 2 && C::NAME == "secp256k1") || (run % 1700 == 3 && C::NAME == "secp256k1-tr") || (run % 1700 == 4 && C::NAME == "p256")) {
        n = 450;
        t = 2;
        wide = true;
        keygen = 0;
    }
    if keygen == 2 {
        // DKG costs O(n^2 t) scalar multiplications
        let cap = match (tier, slow) {
            (Tier::Quick, false) => 5,
            (Tier::Quick, true) => 3,
            (Tier::Thorough, false) => 8,
            (Tier::Thorough, true) => 4,
        };
        if n > cap {
            n = cap;
            t = t.min(n);
        }
    }
    s.n = n;
    s.t = t;
    s.id_scheme = (*p.pick(&ID_SCHEMES)).to_string();
    s.ids_hex = gen_ids::<C>(&mut p, &s.id_scheme, n as usize);
    s.wire = gen_wire(&mut p);
    s.phases.push(vec![match keygen {
        0 => Inst::DealerKeygen { split_key: false },
        1 => Inst::DealerKeygen { split_key: true },
        _ => Inst::Dkg,
    }]);
    let pool: Vec<usize> = (0..n as usize).collect();
    if wide {
        // one session, exactly t signers or slightly more, random members
        let k = if n == 450 { 440 + p.below(10) as usize } else { (t as usize + p.below(3) as usize).min(n as usize) };
        let mut sg: Vec<usize> = p.subset(n as usize, k);
        p.shuffle(&mut sg);
        s.phases.push(vec![Inst::Sign { signers: sg, msg_hex: hexs(&gen_message(&mut p)), mode: SignMode::Plain }]);
        s.sched = Sched::Random;
        let mut fp = stream(seed, run, "faults");
        s.faults = gen_honest_faults(&mut fp, &s, 3, 0b00111);
        if keygen == 0 {
            s.phases[0] = vec![Inst::DealerKeygen { split_key: false }];
        }
        return s;
    }
    let sign_phases = p.range(1, 2);
    for _ in 0..sign_phases {
        let concurrent = match p.below(4) {
            0 => 2,
            1 => 3,
            _ => 1,
        };
        let mut ph = Vec::new();
        for _ in 0..concurrent {
            ph.push(Inst::Sign { signers: gen_signers(&mut p, &pool, t as usize), msg_hex: hexs(&gen_message(&mut p)), mode: SignMode::Plain });
        }
        s.phases.push(ph);
    }
    s.sched = match p.below(8) {
        0 => Sched::Fifo,
        1 => Sched::Lifo,
        _ => Sched::Random,
    };
    // swarm: which honest-path fault kinds are enabled at all in this run
    let mask = if p.chance(1, 5) { 0 } else { p.range(1, 31) as u32 };
    let budget = p.range(0, 7) as usize;
    let mut fp = stream(seed, run, "faults");
    s.faults = gen_honest_faults(&mut fp, &s, budget, mask);
    maybe_rng_alias(&mut s, seed, run, 12);
    s
}

pub fn exec(scen: &Scenario) -> Exec {
    dispatch!(scen.suite.as_str(), exec_c(scen))
}

fn exec_c<C: Suite>(scen: &Scenario) -> Exec {
    let mut rep = new_report(scen);
    let sim = match run_honest::<C>(scen, &mut rep) {
        Ok(s) => s,
        Err(v) if v.oracle == "harness" => return Exec::Harness(v.detail),
        Err(v) => return Exec::Violation(v, rep),
    };
    let t = scen.t as usize;
    let mut sessions = 0;
    for rec in &sim.history {
        if let Record::Session { inst, package, shares, pk, result, .. } = rec {
            let kps: Vec<_> = sim
                .history
                .iter()
                .filter_map(|r| match r {
                    Record::Share { inst: i, kp, .. } if i == inst => Some(kp.clone()),
                    _ => None,
                })
                .collect();
            // the Python verifier sees a deterministic subset of sessions
            let emit = true;
            if let Some(v) = check_plain_session::<C>("C01", *inst, package, shares, pk, result, &kps, &mut rep, emit) {
                if v.oracle == "harness" {
                    return Exec::Harness(v.detail);
                }
                return Exec::Violation(v, rep);
            }
            sessions += 1;
            let k = shares.len();
            if k > t {
                rep.probe("signers_gt_t");
            }
            if k == scen.n as usize {
                rep.probe("all_n_sign");
            }
            if k >= 9 {
                rep.probe("signers_ge_9");
            }
            if k >= 17 {
                rep.probe("signers_ge_17");
            }
            if k >= 432 {
                rep.probe("signers_ge_432");
            }
            // non-prefix subset: signer set is not the t lowest identifiers
            let mut all_ids: Vec<_> = pk.verifying_shares().keys().cloned().collect();
            all_ids.sort();
            let prefix: Vec<_> = all_ids.iter().take(k).cloned().collect();
            let got: Vec<_> = shares.keys().cloned().collect();
            if got != prefix {
                rep.probe("non_prefix_subset");
            }
            if package.message().is_empty() {
                rep.probe("msg_empty");
            }
            if package.message().len() >= 1024 {
                rep.probe("msg_1k");
            }
        }
    }
    if scen.t == scen.n {
        rep.probe("t_eq_n");
    }
    if scen.t == 2 {
        rep.probe("t_eq_2");
    }
    rep.probe(&format!("ids_{}", scen.id_scheme));
    match &scen.phases[0][0] {
        Inst::Dkg => rep.probe("keygen_dkg"),
        Inst::DealerKeygen { split_key: true } => rep.probe("keygen_split"),
        _ => rep.probe("keygen_dealer"),
    }
    if scen.phases.iter().any(|ph| ph.len() > 1) {
        rep.probe("concurrent_sessions");
    }
    if scen.wire == crate::wire::Fmt::Json {
        rep.probe("wire_json");
    }
    if scen.n >= 20 {
        rep.probe("n_ge_20");
    }
    if scen.n >= 256 {
        rep.probe("n_ge_256");
    }
    rep.probe_n("sessions", sessions);
    rep.nontrivial = sessions > 0;
    rep.sample = Some(json!({
        "suite": scen.suite, "n": scen.n, "t": scen.t, "ids": scen.id_scheme, "wire": format!("{:?}", scen.wire),
        "phases": scen.phases, "faults": scen.faults, "sched": format!("{:?}", scen.sched),
        "sessions_verified": sessions, "steps": sim.stats.steps,
    }));
    Exec::Ok(rep)
}
