pub mod common;
pub mod c01;
pub mod c03;
pub mod c04;

use crate::engine::Prop;

pub fn registry() -> Vec<Prop> {
    vec![c01::prop(), c03::prop(), c04::prop()]
}
