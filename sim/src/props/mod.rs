pub mod common;
pub mod c01;
pub mod c02;
pub mod c03;
pub mod c04;
pub mod c05;
pub mod c06;
pub mod c07;
pub mod c08;
pub mod c09;
pub mod c10;
pub mod c11;
pub mod c12;
pub mod c13;
pub mod c14;
pub mod c15;
pub mod c16;
pub mod c17;
pub mod c18;
pub mod c19;
pub mod c20;

use crate::engine::Prop;

pub fn registry() -> Vec<Prop> {
    vec![c01::prop(), c02::prop(), c03::prop(), c04::prop(), c05::prop(), c06::prop(), c07::prop(), c08::prop(), c09::prop(), c10::prop(), c11::prop(), c12::prop(), c13::prop(), c14::prop(), c15::prop(), c16::prop(), c17::prop(), c18::prop(), c19::prop(), c20::prop()]
}
