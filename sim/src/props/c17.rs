//! C17 — re-randomised signing verifies only under the session-bound randomised key.
//! World: keys + re-randomised sessions through the simulated network (honest-path faults).
//! Faults: seed / commitment-set tampering on the coordinator->participant envelope, Byzantine
//! shares under randomisation, explicit randomisers (zero included).

use std::collections::{BTreeMap, BTreeSet};

use frost_core::keys::KeyPackage;
use frost_core::round1::{SigningCommitments, SigningNonces};
use frost_core::round2::SignatureShare;
use frost_core::{self as frost, CheaterDetection, Identifier, SigningPackage};
use frost_rerandomized::{RandomizedParams, Randomizer};
use serde_json::json;

use crate::dispatch;
use crate::engine::*;
use crate::genr::*;
use crate::prng::stream;
use crate::props::common::*;
use crate::scenario::*;
use crate::sim::Record;
use crate::simrng::SimRng;
use crate::suite::*;

pub fn prop() -> Prop {
    Prop {
        id: "C17",
        level: "exploration",
        runs: |t| match t {
            Tier::Quick => 3500,
            Tier::Thorough => 40000,
        },
        generate,
        exec,
        shrink: generic_shrink,
        rule: "one evaluation = one oracle call on a re-randomised session (participants' regenerated parameters equal the coordinator's; aggregate ok; verifies under vk+G*r computed by the harness, not under vk; seed bit / commitment change moves the randomiser; tampered seed or commitment set at one participant => coordinator rejects and names exactly it; cheater and threshold oracles through the randomised entry points; explicit randomisers incl. zero); non-trivial = at least one re-randomised session completed; distinct = scenario shapes hashed and counted",
        distinct_measure: "hash of scenario shape key",
        assumptions: &["seeded sampling", "authenticated channels"],
        real: &["frost-core", "frost-rerandomized", "six ciphersuite crates"],
        stub: &["transport", "store", "glue", "random source", "tampering adversary"],
        independent: &["harness algebra for vk + G*r"],
        ref_sample: |_| 0,
        required_probes: &["explicit_seeds", "plain_twin_compared", "session_rerandomized", "seed_tamper_named", "commitment_tamper_named", "explicit_zero_randomizer", "explicit_randomizer", "cheater_under_randomization", "threshold_under_randomization", "taproot_rerandomized"],
        prepare: None,
    }
}

pub fn generate(seed: u64, run: u64, tier: Tier) -> Scenario {
    let suite = suite_for_run(run, 6);
    dispatch!(suite, gen_c(seed, run, tier))
}

fn gen_c<C: Suite>(seed: u64, run: u64, tier: Tier) -> Scenario {
    let mut p = stream(seed, run, "gen");
    let mut s = base_scenario("C17", C::NAME, seed, run);
    let slow = C::COST >= 9;
    let max_n = match (tier, slow) {
        (_, true) => 4,
        (Tier::Quick, false) => 6,
        (Tier::Thorough, false) => 9,
    };
    let (mut n, mut t) = gen_nt(&mut p, 2, max_n);
    if let Some((wn, wt)) = maybe_wide::<C>(&mut p, 14) {
        n = wn;
        t = wt;
    }
    s.n = n;
    s.t = t;
    s.id_scheme = (*p.pick(&ID_SCHEMES)).to_string();
    s.ids_hex = gen_ids::<C>(&mut p, &s.id_scheme, n as usize);
    s.wire = gen_wire(&mut p);
    s.phases.push(vec![if p.chance(1, 4) && n <= 4 { Inst::Dkg } else { Inst::DealerKeygen { split_key: p.chance(1, 2) } }]);
    let pool: Vec<usize> = (0..n as usize).collect();
    let mut ph = Vec::new();
    for _ in 0..p.range(1, 2) {
        ph.push(Inst::Sign { signers: gen_signers(&mut p, &pool, t as usize), msg_hex: hexs(&gen_message(&mut p)), mode: SignMode::Rerand });
    }
    s.phases.push(ph);
    s.sched = if p.chance(1, 6) { Sched::Fifo } else { Sched::Random };
    let mask = if p.chance(1, 4) { 0 } else { p.range(1, 31) as u32 };
    let mut fp = stream(seed, run, "faults");
    s.faults = gen_honest_faults(&mut fp, &s, p.range(0, 5) as usize, mask);
    s
}

pub fn exec(scen: &Scenario) -> Exec {
    dispatch!(scen.suite.as_str(), exec_c(scen))
}

fn rand_scalar_of<C: Suite>(params: &RandomizedParams<C>) -> frost::Scalar<C> {
    sc_from_bytes::<C>(&params.randomizer().serialize()).expect("canonical randomizer")
}

fn exec_c<C: Suite>(scen: &Scenario) -> Exec {
    let mut rep = new_report(scen);
    let sim = match run_honest::<C>(scen, &mut rep) {
        Ok(s) => s,
        Err(v) if v.oracle == "harness" => return Exec::Harness(v.detail),
        Err(v) => return Exec::Violation(v, rep),
    };
    let kps = current_kps(&sim);
    let viol = |o: &str, d: String| Violation::new("C17", o, d);
    let mut sessions = 0;
    let mut sp = stream(scen.seed, scen.run, "c17/tamper");
    for rec in &sim.history {
        let Record::Session { inst, package, shares, pk, seed, params, result } = rec else { continue };
        let (Some(seed), Some(params)) = (seed, params) else { continue };
        sessions += 1;
        rep.probe("session_rerandomized");
        if C::IS_TR {
            rep.probe("taproot_rerandomized");
        }
        let vk = *pk.verifying_key();
        let msg = package.message().clone();
        let ids: Vec<Identifier<C>> = shares.keys().cloned().collect();
        // every participant regenerates the coordinator's parameters from (its own group key, seed, its package)
        for id in &ids {
            let kp = &kps[&node_of(&sim, id).unwrap()];
            rep.evaluations += 1;
            match RandomizedParams::<C>::regenerate_from_seed_and_commitments(kp.verifying_key(), seed, package.signing_commitments()) {
                Ok(p2) => {
                    if p2 != *params {
                        return Exec::Violation(viol("C17.participant_params_differ", format!("session {inst}: participant {} regenerates different randomised parameters", hexs(&id.serialize()))), rep);
                    }
                }
                Err(e) => return Exec::Violation(viol("C17.participant_params_differ", format!("session {inst}: regenerate failed: {e:?}")), rep),
            }
        }
        let sig = match result {
            Ok(s) => *s,
            Err(e) => return Exec::Violation(viol("C17.honest_session_failed", format!("session {inst}: aggregate = {e:?}")), rep),
        };
        // the randomised key is vk + G*r (harness algebra), and the signature verifies under it only
        let r = rand_scalar_of::<C>(params);
        let expect_key = vkey_element::<C>(&vk) + base::<C>(r);
        let rk = *params.randomized_verifying_key();
        rep.evaluations += 3;
        if vkey_element::<C>(&rk) != expect_key {
            return Exec::Violation(viol("C17.randomized_key_wrong", format!("session {inst}: randomized_verifying_key != vk + G*randomizer")), rep);
        }
        if let Err(e) = rk.verify(&msg, &sig) {
            return Exec::Violation(viol("C17.not_valid_under_randomized_key", format!("session {inst}: {e:?}")), rep);
        }
        let sb = sig_bytes(&sig);
        if let Some(ok) = C::third_party_verify(&rk.serialize().unwrap_or_default(), &msg, &sb) {
            if !ok {
                return Exec::Violation(viol("C17.not_valid_under_randomized_key", format!("session {inst}: independent verifier rejects under the randomised key")), rep);
            }
        }
        if r != zero::<C>() && vk.verify(&msg, &sig).is_ok() {
            return Exec::Violation(viol("C17.valid_under_original_key", format!("session {inst}: signature verifies under the ORIGINAL group key")), rep);
        }
        // all aggregate modes agree
        for (mname, mode) in [("Disabled", CheaterDetection::Disabled), ("FirstCheater", CheaterDetection::FirstCheater), ("AllCheaters", CheaterDetection::AllCheaters)] {
            rep.evaluations += 1;
            match frost_rerandomized::aggregate_custom(package, shares, pk, mode, params) {
                Ok(s2) if sig_bytes(&s2) == sb => {}
                other => return Exec::Violation(viol("C17.honest_session_failed", format!("session {inst}: aggregate_custom({mname}) = {:?}", other.map(|s| hexs(&sig_bytes(&s))))), rep),
            }
        }
        // randomiser is a function of the seed and of the exact commitment set
        {
            let mut seed2 = seed.clone();
            let bit = sp.below(seed2.len() as u64 * 8) as usize;
            seed2[bit / 8] ^= 1 << (bit % 8);
            let r2 = Randomizer::<C>::regenerate_from_seed_and_commitments(&seed2, package.signing_commitments());
            rep.evaluations += 1;
            if r2.map(|x| x.serialize()).ok() == Some(params.randomizer().serialize()) {
                return Exec::Violation(viol("C17.randomizer_ignores_seed", format!("session {inst}: flipping seed bit {bit} leaves the randomiser unchanged")), rep);
            }
            // change one commitment (swap hiding and binding of one participant)
            let victim = ids[sp.below(ids.len() as u64) as usize];
            let mut cm = package.signing_commitments().clone();
            let c = cm[&victim];
            if c.hiding() != c.binding() {
                cm.insert(victim, SigningCommitments::<C>::new(*c.binding(), *c.hiding()));
                let r3 = Randomizer::<C>::regenerate_from_seed_and_commitments(seed, &cm);
                rep.evaluations += 1;
                if r3.map(|x| x.serialize()).ok() == Some(params.randomizer().serialize()) {
                    return Exec::Violation(viol("C17.randomizer_ignores_commitments", format!("session {inst}: changing one commitment leaves the randomiser unchanged")), rep);
                }
            }
            // only the binding, and only the hiding, commitment of one participant changes
            {
                let fresh = {
                    let kp = &kps[&node_of(&sim, &victim).unwrap()];
                    let mut rng = SimRng::good(stream(scen.seed, scen.run, &format!("c17/freshcomp/{inst}")));
                    frost::round1::commit::<C, _>(kp.signing_share(), &mut rng).1
                };
                for (which, newc) in [("binding", SigningCommitments::<C>::new(*c.hiding(), *fresh.binding())), ("hiding", SigningCommitments::<C>::new(*fresh.hiding(), *c.binding()))] {
                    let mut cm = package.signing_commitments().clone();
                    cm.insert(victim, newc);
                    let r5 = Randomizer::<C>::regenerate_from_seed_and_commitments(seed, &cm);
                    rep.evaluations += 1;
                    if r5.map(|x| x.serialize()).ok() == Some(params.randomizer().serialize()) {
                        return Exec::Violation(viol("C17.randomizer_ignores_commitments", format!("session {inst}: changing only the {which} commitment of one participant leaves the randomiser unchanged")), rep);
                    }
                }
                // the same commitments filed under another identifier
                if let Some(other_id) = sim.ids.iter().find(|i| !ids.contains(i)) {
                    let mut cm = package.signing_commitments().clone();
                    let moved = cm.remove(&victim).unwrap();
                    cm.insert(*other_id, moved);
                    let r6 = Randomizer::<C>::regenerate_from_seed_and_commitments(seed, &cm);
                    rep.evaluations += 1;
                    if r6.map(|x| x.serialize()).ok() == Some(params.randomizer().serialize()) {
                        return Exec::Violation(viol("C17.randomizer_ignores_commitments", format!("session {inst}: filing a participant's commitments under another identifier leaves the randomiser unchanged")), rep);
                    }
                }
            }
            // drop one participant from the set
            if ids.len() >= 2 {
                let mut cm = package.signing_commitments().clone();
                cm.remove(&victim);
                let r4 = Randomizer::<C>::regenerate_from_seed_and_commitments(seed, &cm);
                rep.evaluations += 1;
                if r4.map(|x| x.serialize()).ok() == Some(params.randomizer().serialize()) {
                    return Exec::Violation(viol("C17.randomizer_ignores_commitments", format!("session {inst}: removing a participant leaves the randomiser unchanged")), rep);
                }
            }
        }
        // a participant fed a different seed / commitment set: re-run the session's signing directly
        // (fresh nonces; the recorded ones are single-use and gone) with exactly one victim tampered
        let members: Vec<KeyPackage<C>> = ids.iter().map(|id| kps[&node_of(&sim, id).unwrap()].clone()).collect();
        let mut nn: Vec<SigningNonces<C>> = Vec::new();
        let mut cm = BTreeMap::new();
        for (j, kp) in members.iter().enumerate() {
            let mut rng = SimRng::good(stream(scen.seed, scen.run, &format!("c17/commit/{inst}/{j}")));
            let (a, b) = frost::round1::commit::<C, _>(kp.signing_share(), &mut rng);
            nn.push(a);
            cm.insert(*kp.identifier(), b);
        }
        let pkg = SigningPackage::<C>::new(cm.clone(), &msg);
        let rng = SimRng::good(stream(scen.seed, scen.run, &format!("c17/seed/{inst}")));
        let (cparams, cseed) = match RandomizedParams::<C>::new_from_commitments(&vk, pkg.signing_commitments(), rng) {
            Ok(x) => x,
            Err(e) => return Exec::Harness(format!("new_from_commitments: {e:?}")),
        };
        let honest: BTreeMap<Identifier<C>, SignatureShare<C>> = match members.iter().enumerate().map(|(j, kp)| frost_rerandomized::sign_with_randomizer_seed(&pkg, &nn[j], kp, &cseed).map(|z| (*kp.identifier(), z))).collect() {
            Ok(m) => m,
            Err(e) => return Exec::Violation(viol("C17.honest_session_failed", format!("direct re-run: sign_with_randomizer_seed = {e:?}")), rep),
        };
        if frost_rerandomized::aggregate(&pkg, &honest, pk, &cparams).is_err() {
            return Exec::Violation(viol("C17.honest_session_failed", "direct re-run: aggregate failed".into()), rep);
        }
        let vpos = sp.below(ids.len() as u64) as usize;
        let victim = ids[vpos];
        // (a) different seed at the victim
        {
            let mut seed2 = cseed.clone();
            let bit = sp.below(seed2.len() as u64 * 8) as usize;
            seed2[bit / 8] ^= 1 << (bit % 8);
            match frost_rerandomized::sign_with_randomizer_seed(&pkg, &nn[vpos], &members[vpos], &seed2) {
                Err(_) => {}
                Ok(z) => {
                    let mut sh = honest.clone();
                    sh.insert(victim, z);
                    if let Some(v) = expect_named::<C>(&mut rep, "seed tampered at one participant", &pkg, &sh, pk, &cparams, &[victim]) {
                        return Exec::Violation(v, rep);
                    }
                    rep.probe("seed_tamper_named");
                }
            }
        }
        // (b) different commitment set at the victim: another participant's binding commitment differs
        if ids.len() >= 2 {
            let other = ids[(vpos + 1) % ids.len()];
            let mut cm2 = cm.clone();
            let oc = cm2[&other];
            let fresh = {
                let mut rng = SimRng::good(stream(scen.seed, scen.run, &format!("c17/fresh/{inst}")));
                frost::round1::commit::<C, _>(members[vpos].signing_share(), &mut rng).1
            };
            cm2.insert(other, SigningCommitments::<C>::new(*oc.hiding(), *fresh.binding()));
            let pkg2 = SigningPackage::<C>::new(cm2, &msg);
            match frost_rerandomized::sign_with_randomizer_seed(&pkg2, &nn[vpos], &members[vpos], &cseed) {
                Err(_) => {}
                Ok(z) => {
                    let mut sh = honest.clone();
                    sh.insert(victim, z);
                    if let Some(v) = expect_named::<C>(&mut rep, "commitment set tampered at one participant", &pkg, &sh, pk, &cparams, &[victim]) {
                        return Exec::Violation(v, rep);
                    }
                    rep.probe("commitment_tamper_named");
                }
            }
        }
        // (c) cheaters under randomisation: C04's oracle through the randomised entry points
        {
            let size = sp.range(1, ids.len() as u64) as usize;
            let cheat: Vec<Identifier<C>> = sp.subset(ids.len(), size).into_iter().map(|i| ids[i]).collect();
            let mut sh = honest.clone();
            for c in &cheat {
                let z = sigshare_scalar::<C>(&honest[c]);
                let new = match sp.below(3) {
                    0 => z + one::<C>(),
                    1 => neg::<C>(z),
                    _ => sc_random::<C>(&mut sp),
                };
                sh.insert(*c, sigshare_from_scalar::<C>(&new));
            }
            let d: Vec<Identifier<C>> = ids.iter().filter(|i| sh[*i].serialize() != honest[*i].serialize()).cloned().collect();
            let sum = |m: &BTreeMap<Identifier<C>, SignatureShare<C>>| m.values().fold(zero::<C>(), |a, z| a + sigshare_scalar::<C>(z));
            if !d.is_empty() && sum(&sh) != sum(&honest) {
                if let Some(v) = expect_named::<C>(&mut rep, "cheaters under randomisation", &pkg, &sh, pk, &cparams, &d) {
                    return Exec::Violation(v, rep);
                }
                rep.probe("cheater_under_randomization");
            }
        }
        // (d) threshold enforcement under randomisation
        if scen.t as usize >= 2 {
            let k = scen.t as usize - 1;
            let few: Vec<usize> = (0..k).collect();
            let mut cm3 = BTreeMap::new();
            for j in &few {
                cm3.insert(*members[*j].identifier(), cm[members[*j].identifier()]);
            }
            let pkg3 = SigningPackage::<C>::new(cm3, &msg);
            rep.evaluations += 1;
            if frost_rerandomized::sign_with_randomizer_seed(&pkg3, &nn[0], &members[0], &cseed).is_ok() {
                return Exec::Violation(viol("C17.threshold_not_enforced", format!("sign_with_randomizer_seed signed a package with {k} < t participants")), rep);
            }
            let low = KeyPackage::<C>::new(*members[0].identifier(), *members[0].signing_share(), *members[0].verifying_share(), *members[0].verifying_key(), k.max(1) as u16);
            let mut sh3 = BTreeMap::new();
            for j in &few {
                let lowj = KeyPackage::<C>::new(*members[*j].identifier(), *members[*j].signing_share(), *members[*j].verifying_share(), *members[*j].verifying_key(), low.min_signers().clone());
                if let Ok(z) = frost_rerandomized::sign_with_randomizer_seed(&pkg3, &nn[*j], &lowj, &cseed) {
                    sh3.insert(*members[*j].identifier(), z);
                }
            }
            if sh3.len() == k {
                if let Ok(p3) = RandomizedParams::<C>::regenerate_from_seed_and_commitments(&vk, &cseed, pkg3.signing_commitments()) {
                    for mode in [CheaterDetection::Disabled, CheaterDetection::FirstCheater, CheaterDetection::AllCheaters] {
                        rep.evaluations += 1;
                        if frost_rerandomized::aggregate_custom(&pkg3, &sh3, pk, mode, &p3).is_ok() {
                            return Exec::Violation(viol("C17.threshold_not_enforced", format!("randomised aggregate accepted {k} < t shares")), rep);
                        }
                    }
                    rep.probe("threshold_under_randomization");
                }
            }
        }
        // (d') the threshold recorded in the coordinator's public key package is enforced by the randomised entry points
        // even when every share is valid: |S| honest signers, package records |S| + 1
        {
            let raised = frost::keys::PublicKeyPackage::<C>::new(pk.verifying_shares().clone(), vk, Some(ids.len() as u16 + 1));
            rep.evaluations += 4;
            if frost_rerandomized::aggregate(&pkg, &honest, &raised, &cparams).is_ok() {
                return Exec::Violation(viol("C17.threshold_not_enforced", format!("randomised aggregate accepted {} shares although the public key package records threshold {}", ids.len(), ids.len() + 1)), rep);
            }
            for mode in [CheaterDetection::Disabled, CheaterDetection::FirstCheater, CheaterDetection::AllCheaters] {
                if frost_rerandomized::aggregate_custom(&pkg, &honest, &raised, mode, &cparams).is_ok() {
                    return Exec::Violation(viol("C17.threshold_not_enforced", format!("randomised aggregate_custom accepted {} shares although the public key package records threshold {}", ids.len(), ids.len() + 1)), rep);
                }
            }
            // and the signer side: a key package that records |S| + 1 refuses
            let kp0 = &members[0];
            let strict = KeyPackage::<C>::new(*kp0.identifier(), *kp0.signing_share(), *kp0.verifying_share(), *kp0.verifying_key(), ids.len() as u16 + 1);
            if frost_rerandomized::sign_with_randomizer_seed(&pkg, &nn[0], &strict, &cseed).is_ok() {
                return Exec::Violation(viol("C17.threshold_not_enforced", "sign_with_randomizer_seed signed although the key package records a higher threshold".to_string()), rep);
            }
            rep.probe("threshold_under_randomization");
        }
        // (d'') "unchanged under randomisation": a plain twin of the session (same members, same message, plain entry points) and the
        // randomised one are given the same faulty coordinator inputs - the outcome (Ok, or the error with its culprits) is the same
        {
            let plain_shares: Result<BTreeMap<Identifier<C>, SignatureShare<C>>, _> = members.iter().enumerate().map(|(j, kp)| frost::round2::sign::<C>(&pkg, &nn[j], kp).map(|z| (*kp.identifier(), z))).collect();
            let plain_shares = match plain_shares {
                Ok(m) => m,
                Err(e) => return Exec::Violation(viol("C17.honest_session_failed", format!("plain twin: sign = {e:?}")), rep),
            };
            let class = |r: Result<frost::Signature<C>, frost::Error<C>>| -> String {
                match r {
                    Ok(_) => "Ok".to_string(),
                    Err(e) => format!("{e:?}"),
                }
            };
            let last = *ids.iter().max().unwrap();
            let mut cases: Vec<(String, frost::keys::PublicKeyPackage<C>, Option<(Identifier<C>, Option<Identifier<C>>)>)> = Vec::new();
            // the coordinator's package does not list one of the signers (e.g. it predates that participant's enrolment)
            let mut vs = pk.verifying_shares().clone();
            vs.remove(&last);
            cases.push(("public key package without the highest signer's entry".into(), frost::keys::PublicKeyPackage::<C>::new(vs, vk, pk.min_signers()), None));
            // legacy package (no recorded threshold), everything else honest
            cases.push(("legacy public key package".into(), frost::keys::PublicKeyPackage::<C>::new(pk.verifying_shares().clone(), vk, None), None));
            // one share missing / filed under a group member that is not a signer
            cases.push(("one share missing".into(), pk.clone(), Some((last, None))));
            if let Some(other) = pk.verifying_shares().keys().find(|i| !ids.contains(i)) {
                cases.push(("one share filed under a non-signing member".into(), pk.clone(), Some((last, Some(*other)))));
            }
            for (cname, cpk, refile) in cases {
                let adjust = |m: &BTreeMap<Identifier<C>, SignatureShare<C>>| {
                    let mut m = m.clone();
                    if let Some((from, to)) = &refile {
                        let z = m.remove(from).unwrap();
                        if let Some(to) = to {
                            m.insert(*to, z);
                        }
                    }
                    m
                };
                let (ps, rs) = (adjust(&plain_shares), adjust(&honest));
                let plain = [
                    ("aggregate", class(frost::aggregate::<C>(&pkg, &ps, &cpk))),
                    ("Disabled", class(frost::aggregate_custom::<C>(&pkg, &ps, &cpk, CheaterDetection::Disabled))),
                    ("FirstCheater", class(frost::aggregate_custom::<C>(&pkg, &ps, &cpk, CheaterDetection::FirstCheater))),
                    ("AllCheaters", class(frost::aggregate_custom::<C>(&pkg, &ps, &cpk, CheaterDetection::AllCheaters))),
                ];
                let rand = [
                    ("aggregate", class(frost_rerandomized::aggregate(&pkg, &rs, &cpk, &cparams))),
                    ("Disabled", class(frost_rerandomized::aggregate_custom(&pkg, &rs, &cpk, CheaterDetection::Disabled, &cparams))),
                    ("FirstCheater", class(frost_rerandomized::aggregate_custom(&pkg, &rs, &cpk, CheaterDetection::FirstCheater, &cparams))),
                    ("AllCheaters", class(frost_rerandomized::aggregate_custom(&pkg, &rs, &cpk, CheaterDetection::AllCheaters, &cparams))),
                ];
                rep.evaluations += 8;
                for k in 0..4 {
                    if plain[k].1 != rand[k].1 {
                        return Exec::Violation(viol("C17.outcome_differs_from_plain", format!("{cname}, {}: plain FROST gives {}, the re-randomised entry point gives {}", plain[k].0, plain[k].1, rand[k].1)), rep);
                    }
                }
                rep.probe("plain_twin_compared");
            }
        }
        // (d''') the older explicit-randomiser entry point binds the commitment SET and the message as two things: session S with message
        // m, and session S' = S without its highest signer whose message starts with exactly the bytes that signer contributed to the
        // commitment list (identifier, hiding, binding) followed by m, must not get the same randomiser from the same randomness
        if ids.len() >= 2 {
            let last = *ids.iter().max().unwrap();
            let c_last = cm[&last];
            let mut cm2 = cm.clone();
            cm2.remove(&last);
            let mut m2 = last.serialize();
            m2.extend_from_slice(&c_last.hiding().serialize().unwrap_or_default());
            m2.extend_from_slice(&c_last.binding().serialize().unwrap_or_default());
            m2.extend_from_slice(&msg);
            let pkg2 = SigningPackage::<C>::new(cm2, &m2);
            let mk = |pk_: &SigningPackage<C>| {
                let rng = SimRng::good(stream(scen.seed, scen.run, &format!("c17/boundary/{inst}")));
                #[allow(deprecated)]
                RandomizedParams::<C>::new(&vk, pk_, rng).map(|p| p.randomizer().serialize())
            };
            rep.evaluations += 1;
            if let (Ok(a), Ok(b)) = (mk(&pkg), mk(&pkg2)) {
                if a == b {
                    return Exec::Violation(viol("C17.randomizer_ignores_commitments", format!("session {inst}: the explicit-randomiser entry point gives the same randomiser for {} signers with message m and for {} signers with message (last signer's list entry || m) under the same randomness: the boundary between commitment list and message is not bound", ids.len(), ids.len() - 1)), rep);
                }
                rep.probe("list_message_boundary_bound");
            }
        }
        // (e0) "for EVERY randomizer seed": seeds the library's own generator never makes - all zeroes, empty, one byte, 100 bytes,
        // all 0xff - chosen by the coordinator and handed to the participants: both sides derive the same parameters, signing and
        // aggregation succeed, the signature verifies under the randomised key
        for (sname, seed) in [("32 zero bytes", vec![0u8; 32]), ("empty", vec![]), ("one zero byte", vec![0u8]), ("one byte", vec![7u8]), ("100 bytes", (0..100u8).collect::<Vec<u8>>()), ("32 x 0xff", vec![0xffu8; 32])] {
            rep.evaluations += 2;
            let p6 = match RandomizedParams::<C>::regenerate_from_seed_and_commitments(&vk, &seed, pkg.signing_commitments()) {
                Ok(p) => p,
                Err(e) => return Exec::Violation(viol("C17.explicit_seed_failed", format!("seed {sname}: the coordinator cannot derive parameters: {e:?}")), rep),
            };
            let sh6: Result<BTreeMap<Identifier<C>, SignatureShare<C>>, _> = members.iter().enumerate().map(|(j, kp)| C::w_rr_sign(&pkg, &nn[j], kp, &seed).map(|z| (*kp.identifier(), z))).collect();
            let sh6 = match sh6 {
                Ok(m) => m,
                Err(e) => return Exec::Violation(viol("C17.explicit_seed_failed", format!("seed {sname}: a participant refuses to sign: {e:?}")), rep),
            };
            match C::w_rr_aggregate(&pkg, &sh6, pk, &p6) {
                Ok(sig) => {
                    if p6.randomized_verifying_key().verify(&msg, &sig).is_err() {
                        return Exec::Violation(viol("C17.not_valid_under_randomized_key", format!("seed {sname}: signature does not verify under the randomised key")), rep);
                    }
                }
                Err(e) => return Exec::Violation(viol("C17.explicit_seed_failed", format!("seed {sname}: aggregate = {e:?}")), rep),
            }
            rep.probe("explicit_seeds");
        }
        // (e) explicit randomisers through the deprecated entry point, zero included
        for which in ["zero", "random", "deprecated_new"] {
            // "deprecated_new": the older entry point that derives the randomiser from fresh randomness and the whole package
            #[allow(deprecated)]
            let (rs, rz, p5) = if which == "deprecated_new" {
                let rng = SimRng::good(stream(scen.seed, scen.run, &format!("c17/deprecated/{inst}")));
                match RandomizedParams::<C>::new(&vk, &pkg, rng) {
                    Ok(p) => {
                        let rz = *p.randomizer();
                        (sc_from_bytes::<C>(&rz.serialize()).unwrap(), rz, p)
                    }
                    Err(e) => return Exec::Violation(viol("C17.explicit_randomizer_failed", format!("RandomizedParams::new = {e:?}")), rep),
                }
            } else {
                let rs = if which == "zero" { zero::<C>() } else { sc_random_nonzero::<C>(&mut sp) };
                let rz = Randomizer::<C>::from_scalar(rs);
                (rs, rz, RandomizedParams::<C>::from_randomizer(&vk, rz))
            };
            #[allow(deprecated)]
            let sh5: Result<BTreeMap<Identifier<C>, SignatureShare<C>>, _> = members.iter().enumerate().map(|(j, kp)| frost_rerandomized::sign(&pkg, &nn[j], kp, rz).map(|z| (*kp.identifier(), z))).collect();
            let sh5 = match sh5 {
                Ok(m) => m,
                Err(e) => return Exec::Violation(viol("C17.explicit_randomizer_failed", format!("{which}: sign = {e:?}")), rep),
            };
            rep.evaluations += 2;
            let sig5 = match frost_rerandomized::aggregate(&pkg, &sh5, pk, &p5) {
                Ok(s) => s,
                Err(e) => return Exec::Violation(viol("C17.explicit_randomizer_failed", format!("{which}: aggregate = {e:?}")), rep),
            };
            let key5 = vkey_from_element::<C>(&(vkey_element::<C>(&vk) + base::<C>(rs))).unwrap();
            if key5.verify(&msg, &sig5).is_err() || *p5.randomized_verifying_key() != key5 {
                return Exec::Violation(viol("C17.not_valid_under_randomized_key", format!("explicit {which} randomiser: signature does not verify under vk + G*r")), rep);
            }
            if which == "zero" {
                if vk.verify(&msg, &sig5).is_err() {
                    return Exec::Violation(viol("C17.explicit_randomizer_failed", "zero randomiser: signature must verify under the original key".into()), rep);
                }
                rep.probe("explicit_zero_randomizer");
            } else {
                if vk.verify(&msg, &sig5).is_ok() {
                    return Exec::Violation(viol("C17.valid_under_original_key", "explicit non-zero randomiser: signature verifies under the ORIGINAL key".into()), rep);
                }
                rep.probe("explicit_randomizer");
            }
        }
    }
    rep.probe_n("sessions", sessions);
    rep.nontrivial = sessions > 0;
    rep.sample = Some(json!({"suite": scen.suite, "n": scen.n, "t": scen.t, "phases": scen.phases, "faults": scen.faults, "sessions": sessions}));
    Exec::Ok(rep)
}

/// With `d` the participants whose share differs from the honest one (and the sum is wrong):
/// FirstCheater names exactly min(d), AllCheaters names exactly d, Disabled names nobody.
fn expect_named<C: Suite>(
    rep: &mut RunReport,
    what: &str,
    pkg: &SigningPackage<C>,
    shares: &BTreeMap<Identifier<C>, SignatureShare<C>>,
    pk: &frost::keys::PublicKeyPackage<C>,
    params: &RandomizedParams<C>,
    d: &[Identifier<C>],
) -> Option<Violation> {
    let dset: BTreeSet<Identifier<C>> = d.iter().cloned().collect();
    let dmin = *dset.iter().next().unwrap();
    let runs: Vec<(&str, Result<frost::Signature<C>, frost::Error<C>>)> = vec![
        ("aggregate", frost_rerandomized::aggregate(pkg, shares, pk, params)),
        // the ciphersuite crate's own wrapper where one is compiled (ristretto255); same expectation as the default entry point
        ("aggregate", C::w_rr_aggregate(pkg, shares, pk, params)),
        ("Disabled", frost_rerandomized::aggregate_custom(pkg, shares, pk, CheaterDetection::Disabled, params)),
        ("FirstCheater", frost_rerandomized::aggregate_custom(pkg, shares, pk, CheaterDetection::FirstCheater, params)),
        ("AllCheaters", frost_rerandomized::aggregate_custom(pkg, shares, pk, CheaterDetection::AllCheaters, params)),
    ];
    for (mname, r) in runs {
        rep.evaluations += 1;
        match r {
            Ok(_) => return Some(Violation::new("C17", "C17.tampered_share_accepted", format!("{what}: {mname} returned Ok"))),
            Err(e) => {
                let c = e.culprits();
                let cset: BTreeSet<Identifier<C>> = c.iter().cloned().collect();
                let ok = match mname {
                    "aggregate" | "FirstCheater" => c == vec![dmin],
                    "AllCheaters" => cset == dset && c.len() == dset.len(),
                    _ => c.is_empty(),
                };
                if !ok {
                    return Some(Violation::new("C17", "C17.wrong_culprits_under_randomization", format!("{what}: {mname} error {e:?}, expected culprits {:?}", d.iter().map(|i| hexs(&i.serialize())).collect::<Vec<_>>())));
                }
            }
        }
    }
    None
}
