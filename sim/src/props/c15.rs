//! C15 — signing nonces are fresh, hedged, and derived exactly as the RFC prescribes.
//! Seam: the random source. Every commit / preprocess of a simulated deployment runs on a
//! recording source; dedicated histories run on FAULTY sources (constant, repeating with period 32
//! and 64, counter) and on shared / replayed streams across signers and sessions.

use std::collections::BTreeMap;

use frost_core::keys::SigningShare;
use frost_core::round1::{SigningCommitments, SigningNonces};
use frost_core::{self as frost, Ciphersuite};
use serde_json::json;

use crate::dispatch;
use crate::engine::*;
use crate::genr::*;
use crate::prng::stream;
use crate::props::common::*;
use crate::scenario::*;
use crate::sim::Record;
use crate::simrng::{RngMode, SimRng};
use crate::suite::*;

pub fn prop() -> Prop {
    Prop {
        id: "C15",
        level: "exploration",
        runs: |t| match t {
            Tier::Quick => 3000,
            Tier::Thorough => 36000,
        },
        generate,
        exec,
        shrink: generic_shrink,
        rule: "one evaluation = one commit / preprocess(k) call on a recording random source, checked for: exactly two 32-byte requests per pair (64*k bytes in total), hiding = H3(window1 || enc(share)), binding = H3(window2 || enc(share)) (suite H3 in the harness, and the Python reference on a sample), commitments = G*nonce, non-zero / non-identity, and over the whole history of a run: two nonces are equal iff their (window bytes, share) are equal; sources: good, constant, repeating(32), repeating(64), counter, replayed, shared between signers; non-trivial = history of >= 4 calls; distinct = (suite, source mode, k, history shape) hashed and counted",
        distinct_measure: "hash of (suite, source mode, k, share index, call index)",
        assumptions: &["'uniform' is not measurable; the structural facts are", "the Python reference's H3 is trusted after the RFC vectors"],
        real: &["frost-core round1 (commit, preprocess, Nonce, SigningNonces)", "six ciphersuite crates (H3)"],
        stub: &["transport", "store", "glue", "random source (recording, faulty)"],
        independent: &["Python reference nonce_generate (ref/check_trace.py)"],
        ref_sample: |t| match t {
            Tier::Quick => 60,
            Tier::Thorough => 600,
        },
        required_probes: &["other_nonce_entry_points", "mode_good", "mode_constant", "mode_repeating32", "mode_repeating64", "mode_counter", "mode_replay", "preprocess_k_ge_4", "same_stream_two_signers", "same_signer_two_streams", "equal_nonces_explained", "sim_commit_checked"],
        prepare: None,
    }
}

pub fn generate(seed: u64, run: u64, tier: Tier) -> Scenario {
    let suite = suite_for_run(run, 6);
    dispatch!(suite, gen_c(seed, run, tier))
}

fn gen_c<C: Suite>(seed: u64, run: u64, tier: Tier) -> Scenario {
    let mut p = stream(seed, run, "gen");
    let mut s = base_scenario("C15", C::NAME, seed, run);
    let (n, t) = gen_nt(&mut p, 2, 4);
    s.n = n;
    s.t = t;
    s.id_scheme = (*p.pick(&ID_SCHEMES)).to_string();
    s.ids_hex = gen_ids::<C>(&mut p, &s.id_scheme, n as usize);
    s.wire = gen_wire(&mut p);
    s.phases.push(vec![Inst::DealerKeygen { split_key: false }]);
    let pool: Vec<usize> = (0..n as usize).collect();
    s.phases.push(vec![
        Inst::Sign { signers: gen_signers(&mut p, &pool, t as usize), msg_hex: hexs(&gen_message(&mut p)), mode: SignMode::Plain },
        Inst::Sign { signers: gen_signers(&mut p, &pool, t as usize), msg_hex: hexs(&gen_message(&mut p)), mode: SignMode::Plain },
    ]);
    s.sched = Sched::Random;
    let kmax = match tier {
        Tier::Quick => 8,
        Tier::Thorough => {
            if C::COST >= 9 { 32 } else { 255 }
        }
    };
    let k = match p.below(4) {
        0 => 1,
        1 => kmax,
        _ => p.range(2, 8.min(kmax)),
    };
    s.extra = json!({"k": k});
    s
}

pub fn exec(scen: &Scenario) -> Exec {
    dispatch!(scen.suite.as_str(), exec_c(scen))
}

/// One observed nonce: (window bytes, share bytes, nonce bytes)
struct Obs {
    window: Vec<u8>,
    share: Vec<u8>,
    nonce: Vec<u8>,
    what: String,
}

fn check_pairs<C: Suite>(
    rep: &mut RunReport,
    what: &str,
    share: &SigningShare<C>,
    rng: &SimRng,
    first_draw: usize,
    nonces: &[SigningNonces<C>],
    comms: &[SigningCommitments<C>],
    obs: &mut Vec<Obs>,
    emit: bool,
) -> Option<Violation> {
    let viol = |o: &str, d: String| Some(Violation::new("C15", o, format!("{what}: {d}")));
    let k = nonces.len();
    if comms.len() != k {
        return viol("C15.wrong_number_of_pairs", format!("{} nonces, {} commitments", k, comms.len()));
    }
    // consumption is judged in BYTES, not in requests: exactly 64 per pair, whatever the granularity of the requests
    let draws = &rng.draws[first_draw..];
    rep.evaluations += 1;
    let start = draws.first().map(|d| d.0).unwrap_or(rng.out.len());
    let consumed: usize = draws.iter().map(|d| d.1).sum();
    if consumed != 64 * k {
        return viol("C15.random_source_consumption", format!("{k} pair(s) must consume exactly {} bytes (32 for each hiding and 32 for each binding nonce), consumed {consumed} in requests of {:?}", 64 * k, draws.iter().map(|d| d.1).collect::<Vec<_>>()));
    }
    // requests are consecutive on the stream
    let mut at = start;
    for d in draws {
        if d.0 != at {
            return viol("C15.random_source_consumption", format!("request at stream offset {} (expected {at})", d.0));
        }
        at += d.1;
    }
    // window j: hiding = bytes [64j, 64j+32), binding = bytes [64j+32, 64j+64) of what the call consumed
    let draws: Vec<(usize, usize)> = (0..2 * k).map(|i| (start + 32 * i, 32)).collect();
    let sb = share.serialize();
    let zero_b = sc_bytes::<C>(&zero::<C>());
    for j in 0..k {
        for (which, nonce, commitment, d) in [("hiding", nonces[j].hiding(), comms[j].hiding(), draws[2 * j]), ("binding", nonces[j].binding(), comms[j].binding(), draws[2 * j + 1])] {
            let w = rng.out[d.0..d.0 + 32].to_vec();
            let mut pre = w.clone();
            pre.extend_from_slice(&sb);
            let expect = <C as Ciphersuite>::H3(&pre);
            let nb = nonce.serialize();
            rep.evaluations += 3;
            if sc_bytes::<C>(&expect) != nb {
                return viol("C15.nonce_not_H3_of_window_and_share", format!("pair {j} {which}: nonce != H3(32 random bytes || encoded share); window = {}", hexs(&w)));
            }
            if nb == zero_b {
                return viol("C15.zero_nonce", format!("pair {j} {which}"));
            }
            let n_sc = sc_from_bytes::<C>(&nb).unwrap();
            let cb = commitment.serialize().unwrap_or_default();
            if el_bytes::<C>(&base::<C>(n_sc)).as_deref() != Some(&cb[..]) || cb.is_empty() {
                return viol("C15.commitment_not_G_times_nonce", format!("pair {j} {which}"));
            }
            // the commitments stored inside the nonces are the published ones
            if nonces[j].commitments() != &comms[j] {
                return viol("C15.commitment_not_G_times_nonce", format!("pair {j}: commitments inside SigningNonces differ from the published ones"));
            }
            if emit && j < 2 {
                rep.trace.push(json!({"type":"nonce","suite":C::NAME,"share":hexs(&sb),"rand":hexs(&w),"nonce":hexs(&nb),"commitment":hexs(&cb)}).to_string());
            }
            obs.push(Obs { window: w, share: sb.clone(), nonce: nb, what: format!("{what} pair {j} {which}") });
        }
    }
    None
}

fn exec_c<C: Suite>(scen: &Scenario) -> Exec {
    let mut rep = new_report(scen);
    let sim = match run_honest::<C>(scen, &mut rep) {
        Ok(s) => s,
        Err(v) if v.oracle == "harness" => return Exec::Harness(v.detail),
        Err(v) => return Exec::Violation(Violation::new("C15", "C15.control_failed", v.detail), rep),
    };
    let mut obs: Vec<Obs> = Vec::new();
    // every commit of the simulated deployment
    for r in &sim.history {
        if let Record::Commit { node, inst, rng_out, draws, nonces, commitments, share } = r {
            let mut fake = SimRng::new(RngMode::Constant(0));
            fake.out = rng_out.clone();
            fake.draws = draws.clone();
            if let Some(v) = check_pairs::<C>(&mut rep, &format!("commit of node {node} in session {inst}"), share, &fake, 0, &[nonces.clone()], &[*commitments], &mut obs, true) {
                return Exec::Violation(v, rep);
            }
            rep.probe("sim_commit_checked");
        }
    }
    // dedicated histories on faulty and shared sources
    let kps = current_kps(&sim);
    let shares: Vec<SigningShare<C>> = kps.values().map(|k| *k.signing_share()).collect();
    let k = scen.extra["k"].as_u64().unwrap_or(2) as u8;
    if k >= 4 {
        rep.probe("preprocess_k_ge_4");
    }
    let mut mp = stream(scen.seed, scen.run, "c15/modes");
    let block = |p: &mut crate::prng::Prng, n: usize| p.bytes(n);
    let modes: Vec<(&str, RngMode)> = vec![
        ("good", RngMode::Good(stream(scen.seed, scen.run, "c15/good"))),
        ("constant", RngMode::Constant((mp.next_u64() & 0xff) as u8 | 1)),
        ("repeating32", RngMode::Repeating(block(&mut mp, 32))),
        ("repeating64", RngMode::Repeating(block(&mut mp, 64))),
        ("counter", RngMode::Counter(mp.next_u64())),
    ];
    for (mname, mode) in modes {
        rep.probe(&format!("mode_{mname}"));
        // the same signer twice on ONE stream (commit, then preprocess(k)), then a second signer on the SAME stream from its start
        let mut rng = SimRng::new(mode.clone());
        let (n1, c1) = frost::round1::commit::<C, _>(&shares[0], &mut rng);
        if let Some(v) = check_pairs::<C>(&mut rep, &format!("[{mname}] commit #1 of signer 0"), &shares[0], &rng, 0, &[n1], &[c1], &mut obs, mname == "good") {
            return Exec::Violation(v, rep);
        }
        let before = rng.draws.len();
        let (nk, ck) = frost::round1::preprocess::<C, _>(k, &shares[0], &mut rng);
        if nk.len() != k as usize {
            return Exec::Violation(Violation::new("C15", "C15.wrong_number_of_pairs", format!("[{mname}] preprocess({k}) returned {} pairs", nk.len())), rep);
        }
        if let Some(v) = check_pairs::<C>(&mut rep, &format!("[{mname}] preprocess({k}) of signer 0"), &shares[0], &rng, before, &nk, &ck, &mut obs, false) {
            return Exec::Violation(v, rep);
        }
        if rng.total() != 64 * (1 + k as usize) {
            return Exec::Violation(Violation::new("C15", "C15.random_source_consumption", format!("[{mname}] commit + preprocess({k}) consumed {} bytes, expected {}", rng.total(), 64 * (1 + k as usize))), rep);
        }
        // the other public routes to a nonce pair: SigningNonces::new, the ciphersuite crate's own round1::commit, and two
        // single Nonce::new calls assembled with from_nonces - all on the same stream, after the calls above
        {
            let before = rng.draws.len();
            let nn = SigningNonces::<C>::new(&shares[0], &mut rng);
            let cc = SigningCommitments::<C>::from(&nn);
            if let Some(v) = check_pairs::<C>(&mut rep, &format!("[{mname}] SigningNonces::new of signer 0"), &shares[0], &rng, before, &[nn], &[cc], &mut obs, false) {
                return Exec::Violation(v, rep);
            }
            let before = rng.draws.len();
            let (nw, cw) = C::w_commit(&shares[0], &mut rng);
            if let Some(v) = check_pairs::<C>(&mut rep, &format!("[{mname}] the suite crate's round1::commit of signer 0"), &shares[0], &rng, before, &[nw], &[cw], &mut obs, false) {
                return Exec::Violation(v, rep);
            }
            let before = rng.draws.len();
            let h = frost::round1::Nonce::<C>::new(&shares[0], &mut rng);
            let b = frost::round1::Nonce::<C>::new(&shares[0], &mut rng);
            let nn = SigningNonces::<C>::from_nonces(h, b);
            let cc = *nn.commitments();
            if let Some(v) = check_pairs::<C>(&mut rep, &format!("[{mname}] two Nonce::new calls of signer 0"), &shares[0], &rng, before, &[nn], &[cc], &mut obs, false) {
                return Exec::Violation(v, rep);
            }
            rep.probe("other_nonce_entry_points");
        }
        if shares.len() >= 2 {
            let mut rng2 = SimRng::new(mode.clone());
            let (n2, c2) = frost::round1::commit::<C, _>(&shares[1], &mut rng2);
            if let Some(v) = check_pairs::<C>(&mut rep, &format!("[{mname}] commit of signer 1 on the same stream"), &shares[1], &rng2, 0, &[n2], &[c2], &mut obs, false) {
                return Exec::Violation(v, rep);
            }
            rep.probe("same_stream_two_signers");
        }
        rep.extra_shapes.push(format!("{}|{mname}|k{k}", scen.suite));
    }
    // one signer on two different good streams, and on a replayed stream
    {
        let mut a = SimRng::good(stream(scen.seed, scen.run, "c15/two/a"));
        let mut b = SimRng::good(stream(scen.seed, scen.run, "c15/two/b"));
        let (na, ca) = frost::round1::commit::<C, _>(&shares[0], &mut a);
        let (nb, cb) = frost::round1::commit::<C, _>(&shares[0], &mut b);
        for (w, r, n, c) in [("stream a", &a, na.clone(), ca), ("stream b", &b, nb, cb)] {
            if let Some(v) = check_pairs::<C>(&mut rep, &format!("signer 0 on {w}"), &shares[0], r, 0, &[n], &[c], &mut obs, false) {
                return Exec::Violation(v, rep);
            }
        }
        rep.probe("same_signer_two_streams");
        let mut again = SimRng::replay(a.out.clone(), stream(scen.seed, scen.run, "c15/two/fallback"));
        let (nr, cr) = frost::round1::commit::<C, _>(&shares[0], &mut again);
        rep.evaluations += 1;
        if nr != na || cr != ca {
            return Exec::Violation(Violation::new("C15", "C15.nonce_depends_on_something_else", "the same random bytes and the same share gave different nonces".to_string()), rep);
        }
        if let Some(v) = check_pairs::<C>(&mut rep, "signer 0 on the replayed stream a", &shares[0], &again, 0, &[nr], &[cr], &mut obs, false) {
            return Exec::Violation(v, rep);
        }
        rep.probe("mode_replay");
    }
    // over the whole history: nonces equal iff (window, share) equal
    let mut by_nonce: BTreeMap<Vec<u8>, usize> = BTreeMap::new();
    let mut by_input: BTreeMap<(Vec<u8>, Vec<u8>), usize> = BTreeMap::new();
    for (i, o) in obs.iter().enumerate() {
        rep.evaluations += 1;
        let key = (o.window.clone(), o.share.clone());
        match (by_nonce.get(&o.nonce), by_input.get(&key)) {
            (Some(j), None) => {
                return Exec::Violation(Violation::new("C15", "C15.nonce_reused", format!("'{}' and '{}' have the SAME nonce although their random bytes or shares differ", obs[*j].what, o.what)), rep);
            }
            (None, Some(j)) => {
                return Exec::Violation(Violation::new("C15", "C15.nonce_depends_on_something_else", format!("'{}' and '{}' have equal (random bytes, share) but different nonces", obs[*j].what, o.what)), rep);
            }
            (Some(_), Some(_)) => rep.probe("equal_nonces_explained"),
            (None, None) => {}
        }
        by_nonce.entry(o.nonce.clone()).or_insert(i);
        by_input.entry(key).or_insert(i);
    }
    rep.probe_n("nonces_observed", obs.len() as u64);
    rep.nontrivial = obs.len() >= 8;
    rep.sample = Some(json!({"suite": scen.suite, "k": k, "nonces_observed": obs.len(), "example": obs.first().map(|o| json!({"window": hexs(&o.window), "nonce": hexs(&o.nonce), "what": o.what}))}));
    Exec::Ok(rep)
}
