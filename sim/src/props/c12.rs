//! C12 — wire encodings round-trip, are canonical, and reject everything else.
//! World: a deployment run through the simulator that exercises every wire type (key generation,
//! refresh, repair, plain / re-randomised signing); every envelope and every stored slot is bytes.
//! Faults on those bytes: every single-bit flip, every leading and trailing byte value, random byte
//! substitutions, random strings, length faults, a dictionary of hostile encodings produced by the
//! independent reference, format-version and ciphersuite-id faults, cross-suite misdelivery.

use std::collections::BTreeMap;
use std::sync::OnceLock;

use frost_core::keys::dkg;
use frost_core::keys::repairable::{Delta, Sigma};
use frost_core::keys::{CoefficientCommitment, KeyPackage, PublicKeyPackage, SecretShare, SigningShare, VerifyingShare};
use frost_core::round1::{Nonce, NonceCommitment, SigningCommitments, SigningNonces};
use frost_core::round2::SignatureShare;
use frost_core::{self as frost, Identifier, Signature, SigningKey, SigningPackage, VerifyingKey};
use frost_rerandomized::Randomizer;
use serde_json::{Value, json};

use crate::dispatch;
use crate::engine::*;
use crate::genr::*;
use crate::prng::{Prng, stream};
use crate::props::common::*;
use crate::scenario::*;
use crate::sim::Record;
use crate::simrng::SimRng;
use crate::suite::*;
use crate::wire::{Fmt, Wire, dec, enc};

pub fn prop() -> Prop {
    Prop {
        id: "C12",
        level: "exploration",
        runs: |t| match t {
            Tier::Quick => 480,
            Tier::Thorough => 5000,
        },
        generate,
        exec,
        shrink: generic_shrink,
        rule: "one evaluation = one decode of a byte string at the network/storage seam; valid encodings come from every envelope, stored slot and recorded value of a simulated deployment; around each valid fixed-size encoding: every single-bit flip, every value of the first and last byte, random byte substitutions, random strings, lengths -1/+1/0/x2, plus the reference's hostile dictionary; for composite types: round trip in binary and JSON, version byte 1..255, every other suite's ciphersuite id (binary CRC and JSON string), cross-suite payloads; oracle: decode ok => re-encode equals the input; must-reject classes are errors; non-trivial = neighbourhood swept; distinct = (suite, type, fault kind) x distinct valid encodings hashed and counted",
        distinct_measure: "hash of (suite, wire type, valid encoding) for every swept neighbourhood",
        assumptions: &["composite postcard encodings are not required to reject trailing bytes (the property demands canonicity for fixed-size encodings only)", "hostile dictionary entries were each verified invalid by the independent reference decoder", "all 2^264+ strings are sampled around valid encodings and hostile points, never enumerated"],
        real: &["every serialize/deserialize entry point and serde impl of frost-core, frost-rerandomized and the six ciphersuite crates", "curve crates' point/scalar decoders"],
        stub: &["transport", "store", "glue", "random source", "byte-corrupting network/storage"],
        independent: &["hostile dictionary from the Python reference (ref/hostile/*.json)"],
        ref_sample: |_| 0,
        required_probes: &["boundary_x_coordinates_accepted", "commitment_encodings_round_trip", "one_entry_commitment_round_trip", "structured_scalars_accepted", "type_Identifier", "type_SigningShare", "type_VerifyingShare", "type_VerifyingKey", "type_SigningKey", "type_Nonce", "type_NonceCommitment", "type_CoefficientCommitment", "type_Signature", "type_SignatureShare", "type_Delta", "type_Sigma", "type_Randomizer", "composite_SecretShare", "composite_KeyPackage", "composite_PublicKeyPackage", "composite_PublicKeyPackage_pre3", "composite_SigningNonces", "composite_SigningCommitments", "composite_SigningPackage", "composite_dkg_round1_Package", "composite_dkg_round1_SecretPackage", "composite_dkg_round2_Package", "composite_dkg_round2_SecretPackage", "version_fault", "ciphersuite_fault_bin", "ciphersuite_fault_json", "cross_suite_payload", "hostile_elements", "hostile_scalars", "zero_identifier_rejected", "zero_signing_key_rejected", "identity_rejected"],
        prepare: None,
    }
}

pub fn generate(seed: u64, run: u64, _tier: Tier) -> Scenario {
    let suite = SUITES[(run % 6) as usize];
    dispatch!(suite, gen_c(seed, run))
}

fn gen_c<C: Suite>(seed: u64, run: u64) -> Scenario {
    let mut p = stream(seed, run, "gen");
    let mut s = base_scenario("C12", C::NAME, seed, run);
    let slow = C::COST >= 9;
    let n: u16 = if slow { 3 } else { p.range(3, 4) as u16 };
    let t: u16 = p.range(2, (n - 1) as u64) as u16;
    s.n = n;
    s.t = t;
    s.id_scheme = (*p.pick(&ID_SCHEMES)).to_string();
    s.ids_hex = gen_ids::<C>(&mut p, &s.id_scheme, n as usize);
    s.wire = gen_wire(&mut p);
    let pool: Vec<usize> = (0..n as usize).collect();
    // every protocol once: DKG or dealer, re-randomised + plain signing, refresh, repair
    s.phases.push(vec![if run % 2 == 0 { Inst::Dkg } else { Inst::DealerKeygen { split_key: true } }]);
    s.phases.push(vec![
        Inst::Sign { signers: gen_signers(&mut p, &pool, t as usize), msg_hex: hexs(&gen_message(&mut p)), mode: SignMode::Rerand },
        Inst::Sign { signers: gen_signers(&mut p, &pool, t as usize), msg_hex: hexs(&gen_message(&mut p)), mode: SignMode::Plain },
    ]);
    s.phases.push(vec![if run % 4 < 2 { Inst::RefreshDkg { remaining: pool.clone() } } else { Inst::RefreshDealer { remaining: pool.clone() } }]);
    let target = p.below(n as u64) as usize;
    let others: Vec<usize> = pool.iter().filter(|x| **x != target).cloned().collect();
    let mut helpers: Vec<usize> = p.subset(others.len(), t as usize).into_iter().map(|i| others[i]).collect();
    p.shuffle(&mut helpers);
    s.phases.push(vec![Inst::Repair { target, helpers }]);
    s.sched = Sched::Random;
    s
}

pub fn exec(scen: &Scenario) -> Exec {
    dispatch!(scen.suite.as_str(), exec_c(scen))
}

#[derive(Clone)]
pub struct Hostile {
    pub elements: Vec<(Vec<u8>, String)>,
    pub scalars: Vec<(Vec<u8>, String)>,
}

static HOSTILE: OnceLock<BTreeMap<String, Hostile>> = OnceLock::new();

pub fn hostile_for(suite: &str) -> Option<Hostile> {
    let all = HOSTILE.get_or_init(|| {
        let mut m = BTreeMap::new();
        let dir = std::env::var("FROSTSIM_VERIF_DIR").unwrap_or_else(|_| "/verif".into());
        for s in SUITES {
            let Ok(body) = std::fs::read_to_string(format!("{dir}/ref/hostile/{s}.json")) else { continue };
            let Ok(v) = serde_json::from_str::<Value>(&body) else { continue };
            let grab = |k: &str| -> Vec<(Vec<u8>, String)> {
                v[k].as_array().map(|a| a.iter().filter_map(|e| Some((hex::decode(e["hex"].as_str()?).ok()?, e["why"].as_str()?.to_string()))).collect()).unwrap_or_default()
            };
            m.insert(s.to_string(), Hostile { elements: grab("elements"), scalars: grab("scalars") });
        }
        m
    });
    all.get(suite).cloned()
}

#[derive(Clone, Copy, PartialEq)]
enum Class {
    Scalar,
    Element,
    Sig,
}

struct Prim {
    name: &'static str,
    class: Class,
    /// decode then re-encode; None = rejected by the decoder; Some(None) = accepted but the decoded value does not re-encode
    dec: Box<dyn Fn(&[u8]) -> Option<Option<Vec<u8>>>>,
    valid: Vec<Vec<u8>>,
}

fn prim<T: Wire + 'static>(name: &'static str, class: Class) -> Prim {
    Prim { name, class, dec: Box::new(|b: &[u8]| T::from_bin(b).ok().map(|v| v.to_bin().ok())), valid: Vec::new() }
}

fn push_unique(v: &mut Vec<Vec<u8>>, b: Vec<u8>, cap: usize) {
    if v.len() < cap && !v.contains(&b) {
        v.push(b);
    }
}

struct Sweep<'a> {
    rep: &'a mut RunReport,
    p: Prng,
    decodes: u64,
}

impl<'a> Sweep<'a> {
    /// decode ok => re-encode must equal the input
    fn canon(&mut self, prim: &Prim, input: &[u8], what: &str) -> Option<Violation> {
        self.decodes += 1;
        if let Some(re) = (prim.dec)(input) {
            if re.as_deref() != Some(input) {
                return Some(Violation::new(
                    "C12",
                    "C12.non_canonical_encoding_accepted",
                    format!("{} [{}]: {} decodes, but re-encodes as {} ({what})", prim.name, self.rep.shape.split('|').next().unwrap_or(""), hexs(input), re.map(|r| hexs(&r)).unwrap_or_else(|| "<the decoded value cannot be encoded>".into())),
                ));
            }
        }
        None
    }
    fn must_reject(&mut self, prim: &Prim, input: &[u8], what: &str) -> Option<Violation> {
        self.decodes += 1;
        if (prim.dec)(input).is_some() {
            return Some(Violation::new("C12", "C12.invalid_encoding_accepted", format!("{} [{}]: {} was accepted ({what})", prim.name, self.rep.shape.split('|').next().unwrap_or(""), hexs(input))));
        }
        None
    }
    /// An encoding the library's own encoder produces for a value of the type: it decodes, and re-encodes to the same bytes.
    fn must_accept(&mut self, prim: &Prim, input: &[u8], what: &str) -> Option<Violation> {
        self.decodes += 1;
        match (prim.dec)(input) {
            None => Some(Violation::new("C12", "C12.round_trip_failed", format!("{} [{}]: the encoding {} of a valid value ({what}) is rejected by the decoder", prim.name, self.rep.shape.split('|').next().unwrap_or(""), hexs(input)))),
            Some(Some(re)) if re != input => Some(Violation::new("C12", "C12.non_canonical_accepted", format!("{} [{}]: {} ({what}) decodes but re-encodes as {}", prim.name, self.rep.shape.split('|').next().unwrap_or(""), hexs(input), hexs(&re)))),
            _ => None,
        }
    }
    fn neighbourhood(&mut self, prim: &Prim, e: &[u8]) -> Option<Violation> {
        let l = e.len();
        // control
        self.decodes += 1;
        if (prim.dec)(e).flatten().as_deref() != Some(e) {
            return Some(Violation::new("C12", "C12.round_trip_failed", format!("{}: valid encoding {} does not decode to itself", prim.name, hexs(e))));
        }
        let mut buf = e.to_vec();
        for bit in 0..l * 8 {
            buf[bit / 8] ^= 1 << (bit % 8);
            if let Some(v) = self.canon(prim, &buf, &format!("bit {bit} flipped in a valid encoding")) {
                return Some(v);
            }
            buf[bit / 8] ^= 1 << (bit % 8);
        }
        for pos in [0usize, l - 1] {
            for b in 0..=255u8 {
                buf[pos] = b;
                if let Some(v) = self.canon(prim, &buf, &format!("byte {pos} of a valid encoding set to {b:#04x}")) {
                    return Some(v);
                }
            }
            buf[pos] = e[pos];
        }
        // the second-to-last byte too (signatures: boundary between R and z sits elsewhere; swept below)
        for _ in 0..64 {
            let pos = self.p.below(l as u64) as usize;
            let b = (self.p.next_u64() & 0xff) as u8;
            buf[pos] = b;
            if let Some(v) = self.canon(prim, &buf, &format!("byte {pos} of a valid encoding set to {b:#04x}")) {
                return Some(v);
            }
            buf[pos] = e[pos];
        }
        if prim.class == Class::Sig {
            // first and last byte of each half
            let zl = l / 2 + (l % 2); // not exact for 33+32; sweep a window around the middle instead
            let _ = zl;
            for pos in (l / 2).saturating_sub(2)..(l / 2 + 3).min(l) {
                for b in 0..=255u8 {
                    buf[pos] = b;
                    if let Some(v) = self.canon(prim, &buf, &format!("byte {pos} of a valid encoding set to {b:#04x}")) {
                        return Some(v);
                    }
                }
                buf[pos] = e[pos];
            }
        }
        for _ in 0..48 {
            let r = self.p.bytes(l);
            if let Some(v) = self.canon(prim, &r, "random string of the right length") {
                return Some(v);
            }
        }
        // wrong lengths are errors
        let mut longer = e.to_vec();
        longer.push(0);
        let mut doubled = e.to_vec();
        doubled.extend_from_slice(e);
        for (w, what) in [(e[..l - 1].to_vec(), "one byte short"), (longer, "one byte long"), (Vec::new(), "empty"), (doubled, "doubled")] {
            if let Some(v) = self.must_reject(prim, &w, &format!("wrong length: {what}")) {
                return Some(Violation::new("C12", "C12.wrong_length_accepted", v.detail));
            }
        }
        None
    }
}

const OTHER_IDS: [&str; 6] = [
    "FROST-ED25519-SHA512-v1",
    "FROST-RISTRETTO255-SHA512-v1",
    "FROST-ED448-SHAKE256-v1",
    "FROST-P256-SHA256-v1",
    "FROST-secp256k1-SHA256-v1",
    "FROST-secp256k1-SHA256-TR-v1",
];

fn crc32(data: &[u8]) -> u32 {
    let mut crc: u32 = 0xFFFF_FFFF;
    for b in data {
        crc ^= *b as u32;
        for _ in 0..8 {
            crc = if crc & 1 != 0 { (crc >> 1) ^ 0xEDB8_8320 } else { crc >> 1 };
        }
    }
    !crc
}

/// Re-emit a JSON value with object members in another order (0 sorted, 1 reverse sorted, 2/3 rotated by one/two) and, for
/// odd variants, with insignificant whitespace.
fn emit_json(v: &Value, variant: u8, depth: usize, out: &mut String) {
    let ws = variant % 2 == 1;
    match v {
        Value::Object(m) => {
            let mut keys: Vec<&String> = m.keys().collect();
            keys.sort();
            match variant {
                0 => {}
                1 => keys.reverse(),
                k => {
                    let r = (k as usize - 1) % keys.len().max(1);
                    keys.rotate_left(r);
                }
            }
            out.push('{');
            for (i, k) in keys.iter().enumerate() {
                if i > 0 {
                    out.push(',');
                }
                if ws {
                    out.push_str("\n  ");
                }
                out.push_str(&Value::String((*k).clone()).to_string());
                out.push(':');
                if ws {
                    out.push(' ');
                }
                emit_json(&m[*k], variant, depth + 1, out);
            }
            if ws {
                out.push('\n');
            }
            out.push('}');
        }
        Value::Array(a) => {
            out.push('[');
            for (i, x) in a.iter().enumerate() {
                if i > 0 {
                    out.push(',');
                    if ws {
                        out.push(' ');
                    }
                }
                emit_json(x, variant, depth + 1, out);
            }
            out.push(']');
        }
        other => out.push_str(&other.to_string()),
    }
}

/// Round trip + header faults for one composite value.
fn composite<C: Suite, T: Wire + PartialEq + std::fmt::Debug>(v: &T, tag: &str, has_header: bool, sw: &mut Sweep) -> Option<Violation> {
    let name = T::TYPE;
    sw.rep.probe(&format!("composite_{}{tag}", name.replace("::", "_")));
    for fmt in [Fmt::Bin, Fmt::Json] {
        sw.decodes += 2;
        let b = match enc(fmt, v) {
            Ok(b) => b,
            Err(e) => return Some(Violation::new("C12", "C12.round_trip_failed", format!("{name} ({fmt:?}) does not encode: {e}"))),
        };
        let back: T = match dec(fmt, &b) {
            Ok(x) => x,
            Err(e) => return Some(Violation::new("C12", "C12.round_trip_failed", format!("{name} ({fmt:?}) does not decode its own encoding: {e}"))),
        };
        if back != *v {
            return Some(Violation::new("C12", "C12.round_trip_failed", format!("{name} ({fmt:?}): decoded value differs from the original")));
        }
        match enc(fmt, &back) {
            Ok(b2) if b2 == b => {}
            _ => return Some(Violation::new("C12", "C12.round_trip_failed", format!("{name} ({fmt:?}): re-encoding the decoded value gives other bytes"))),
        }
        if fmt == Fmt::Json {
            // JSON is self-describing: the same document relayed through a generic JSON value, or re-emitted with its members in
            // another order and other whitespace, is the same encoding and must decode to the same value
            if let Ok(doc) = serde_json::from_slice::<Value>(&b) {
                sw.decodes += 2;
                for (route, r) in [("from_value(parsed text)", serde_json::from_value::<T>(doc.clone())), ("from_value(to_value(x))", serde_json::to_value(v).and_then(serde_json::from_value::<T>))] {
                    match r {
                        Ok(x) if x == *v => {}
                        Ok(_) => return Some(Violation::new("C12", "C12.round_trip_failed", format!("{name} (JSON) via {route}: decoded value differs from the original"))),
                        Err(e) => return Some(Violation::new("C12", "C12.round_trip_failed", format!("{name} (JSON) via {route} does not decode: {e}"))),
                    }
                }
                for variant in 0..4u8 {
                    let mut text = String::new();
                    emit_json(&doc, variant, 0, &mut text);
                    sw.decodes += 1;
                    match dec::<T>(fmt, text.as_bytes()) {
                        Ok(x) if x == *v => {}
                        Ok(_) => return Some(Violation::new("C12", "C12.round_trip_failed", format!("{name} (JSON) with members re-ordered (variant {variant}): decoded value differs from the original"))),
                        Err(e) => return Some(Violation::new("C12", "C12.round_trip_failed", format!("{name} (JSON) with members re-ordered (variant {variant}: {}) does not decode: {e}", text.chars().take(160).collect::<String>()))),
                    }
                }
                sw.rep.probe("json_member_orders");
            }
        }
        if !has_header {
            continue;
        }
        match fmt {
            Fmt::Bin => {
                // postcard: version byte first, then the 4-byte ciphersuite id
                if b.len() < 5 {
                    continue;
                }
                let own = crc32(C::ID.as_bytes()).to_be_bytes();
                if b[0] != 0 || b[1..5] != own {
                    // the library's own encoder wrote ANOTHER ciphersuite's identifier into the header of this suite's value
                    if b[0] == 0 {
                        if let Some(other) = OTHER_IDS.iter().find(|o| **o != C::ID && b[1..5] == crc32(o.as_bytes()).to_be_bytes()) {
                            return Some(Violation::new("C12", "C12.foreign_ciphersuite_accepted", format!("{name} (binary) of {} is encoded with the ciphersuite identifier of {other} in its header - and decodes", C::ID)));
                        }
                    }
                    return Some(Violation::new("C12", "harness", format!("{name}: unexpected header layout {}", hexs(&b[..5]))));
                }
                for ver in [1u8, 2, 0x7f, 0x80, 0xff] {
                    let mut c = b.clone();
                    c[0] = ver;
                    sw.decodes += 1;
                    sw.rep.probe("version_fault");
                    if dec::<T>(fmt, &c).is_ok() {
                        return Some(Violation::new("C12", "C12.wrong_version_accepted", format!("{name} (binary): format version {ver} accepted")));
                    }
                }
                // the version field re-spelled as a padded variable-length integer (80 00 = "0" in two bytes, 80 80 00, 81 00 = "1" ...):
                // the first byte is then a format version >= 0x80, and the string does not re-encode to itself
                for spelling in [&[0x80u8, 0x00][..], &[0x80, 0x80, 0x00], &[0x81, 0x00], &[0x80, 0x01], &[0xff, 0x7f], &[0x80, 0x80, 0x80, 0x00]] {
                    let mut c = spelling.to_vec();
                    c.extend_from_slice(&b[1..]);
                    sw.decodes += 1;
                    sw.rep.probe("version_fault");
                    if dec::<T>(fmt, &c).is_ok() {
                        return Some(Violation::new("C12", "C12.wrong_version_accepted", format!("{name} (binary): format version spelled as the padded variable-length integer {} accepted (the canonical header starts with the single byte 00)", hexs(spelling))));
                    }
                }
                for other in OTHER_IDS.iter().filter(|o| **o != C::ID) {
                    let mut c = b.clone();
                    c[1..5].copy_from_slice(&crc32(other.as_bytes()).to_be_bytes());
                    sw.decodes += 1;
                    sw.rep.probe("ciphersuite_fault_bin");
                    if dec::<T>(fmt, &c).is_ok() {
                        return Some(Violation::new("C12", "C12.foreign_ciphersuite_accepted", format!("{name} (binary): ciphersuite id of {other} accepted")));
                    }
                }
                // each single bit of the id
                for bit in 8..40 {
                    let mut c = b.clone();
                    c[bit / 8] ^= 1 << (bit % 8);
                    sw.decodes += 1;
                    if dec::<T>(fmt, &c).is_ok() {
                        return Some(Violation::new("C12", "C12.foreign_ciphersuite_accepted", format!("{name} (binary): ciphersuite id with bit {bit} flipped accepted")));
                    }
                }
            }
            Fmt::Json => {
                let mut val: Value = match serde_json::from_slice(&b) {
                    Ok(v) => v,
                    Err(_) => continue,
                };
                if val.get("header").is_none() {
                    return Some(Violation::new("C12", "harness", format!("{name}: JSON form has no header")));
                }
                for ver in [1u64, 2, 255] {
                    val["header"]["version"] = json!(ver);
                    sw.decodes += 1;
                    sw.rep.probe("version_fault");
                    if dec::<T>(fmt, val.to_string().as_bytes()).is_ok() {
                        return Some(Violation::new("C12", "C12.wrong_version_accepted", format!("{name} (JSON): format version {ver} accepted")));
                    }
                }
                val["header"]["version"] = json!(0);
                for other in OTHER_IDS.iter().filter(|o| **o != C::ID).map(|s| s.to_string()).chain([C::ID.to_lowercase(), format!("{} ", C::ID), String::new(), "\u{0444}".repeat(40), format!("x{}", "\u{6f22}".repeat(30)), format!("{}\u{00e9}", C::ID)]) {
                    if other == C::ID {
                        continue;
                    }
                    val["header"]["ciphersuite"] = json!(other);
                    sw.decodes += 1;
                    sw.rep.probe("ciphersuite_fault_json");
                    if dec::<T>(fmt, val.to_string().as_bytes()).is_ok() {
                        return Some(Violation::new("C12", "C12.foreign_ciphersuite_accepted", format!("{name} (JSON): ciphersuite id '{other}' accepted")));
                    }
                }
            }
        }
    }
    None
}

/// The same logical value produced by a world of ANOTHER suite with the same encoding sizes must not decode here.
fn cross_suite<C: Suite>(scen: &Scenario, sw: &mut Sweep) -> Option<Violation> {
    fn foreign_kp<D: Suite>(seed: u64, run: u64) -> Option<(Vec<u8>, Vec<u8>, Vec<u8>, Vec<u8>)> {
        let mut rng = SimRng::good(stream(seed, run, "c12/foreign"));
        let (shares, pk) = frost::keys::generate_with_dealer::<D, _>(3, 2, frost::keys::IdentifierList::Default, &mut rng).ok()?;
        let sh = shares.values().next()?.clone();
        let kp = KeyPackage::<D>::try_from(sh.clone()).ok()?;
        Some((sh.serialize().ok()?, kp.serialize().ok()?, pk.serialize().ok()?, serde_json::to_vec(&kp).ok()?))
    }
    let same_size: Vec<&str> = match C::NAME {
        "ed25519" => vec!["ristretto255"],
        "ristretto255" => vec!["ed25519"],
        "secp256k1" => vec!["secp256k1-tr", "p256"],
        "secp256k1-tr" => vec!["secp256k1", "p256"],
        "p256" => vec!["secp256k1", "secp256k1-tr"],
        _ => vec![],
    };
    for other in same_size {
        let f = |name: &str| dispatch!(name, foreign_kp(scen.seed, scen.run));
        let Some((sh, kp, pk, kpj)) = f(other) else { continue };
        sw.decodes += 4;
        sw.rep.probe("cross_suite_payload");
        if SecretShare::<C>::deserialize(&sh).is_ok() || KeyPackage::<C>::deserialize(&kp).is_ok() || PublicKeyPackage::<C>::deserialize(&pk).is_ok() || serde_json::from_slice::<KeyPackage<C>>(&kpj).is_ok() {
            return Some(Violation::new("C12", "C12.foreign_ciphersuite_accepted", format!("a {other} payload of the same size was accepted by the {} decoder", C::NAME)));
        }
    }
    if C::NAME == "ed448" {
        sw.rep.probe("cross_suite_payload");
    }
    None
}

fn exec_c<C: Suite>(scen: &Scenario) -> Exec {
    let mut rep = new_report(scen);
    let sim = match run_honest::<C>(scen, &mut rep) {
        Ok(s) => s,
        Err(v) if v.oracle == "harness" => return Exec::Harness(v.detail),
        Err(v) => return Exec::Violation(Violation::new("C12", "C12.control_failed", v.detail), rep),
    };
    let Some(hostile) = hostile_for(C::NAME) else { return Exec::Harness("hostile dictionary missing (ref/hostile/*.json)".into()) };
    let mut prims: Vec<Prim> = vec![
        prim::<Identifier<C>>("Identifier", Class::Scalar),
        prim::<SigningShare<C>>("SigningShare", Class::Scalar),
        prim::<Nonce<C>>("Nonce", Class::Scalar),
        prim::<SignatureShare<C>>("SignatureShare", Class::Scalar),
        prim::<Delta<C>>("Delta", Class::Scalar),
        prim::<Sigma<C>>("Sigma", Class::Scalar),
        prim::<Randomizer<C>>("Randomizer", Class::Scalar),
        Prim { name: "SigningKey", class: Class::Scalar, dec: Box::new(|b: &[u8]| SigningKey::<C>::deserialize(b).ok().map(|k| Some(k.serialize()))), valid: Vec::new() },
        prim::<VerifyingShare<C>>("VerifyingShare", Class::Element),
        prim::<VerifyingKey<C>>("VerifyingKey", Class::Element),
        prim::<NonceCommitment<C>>("NonceCommitment", Class::Element),
        prim::<CoefficientCommitment<C>>("CoefficientCommitment", Class::Element),
        prim::<Signature<C>>("Signature", Class::Sig),
    ];
    let cap = 3usize;
    {
        let mut add = |name: &str, b: Vec<u8>| {
            if let Some(p) = prims.iter_mut().find(|p| p.name == name) {
                push_unique(&mut p.valid, b, cap);
            }
        };
        let mut kp_seen: Vec<KeyPackage<C>> = Vec::new();
        for r in &sim.history {
            match r {
                Record::DealerOut { shares, pk, key, .. } => {
                    for sh in shares.values().take(2) {
                        add("Identifier", sh.identifier().serialize());
                        add("SigningShare", sh.signing_share().serialize());
                        for c in sh.commitment().serialize().unwrap_or_default() {
                            add("CoefficientCommitment", c);
                        }
                    }
                    add("VerifyingKey", pk.verifying_key().serialize().unwrap_or_default());
                    if let Some(k) = key {
                        add("SigningKey", sc_bytes::<C>(k));
                    }
                }
                Record::KeyPackage { kp, .. } | Record::DkgDone { kp, .. } | Record::Repaired { kp, .. } => kp_seen.push(kp.clone()),
                Record::Refreshed { new_kp, .. } => kp_seen.push(new_kp.clone()),
                Record::DkgPart1 { pkg, .. } => {
                    for c in pkg.commitment().serialize().unwrap_or_default() {
                        add("CoefficientCommitment", c);
                    }
                    add("Signature", pkg.proof_of_knowledge().serialize().unwrap_or_default());
                }
                Record::Commit { nonces, commitments, .. } => {
                    add("Nonce", nonces.hiding().serialize());
                    add("Nonce", nonces.binding().serialize());
                    add("NonceCommitment", commitments.hiding().serialize().unwrap_or_default());
                    add("NonceCommitment", commitments.binding().serialize().unwrap_or_default());
                }
                Record::Share { share, .. } => add("SignatureShare", share.serialize()),
                Record::Session { result: Ok(sig), params, .. } => {
                    add("Signature", sig.serialize().unwrap_or_default());
                    if let Some(p) = params {
                        add("Randomizer", p.randomizer().serialize());
                        add("VerifyingKey", p.randomized_verifying_key().serialize().unwrap_or_default());
                    }
                }
                Record::RepairDeltas { deltas, .. } => {
                    for d in deltas.values() {
                        add("Delta", d.serialize());
                    }
                }
                _ => {}
            }
        }
        for kp in &kp_seen {
            add("Identifier", kp.identifier().serialize());
            add("SigningShare", kp.signing_share().serialize());
            add("VerifyingShare", kp.verifying_share().serialize().unwrap_or_default());
            add("VerifyingKey", kp.verifying_key().serialize().unwrap_or_default());
            add("SigningKey", kp.signing_share().serialize());
        }
        // sigmas travel only as envelopes
        for ((_, kind, _, _), b) in &sim.sent {
            if *kind == Kind::RepairSigma {
                if let Ok(s) = dec::<Sigma<C>>(scen.wire, b) {
                    add("Sigma", s.serialize());
                }
            }
        }
    }
    let mut sw = Sweep { rep: &mut rep, p: stream(scen.seed, scen.run, "c12/sweep"), decodes: 0 };
    // ---- fixed-size encodings: neighbourhoods --------------------------------------------------------
    for prim in &prims {
        if prim.valid.is_empty() {
            return Exec::Harness(format!("no valid {} seen in the world", prim.name));
        }
        sw.rep.probe(&format!("type_{}", prim.name));
        for e in &prim.valid {
            if let Some(v) = sw.neighbourhood(prim, e) {
                let decodes = sw.decodes;
                rep.evaluations += decodes;
                if v.oracle == "harness" {
                    return Exec::Harness(v.detail);
                }
                return Exec::Violation(v, rep);
            }
            sw.rep.extra_shapes.push(format!("{}|{}|{}", scen.suite, prim.name, hexs(&e[..e.len().min(12)])));
        }
    }
    // ---- must-accept: structured in-range scalars that random worlds never contain (1, 2, q-1, q-2, powers of two up to the top
    // bit of the order, all-ones patterns) in every scalar-valued type; zero where the public API itself makes a zero value
    // (Randomizer::from_scalar, SigningShare::default) ---------------------------------------------------
    {
        let two = sc_from_u64::<C>(2);
        let mut pw = one::<C>();
        let mut structured: Vec<(frost::Scalar<C>, String)> = vec![(one::<C>(), "1".into()), (two, "2".into()), (neg::<C>(one::<C>()), "q-1".into()), (neg::<C>(two), "q-2".into()), (sc_from_u64::<C>(u64::MAX), "2^64-1".into())];
        // 2^k and 2^k - 1 for every k below the bit length of the order (2^k mod q for larger k is just another scalar: harmless)
        for k in 1..=(8 * sc_len::<C>() as u32) {
            pw = pw * two;
            if k % 8 == 0 || k % 8 == 7 || (248..=256).contains(&k) || (440..=448).contains(&k) {
                structured.push((pw, format!("2^{k} mod q")));
                structured.push((pw - one::<C>(), format!("2^{k}-1 mod q")));
                structured.push((neg::<C>(pw), format!("-(2^{k}) mod q")));
            }
        }
        for prim in prims.iter().filter(|p| matches!(p.class, Class::Scalar)) {
            for (sc, what) in &structured {
                if let Some(v) = sw.must_accept(prim, &sc_bytes::<C>(sc), what) {
                    let decodes = sw.decodes;
                    rep.evaluations += decodes;
                    return Exec::Violation(v, rep);
                }
            }
            sw.rep.probe("structured_scalars_accepted");
        }
        let zero_enc = Randomizer::<C>::from_scalar(zero::<C>()).serialize();
        for name in ["Randomizer", "SigningShare"] {
            let enc = if name == "Randomizer" { zero_enc.clone() } else { SigningShare::<C>::default().serialize() };
            if let Some(prim) = prims.iter().find(|p| p.name == name) {
                if let Some(v) = sw.must_accept(prim, &enc, "the zero value the public API constructs") {
                    let decodes = sw.decodes;
                    rep.evaluations += decodes;
                    return Exec::Violation(v, rep);
                }
            }
        }
        // elements G*s for the first structured scalars (the generator itself, its double, its negation ...)
        for prim in prims.iter().filter(|p| matches!(p.class, Class::Element)) {
            for (sc, what) in structured.iter().take(5) {
                let Some(eb) = el_bytes::<C>(&base::<C>(*sc)) else { continue };
                if let Some(v) = sw.must_accept(prim, &eb, &format!("G * {what}")) {
                    let decodes = sw.decodes;
                    rep.evaluations += decodes;
                    return Exec::Violation(v, rep);
                }
            }
        }
        // secp256k1 family: valid points whose x coordinate lies at the top of the coordinate range - at or above the GROUP ORDER n
        // and just below the FIELD prime p (a coordinate is a field element; n < p). Random points never have such an x.
        if C::NAME == "secp256k1" || C::NAME == "secp256k1-tr" {
            let pm: [u8; 32] = hex::decode_to_array("fffffffffffffffffffffffffffffffffffffffffffffffffffffffefffffc2f").unwrap();
            let nm: [u8; 32] = hex::decode_to_array("fffffffffffffffffffffffffffffffebaaedce6af48a03bbfd25e8cd0364141").unwrap();
            // big-endian byte string plus a small signed integer
            let add = |b: &[u8; 32], k: i32| -> [u8; 32] {
                let mut out = *b;
                let mut carry = k;
                for i in (0..32).rev() {
                    let v = out[i] as i32 + carry;
                    out[i] = v.rem_euclid(256) as u8;
                    carry = v.div_euclid(256);
                }
                out
            };
            let mut xs: Vec<([u8; 32], String)> = Vec::new();
            for k in 1..48 {
                xs.push((add(&pm, -k), format!("x = p - {k}")));
            }
            for k in 0..48 {
                xs.push((add(&nm, k), format!("x = n + {k}")));
            }
            let mut used = 0;
            for (x, what) in xs {
                let mut comp = vec![0x02u8];
                comp.extend_from_slice(&x);
                // on the curve? (the harness's own decoder call is only a filter; the verdict is about every typed decoder)
                if el_from_bytes::<C>(&comp).is_none() {
                    continue;
                }
                used += 1;
                for prim in prims.iter().filter(|p| matches!(p.class, Class::Element)) {
                    if let Some(v) = sw.must_accept(prim, &comp, &format!("valid point with {what}")) {
                        let decodes = sw.decodes;
                        rep.evaluations += decodes;
                        return Exec::Violation(v, rep);
                    }
                }
                if let Some(prim) = prims.iter().find(|p| p.name == "Signature") {
                    let valid = prim.valid[0].clone();
                    let rl = valid.len() - sc_len::<C>();
                    let mut b: Vec<u8> = if rl == 32 { x.to_vec() } else { comp.clone() };
                    b.extend_from_slice(&valid[rl..]);
                    if let Some(v) = sw.must_accept(prim, &b, &format!("signature whose R is a valid point with {what}")) {
                        let decodes = sw.decodes;
                        rep.evaluations += decodes;
                        return Exec::Violation(v, rep);
                    }
                }
            }
            if used > 0 {
                sw.rep.probe("boundary_x_coordinates_accepted");
            }
        }
        // the signature's response part as well
        if let Some(prim) = prims.iter().find(|p| p.name == "Signature") {
            let valid = prim.valid[0].clone();
            let rl = valid.len() - sc_len::<C>();
            for (sc, what) in structured.iter().take(5) {
                let mut b = valid[..rl].to_vec();
                b.extend_from_slice(&sc_bytes::<C>(sc));
                if let Some(v) = sw.must_accept(prim, &b, &format!("signature with response {what}")) {
                    let decodes = sw.decodes;
                    rep.evaluations += decodes;
                    return Exec::Violation(v, rep);
                }
            }
        }
    }
    // ---- must-reject classes --------------------------------------------------------------------------
    let zero_b = sc_bytes::<C>(&zero::<C>());
    for prim in &prims {
        let r = match prim.class {
            Class::Scalar => {
                let mut out = None;
                for (h, why) in &hostile.scalars {
                    sw.rep.probe("hostile_scalars");
                    if let Some(v) = sw.must_reject(prim, h, &format!("hostile scalar: {why}")) {
                        out = Some(v);
                        break;
                    }
                }
                if out.is_none() && prim.name == "Identifier" {
                    sw.rep.probe("zero_identifier_rejected");
                    out = sw.must_reject(prim, &zero_b, "zero identifier");
                }
                if out.is_none() && prim.name == "SigningKey" {
                    sw.rep.probe("zero_signing_key_rejected");
                    out = sw.must_reject(prim, &zero_b, "zero signing key");
                }
                out
            }
            Class::Element => {
                let mut out = None;
                for (h, why) in &hostile.elements {
                    sw.rep.probe("hostile_elements");
                    if why.starts_with("identity") {
                        sw.rep.probe("identity_rejected");
                    }
                    if let Some(v) = sw.must_reject(prim, h, &format!("hostile element: {why}")) {
                        out = Some(v);
                        break;
                    }
                }
                out
            }
            Class::Sig => {
                // hostile R with a valid z, valid R with hostile z
                let valid = prim.valid[0].clone();
                let zl = sc_len::<C>();
                let rl = valid.len() - zl;
                let mut out = None;
                for (h, why) in &hostile.elements {
                    let rpart: Vec<u8> = if C::IS_TR {
                        if h.len() != 33 || h[0] != 0x02 {
                            continue;
                        }
                        h[1..].to_vec()
                    } else {
                        h.clone()
                    };
                    if rpart.len() != rl {
                        continue;
                    }
                    let mut s = rpart;
                    s.extend_from_slice(&valid[rl..]);
                    if let Some(v) = sw.must_reject(prim, &s, &format!("signature with hostile R: {why}")) {
                        out = Some(v);
                        break;
                    }
                }
                if out.is_none() {
                    for (h, why) in &hostile.scalars {
                        if h.len() != zl {
                            continue;
                        }
                        let mut s = valid[..rl].to_vec();
                        s.extend_from_slice(h);
                        if let Some(v) = sw.must_reject(prim, &s, &format!("signature with hostile z: {why}")) {
                            out = Some(v);
                            break;
                        }
                    }
                }
                out
            }
        };
        if let Some(v) = r {
            let decodes = sw.decodes;
            rep.evaluations += decodes;
            return Exec::Violation(v, rep);
        }
    }
    // cross-suite payloads first: they need no assumption about the header layout (the header-fault cases below do, and report a
    // harness error when the layout is not the one they were written for)
    if let Some(v) = cross_suite::<C>(scen, &mut sw) {
        let decodes = sw.decodes;
        rep.evaluations += decodes;
        return Exec::Violation(v, rep);
    }
    // ---- composite types: round trips, header faults, cross-suite ------------------------------------------
    macro_rules! comp {
        ($v:expr, $tag:expr, $hdr:expr) => {
            if let Some(v) = composite::<C, _>($v, $tag, $hdr, &mut sw) {
                let decodes = sw.decodes;
                rep.evaluations += decodes;
                if v.oracle == "harness" {
                    return Exec::Harness(v.detail);
                }
                return Exec::Violation(v, rep);
            }
        };
    }
    let mut seen_r1s = false;
    let mut seen_r2s = false;
    for r in &sim.history {
        match r {
            Record::DealerOut { shares, pk, .. } => {
                if let Some(sh) = shares.values().next() {
                    comp!(sh, "", true);
                }
                comp!(pk, "", true);
            }
            Record::KeyPackage { kp, .. } | Record::Repaired { kp, .. } => comp!(kp, "", true),
            Record::DkgDone { kp, pk, .. } => {
                comp!(kp, "", true);
                comp!(pk, "", true);
            }
            Record::Refreshed { new_kp, new_pk, .. } => {
                comp!(new_kp, "", true);
                if let Some(pk) = new_pk {
                    comp!(pk, "", true);
                }
            }
            Record::DkgPart1 { pkg, secret_json, .. } => {
                comp!(pkg, "", true);
                if let Ok(s) = serde_json::from_str::<dkg::round1::SecretPackage<C>>(secret_json) {
                    comp!(&s, "", false);
                    seen_r1s = true;
                }
            }
            Record::Commit { nonces, commitments, .. } => {
                comp!(nonces, "", true);
                comp!(commitments, "", true);
            }
            Record::Session { package, pk, .. } => {
                comp!(package, "", true);
                // the pre-3.0 form of the public key package: no threshold recorded
                let old = PublicKeyPackage::<C>::new(pk.verifying_shares().clone(), *pk.verifying_key(), None);
                comp!(&old, "_pre3", true);
            }
            _ => {}
        }
    }
    // round-2 DKG values travel / are stored as bytes only
    for ((_, kind, _, _), b) in &sim.sent {
        if *kind == Kind::DkgR2 {
            if let Ok(p) = dec::<dkg::round2::Package<C>>(scen.wire, b) {
                comp!(&p, "", true);
            }
        }
    }
    // a round-2 secret package: rebuild one through the public API from the recorded round-1 state
    {
        let n = scen.n as usize;
        let mut r1s: Vec<Option<dkg::round1::SecretPackage<C>>> = vec![None; n];
        let mut r1p: Vec<Option<dkg::round1::Package<C>>> = vec![None; n];
        let mut inst_of = None;
        for r in &sim.history {
            if let Record::DkgPart1 { node, inst, secret_json, pkg } = r {
                if inst_of.is_none() {
                    inst_of = Some(*inst);
                }
                if inst_of == Some(*inst) && *node < n {
                    r1s[*node] = serde_json::from_str(secret_json).ok();
                    r1p[*node] = Some(pkg.clone());
                }
            }
        }
        if r1s.iter().all(|x| x.is_some()) {
            let map: BTreeMap<Identifier<C>, dkg::round1::Package<C>> = (1..n).map(|j| (sim.ids[j], r1p[j].clone().unwrap())).collect();
            let is_refresh = matches!(scen.inst(inst_of.unwrap()), Some(Inst::RefreshDkg { .. }));
            let res = if is_refresh { frost::keys::refresh::refresh_dkg_part2::<C>(r1s[0].clone().unwrap(), &map) } else { dkg::part2::<C>(r1s[0].clone().unwrap(), &map) };
            if let Ok((s2, _)) = res {
                comp!(&s2, "", false);
                seen_r2s = true;
            }
        }
    }
    if !seen_r1s || !seen_r2s {
        // worlds with dealer keys and dealer refresh have no DKG state: fine, other runs cover it
        sw.rep.probe("no_dkg_state_in_world");
    }
    // ---- every envelope and stored slot of the run decodes to something that re-encodes identically --------
    for ((_, kind, _, _), b) in &sim.sent {
        let ok = match kind {
            Kind::DealerShare | Kind::RefreshShare => dec::<SecretShare<C>>(scen.wire, b).and_then(|v| enc(scen.wire, &v)).map(|x| x == *b),
            Kind::PubKeys | Kind::RepairInit => dec::<PublicKeyPackage<C>>(scen.wire, b).and_then(|v| enc(scen.wire, &v)).map(|x| x == *b),
            Kind::DkgR1 => dec::<dkg::round1::Package<C>>(scen.wire, b).and_then(|v| enc(scen.wire, &v)).map(|x| x == *b),
            Kind::DkgR2 => dec::<dkg::round2::Package<C>>(scen.wire, b).and_then(|v| enc(scen.wire, &v)).map(|x| x == *b),
            Kind::Commitments => dec::<SigningCommitments<C>>(scen.wire, b).and_then(|v| enc(scen.wire, &v)).map(|x| x == *b),
            Kind::SigShare => dec::<SignatureShare<C>>(scen.wire, b).and_then(|v| enc(scen.wire, &v)).map(|x| x == *b),
            Kind::RepairDelta => dec::<Delta<C>>(scen.wire, b).and_then(|v| enc(scen.wire, &v)).map(|x| x == *b),
            Kind::RepairSigma => dec::<Sigma<C>>(scen.wire, b).and_then(|v| enc(scen.wire, &v)).map(|x| x == *b),
            Kind::SignReq => crate::wire::unframe(b).ok_or("frame".to_string()).and_then(|p| dec::<SigningPackage<C>>(scen.wire, &p[0]).and_then(|v| enc(scen.wire, &v)).map(|x| x == p[0])),
            Kind::CommitReq | Kind::RepairReq => Ok(true),
        };
        sw.decodes += 1;
        if ok != Ok(true) {
            let decodes = sw.decodes;
            rep.evaluations += decodes;
            return Exec::Violation(Violation::new("C12", "C12.round_trip_failed", format!("envelope {kind:?} does not decode and re-encode to the same bytes: {ok:?}")), rep);
        }
        // the commitment inside a share or a round-one package has encodings of its own (a list of element encodings, and one
        // concatenated string) for applications that store the parts themselves: both round-trip - also for the one-entry
        // commitment a refresh at threshold 2 carries
        let commitment = match kind {
            Kind::DealerShare | Kind::RefreshShare => dec::<SecretShare<C>>(scen.wire, b).ok().map(|v| v.commitment().clone()),
            Kind::DkgR1 => dec::<dkg::round1::Package<C>>(scen.wire, b).ok().map(|v| v.commitment().clone()),
            _ => None,
        };
        if let Some(c) = commitment {
            sw.decodes += 2;
            let n_entries = c.serialize().map(|v| v.len()).unwrap_or(0);
            let whole = c.serialize_whole().map_err(|e| format!("{e:?}")).and_then(|w| frost::keys::VerifiableSecretSharingCommitment::<C>::deserialize_whole(&w).map_err(|e| format!("{e:?}")));
            let list = c.serialize().map_err(|e| format!("{e:?}")).and_then(|l| frost::keys::VerifiableSecretSharingCommitment::<C>::deserialize(l).map_err(|e| format!("{e:?}")));
            for (route, r) in [("serialize_whole / deserialize_whole", whole), ("serialize / deserialize", list)] {
                match r {
                    Ok(back) if back == c => {}
                    Ok(_) => return Exec::Violation(Violation::new("C12", "C12.round_trip_failed", format!("commitment with {n_entries} entries ({kind:?}) via {route}: decoded value differs")), rep),
                    Err(e) => return Exec::Violation(Violation::new("C12", "C12.round_trip_failed", format!("commitment with {n_entries} entries ({kind:?}) via {route} does not round-trip: {e}")), rep),
                }
            }
            sw.rep.probe("commitment_encodings_round_trip");
            if n_entries == 1 {
                sw.rep.probe("one_entry_commitment_round_trip");
            }
        }
    }
    let _: Option<SigningNonces<C>> = None;
    let decodes = sw.decodes;
    rep.evaluations += decodes;
    rep.probe_n("decodes", decodes);
    rep.nontrivial = true;
    rep.sample = Some(json!({"suite": scen.suite, "n": scen.n, "t": scen.t, "wire": format!("{:?}", scen.wire), "decodes": decodes, "example_valid_identifier": prims[0].valid.first().map(|b| hexs(b)), "example_fault": "byte 0 of a valid VerifyingKey encoding set to 0x05"}));
    Exec::Ok(rep)
}
