//! C13 — protocol state saved between rounds resumes to the identical outcome.
//! Twin runs: the uninterrupted execution of a world is the baseline; then for EVERY single
//! (node, round boundary) crash point - and for some multi-crash subsets, and for the mode where
//! every node is reloaded from its store after every transition - the world is re-executed with
//! that node's volatile state dropped and rebuilt from the durable store only (binary or JSON).
//! Every later output of every node must be byte-equal to the baseline.

use std::collections::BTreeMap;

use frost_core::round1::SigningNonces;
use frost_core::{self as frost, SigningPackage};
use serde_json::json;

use crate::dispatch;
use crate::engine::*;
use crate::genr::*;
use crate::prng::stream;
use crate::props::common::*;
use crate::scenario::*;
use crate::sim::{Record, Sim};
use crate::simrng::SimRng;
use crate::suite::*;
use crate::wire::{Fmt, dec, enc};

pub fn prop() -> Prop {
    Prop {
        id: "C13",
        level: "fault_enumeration",
        runs: |t| match t {
            Tier::Quick => 400,
            Tier::Thorough => 5000,
        },
        generate,
        exec,
        shrink: generic_shrink,
        rule: "one evaluation = one re-execution of a world with one crash/restart point (a node, right after it handled one specific message or its local start action), compared output by output with the uninterrupted baseline; per world ALL single crash points are enumerated, plus multi-crash subsets, plus reload-after-every-transition; worlds: key generation, distributed refresh, dealer refresh, signing (plain, re-randomised, Taproot-tweaked), repair; storage format binary or JSON; plus preprocess(k) nonces round-tripped before signing; non-trivial = all crash points of a world done; distinct = (suite, world kind, n, t, wire, crash point) hashed and counted",
        distinct_measure: "hash of (scenario shape, crash point)",
        assumptions: &["a crash happens between transitions (handle -> persist -> send is atomic in the glue)", "no integrity fault on the store: the property promises nothing about damaged state", "randomness is named per (node, instance, call site), so a restart does not shift anybody's random stream"],
        real: &["frost-core (all protocol steps and every serialize/deserialize of persisted state)", "six ciphersuite crates"],
        stub: &["transport", "durable store", "glue", "random source", "crash injector"],
        independent: &[],
        ref_sample: |_| 0,
        required_probes: &["world_dkg", "world_refresh_dkg", "world_refresh_dealer", "world_repair", "world_sign_rerand", "world_sign_tweak", "crash_after_DkgR1", "crash_after_DkgR2", "crash_after_CommitReq", "crash_after_SignReq", "crash_after_start", "crash_hub", "store_json", "store_bin", "always_reload", "multi_crash", "preprocess_roundtrip"],
        prepare: None,
    }
}

pub fn generate(seed: u64, run: u64, tier: Tier) -> Scenario {
    let suite = suite_for_run(run, 6);
    dispatch!(suite, gen_c(seed, run, tier))
}

fn gen_c<C: Suite>(seed: u64, run: u64, _tier: Tier) -> Scenario {
    let mut p = stream(seed, run, "gen");
    let mut s = base_scenario("C13", C::NAME, seed, run);
    let slow = C::COST >= 9;
    let kind = run / 6 % 4; // rotate world kinds independently of the suite rotation
    let max_n = if slow { 3 } else if C::COST >= 3 { 4 } else { 5 };
    let (mut n, mut t) = gen_nt(&mut p, 2, max_n);
    if kind == 3 {
        // repair of an existing participant needs n-1 >= t
        n = n.max(3);
        t = t.min(n - 1).max(2);
    }
    s.n = n;
    s.t = t;
    s.id_scheme = (*p.pick(&ID_SCHEMES)).to_string();
    s.ids_hex = gen_ids::<C>(&mut p, &s.id_scheme, n as usize);
    s.wire = if p.chance(1, 2) { Fmt::Json } else { Fmt::Bin };
    let pool: Vec<usize> = (0..n as usize).collect();
    let sign = |p: &mut crate::prng::Prng, pool: &[usize], mode: SignMode| Inst::Sign { signers: gen_signers(p, pool, t as usize), msg_hex: hexs(&gen_message(p)), mode };
    let mode = |p: &mut crate::prng::Prng| {
        if C::IS_TR && p.chance(1, 2) {
            SignMode::Tweak(if p.chance(1, 2) { None } else { Some(hexs(&p.bytes(32))) })
        } else if p.chance(1, 3) {
            SignMode::Rerand
        } else {
            SignMode::Plain
        }
    };
    match kind {
        0 => {
            s.phases.push(vec![Inst::Dkg]);
            let m = mode(&mut p);
            s.phases.push(vec![sign(&mut p, &pool, m)]);
        }
        1 => {
            s.phases.push(vec![Inst::DealerKeygen { split_key: p.chance(1, 2) }]);
            let mut r = pool.clone();
            p.shuffle(&mut r);
            let keep = p.range(t.max(2) as u64, n as u64) as usize;
            r.truncate(keep);
            s.phases.push(vec![Inst::RefreshDkg { remaining: r.clone() }]);
            r.sort();
            let m = mode(&mut p);
            s.phases.push(vec![sign(&mut p, &r, m)]);
        }
        2 => {
            s.phases.push(vec![if p.chance(1, 3) && n <= 3 { Inst::Dkg } else { Inst::DealerKeygen { split_key: false } }]);
            let mut r = pool.clone();
            p.shuffle(&mut r);
            let keep = p.range(t as u64, n as u64) as usize;
            r.truncate(keep);
            s.phases.push(vec![Inst::RefreshDealer { remaining: r.clone() }]);
            r.sort();
            let m1 = mode(&mut p);
            let m2 = mode(&mut p);
            s.phases.push(vec![sign(&mut p, &r, m1), sign(&mut p, &r, m2)]);
        }
        _ => {
            s.phases.push(vec![Inst::DealerKeygen { split_key: false }]);
            let target = p.below(n as u64) as usize;
            let others: Vec<usize> = pool.iter().filter(|x| **x != target).cloned().collect();
            let hk = p.range(t as u64, others.len() as u64) as usize;
            let mut helpers: Vec<usize> = p.subset(others.len(), hk).into_iter().map(|i| others[i]).collect();
            p.shuffle(&mut helpers);
            s.phases.push(vec![Inst::Repair { target, helpers }]);
            let m = mode(&mut p);
            s.phases.push(vec![sign(&mut p, &pool, m)]);
        }
    }
    s.sched = Sched::Fifo;
    s
}

pub fn exec(scen: &Scenario) -> Exec {
    dispatch!(scen.suite.as_str(), exec_c(scen))
}

fn run_world<C: Suite>(scen: &Scenario, always_reload: bool, rep: &mut RunReport) -> Result<Sim<C>, Violation> {
    let mut sim = Sim::<C>::new(scen).map_err(|e| Violation::new("C13", "harness", e))?;
    sim.always_reload = always_reload;
    run_phases(&mut sim, scen, rep)?;
    Ok(sim)
}

fn diff(base: &BTreeMap<String, Vec<u8>>, other: &BTreeMap<String, Vec<u8>>) -> Option<String> {
    for (k, v) in base {
        match other.get(k) {
            None => return Some(format!("output '{k}' is missing in the resumed execution")),
            Some(o) if o != v => return Some(format!("output '{k}' differs: uninterrupted {} / resumed {}", hexs(&v[..v.len().min(48)]), hexs(&o[..o.len().min(48)]))),
            _ => {}
        }
    }
    for k in other.keys() {
        if !base.contains_key(k) {
            return Some(format!("output '{k}' exists only in the resumed execution"));
        }
    }
    None
}

fn exec_c<C: Suite>(scen: &Scenario) -> Exec {
    let mut rep = new_report(scen);
    let mut base_scen = scen.clone();
    base_scen.faults.clear();
    let mut scratch = RunReport::default();
    let base = match run_world::<C>(&base_scen, false, &mut scratch) {
        Ok(s) => s,
        Err(v) if v.oracle == "harness" => return Exec::Harness(v.detail),
        Err(v) => {
            let o = if v.detail.contains("persist failed") || v.detail.contains("restore failed") { "C13.persisted_state_does_not_encode" } else { "C13.control_failed" };
            return Exec::Violation(Violation::new("C13", o, v.detail), rep);
        }
    };
    rep.steps += scratch.steps;
    rep.delivered += scratch.delivered;
    rep.digest ^= scratch.digest;
    let base_out = base.outputs();
    for r in &base.history {
        if let Record::Session { result: Err(e), inst, .. } = r {
            return Exec::Violation(Violation::new("C13", "C13.control_failed", format!("baseline session {inst} failed: {e:?}")), rep);
        }
    }
    // world kind probes
    for ph in &scen.phases {
        for i in ph {
            match i {
                Inst::Dkg => rep.probe("world_dkg"),
                Inst::RefreshDkg { .. } => rep.probe("world_refresh_dkg"),
                Inst::RefreshDealer { .. } => rep.probe("world_refresh_dealer"),
                Inst::Repair { .. } => rep.probe("world_repair"),
                Inst::Sign { mode: SignMode::Rerand, .. } => rep.probe("world_sign_rerand"),
                Inst::Sign { mode: SignMode::Tweak(_), .. } => rep.probe("world_sign_tweak"),
                _ => {}
            }
        }
    }
    if !C::IS_TR {
        rep.probe("world_sign_tweak");
    }
    rep.probe(if scen.wire == Fmt::Json { "store_json" } else { "store_bin" });
    // crash points: after every handled message (at its receiver) and after every local start
    let mut points: Vec<Fault> = Vec::new();
    for (inst, kind, from, to) in base.sent.keys() {
        points.push(Fault::Crash { node: *to, after: MsgRef { inst: *inst, kind: *kind, from: *from, to: *to }, down_for: 1 + ((*inst as u32 + *from as u32 + *to as u32) % 5) * 3 });
    }
    for inst in 0..scen.inst_count() as u32 {
        let starters: Vec<usize> = match scen.inst(inst).unwrap() {
            Inst::Dkg => (0..scen.n as usize).collect(),
            Inst::RefreshDkg { remaining } => remaining.clone(),
            _ => vec![scen.hub()],
        };
        for node in starters {
            points.push(Fault::CrashAfterStart { node, inst, down_for: 2 });
        }
    }
    let only: Option<String> = scen.extra.get("only").and_then(|o| o.as_str()).map(|s| s.to_string());
    let mut check_twin = |label: String, faults: Vec<Fault>, always_reload: bool, rep: &mut RunReport| -> Option<Exec> {
        let mut s2 = scen.clone();
        s2.faults = faults;
        let mut r2 = RunReport::default();
        rep.evaluations += 1;
        let res = run_world::<C>(&s2, always_reload, &mut r2);
        rep.steps += r2.steps;
        rep.delivered += r2.delivered;
        for (k, v) in &r2.faults_fired {
            *rep.faults_fired.entry(k.clone()).or_default() += v;
        }
        match res {
            Err(v) if v.oracle == "harness" => Some(Exec::Harness(v.detail)),
            Err(v) => Some(Exec::Violation(
                Violation::new("C13", "C13.resumed_execution_failed", format!("crash point [{label}]: {} ({})", v.detail, v.oracle)).narrowed(json!(label)),
                std::mem::take(rep),
            )),
            Ok(sim2) => {
                if !sim2.resend_mismatch.is_empty() {
                    return Some(Exec::Violation(
                        Violation::new("C13", "C13.resumed_output_differs", format!("crash point [{label}]: message {:?} was re-sent with different bytes after the restart", sim2.resend_mismatch[0])).narrowed(json!(label)),
                        std::mem::take(rep),
                    ));
                }
                if let Some(d) = diff(&base_out, &sim2.outputs()) {
                    return Some(Exec::Violation(Violation::new("C13", "C13.resumed_output_differs", format!("crash point [{label}]: {d}")).narrowed(json!(label)), std::mem::take(rep)));
                }
                None
            }
        }
    };
    let label_of = |f: &Fault| match f {
        Fault::Crash { node, after, .. } => format!("node {node} after {:?} i{} {}->{}", after.kind, after.inst, after.from, after.to),
        Fault::CrashAfterStart { node, inst, .. } => format!("node {node} after start of instance {inst}"),
        _ => String::new(),
    };
    let mut done_points = 0;
    for f in &points {
        let label = label_of(f);
        if let Some(o) = &only {
            if *o != label {
                continue;
            }
        }
        match f {
            Fault::Crash { node, after, .. } => {
                rep.probe(&format!("crash_after_{:?}", after.kind));
                if *node == scen.hub() {
                    rep.probe("crash_hub");
                }
            }
            _ => rep.probe("crash_after_start"),
        }
        rep.extra_shapes.push(format!("{}|{label}", rep.shape));
        if let Some(e) = check_twin(label, vec![f.clone()], false, &mut rep) {
            return fixup(e, scen);
        }
        done_points += 1;
    }
    if only.is_none() || only.as_deref() == Some("always_reload") {
        rep.probe("always_reload");
        if let Some(e) = check_twin("always_reload".into(), vec![], true, &mut rep) {
            return fixup(e, scen);
        }
    }
    if only.is_none() && points.len() >= 3 {
        // multi-crash subsets
        let mut mp = stream(scen.seed, scen.run, "c13/multi");
        for k in 0..3 {
            let size = mp.range(2, 5.min(points.len() as u64)) as usize;
            let fs: Vec<Fault> = mp.subset(points.len(), size).into_iter().map(|i| points[i].clone()).collect();
            rep.probe("multi_crash");
            if let Some(e) = check_twin(format!("multi #{k}: {}", fs.iter().map(|f| label_of(f)).collect::<Vec<_>>().join(" + ")), fs, false, &mut rep) {
                // a multi-crash failure is replayed with the same fault list
                return fixup(e, scen);
            }
        }
    }
    // preprocess(k): every pair survives a store round trip and then signs exactly like the in-memory value
    if only.is_none() {
        let kps = current_kps(&base);
        if let Some((_, kp)) = kps.iter().next() {
            let k = 1 + (scen.run % 4) as u8;
            let mut rng = SimRng::good(stream(scen.seed, scen.run, "c13/preprocess"));
            let (nonces, comms) = frost::round1::preprocess::<C, _>(k, kp.signing_share(), &mut rng);
            // a package in which this signer participates with its j-th pair, others with fresh pairs
            let t = scen.t as usize;
            let co: Vec<_> = kps.values().filter(|o| o.identifier() != kp.identifier()).take(t.saturating_sub(1)).cloned().collect();
            if co.len() + 1 >= t {
                for j in 0..k as usize {
                    let mut cm = BTreeMap::new();
                    cm.insert(*kp.identifier(), comms[j]);
                    for (x, o) in co.iter().enumerate() {
                        let mut r2 = SimRng::good(stream(scen.seed, scen.run, &format!("c13/preprocess/co/{j}/{x}")));
                        cm.insert(*o.identifier(), frost::round1::commit::<C, _>(o.signing_share(), &mut r2).1);
                    }
                    let pkg = SigningPackage::<C>::new(cm, b"resume");
                    let mem = frost::round2::sign::<C>(&pkg, &nonces[j], kp);
                    for fmt in [Fmt::Bin, Fmt::Json] {
                        rep.evaluations += 1;
                        let restored: Result<SigningNonces<C>, String> = enc(fmt, &nonces[j]).and_then(|b| dec(fmt, &b));
                        match restored {
                            Err(e) => return Exec::Violation(Violation::new("C13", "C13.persisted_state_does_not_decode", format!("SigningNonces ({fmt:?}) from preprocess({k}) pair {j}: {e}")), rep),
                            Ok(rn) => {
                                let again = frost::round2::sign::<C>(&pkg, &rn, kp);
                                let same = match (&mem, &again) {
                                    (Ok(a), Ok(b)) => a.serialize() == b.serialize(),
                                    _ => false,
                                };
                                if !same {
                                    return Exec::Violation(Violation::new("C13", "C13.resumed_output_differs", format!("preprocess({k}) pair {j} restored from {fmt:?}: sign gives {again:?} instead of {mem:?}")), rep);
                                }
                            }
                        }
                    }
                    // the component-wise route the documentation of from_nonces describes: each nonce stored with Nonce::serialize,
                    // restored with Nonce::deserialize and re-assembled
                    {
                        rep.evaluations += 1;
                        let h = frost::round1::Nonce::<C>::deserialize(&nonces[j].hiding().serialize());
                        let b = frost::round1::Nonce::<C>::deserialize(&nonces[j].binding().serialize());
                        match (h, b) {
                            (Ok(h), Ok(b)) => {
                                let rn = SigningNonces::<C>::from_nonces(h, b);
                                let again = frost::round2::sign::<C>(&pkg, &rn, kp);
                                let same = match (&mem, &again) {
                                    (Ok(a), Ok(b)) => a.serialize() == b.serialize(),
                                    _ => false,
                                };
                                if !same {
                                    return Exec::Violation(Violation::new("C13", "C13.resumed_output_differs", format!("preprocess({k}) pair {j} stored nonce by nonce (Nonce::serialize) and re-assembled with from_nonces: sign gives {again:?} instead of {mem:?}")), rep);
                                }
                            }
                            (h, b) => return Exec::Violation(Violation::new("C13", "C13.persisted_state_does_not_decode", format!("Nonce::deserialize(Nonce::serialize()) fails: {:?} / {:?}", h.err(), b.err())), rep),
                        }
                    }
                    rep.probe("preprocess_roundtrip");
                }
            }
        }
    }
    // state holding STRUCTURED secret scalars (1, q-1, q-2, the highest power of two below q, 2^64-1): stored, restored, and the
    // restored key package / nonces sign exactly like the in-memory ones. (A refresh can legitimately leave a participant with
    // any scalar as its share; random worlds only ever contain "typical" ones.)
    if only.is_none() {
        let kps = current_kps(&base);
        if let Some((_, kp0)) = kps.iter().next() {
            let two = sc_from_u64::<C>(2);
            // 2^252 (32-byte scalars: inside [2^252, q) for the Curve25519 order, a high bit pattern for the 256-bit orders) / 2^445
            let mut top = one::<C>();
            for _ in 0..(if sc_len::<C>() > 40 { 445 } else { 252 }) {
                top = top * two;
            }
            let values = [("1", one::<C>()), ("q-1", neg::<C>(one::<C>())), ("q-2", neg::<C>(two)), ("high power of two", top), ("2^64-1", sc_from_u64::<C>(u64::MAX))];
            for (vname, sv) in values {
                rep.evaluations += 1;
                let share = match frost::keys::SigningShare::<C>::deserialize(&sc_bytes::<C>(&sv)) {
                    Ok(s) => s,
                    Err(e) => return Exec::Violation(Violation::new("C13", "C13.persisted_state_does_not_decode", format!("a signing share with the canonical scalar {vname} cannot be decoded: {e:?}")), rep),
                };
                let vshare = frost::keys::VerifyingShare::<C>::from(share);
                let skp = frost::keys::KeyPackage::<C>::new(*kp0.identifier(), share, vshare, *kp0.verifying_key(), *kp0.min_signers());
                let hn = frost::round1::Nonce::<C>::deserialize(&sc_bytes::<C>(&sv));
                let bn = frost::round1::Nonce::<C>::deserialize(&sc_bytes::<C>(&(sv + sv + one::<C>()))); // never zero for the values above
                let (Ok(hn), Ok(bn)) = (hn, bn) else {
                    return Exec::Violation(Violation::new("C13", "C13.persisted_state_does_not_decode", format!("a nonce with the canonical scalar {vname} cannot be decoded")), rep);
                };
                let nn = SigningNonces::<C>::from_nonces(hn, bn);
                // a package of t signers: this one plus t-1 others with fresh nonces
                let t = scen.t as usize;
                let mut cm = BTreeMap::new();
                cm.insert(*skp.identifier(), *nn.commitments());
                for (x, o) in kps.values().filter(|o| o.identifier() != skp.identifier()).take(t.saturating_sub(1)).enumerate() {
                    let mut r2 = SimRng::good(stream(scen.seed, scen.run, &format!("c13/structured/co/{x}")));
                    cm.insert(*o.identifier(), frost::round1::commit::<C, _>(o.signing_share(), &mut r2).1);
                }
                if cm.len() < (t as usize) {
                    break;
                }
                let pkg = SigningPackage::<C>::new(cm, b"structured state");
                let mem = frost::round2::sign::<C>(&pkg, &nn, &skp);
                for fmt in [Fmt::Bin, Fmt::Json] {
                    rep.evaluations += 1;
                    let rkp: Result<frost::keys::KeyPackage<C>, String> = enc(fmt, &skp).and_then(|b| dec(fmt, &b));
                    let rnn: Result<SigningNonces<C>, String> = enc(fmt, &nn).and_then(|b| dec(fmt, &b));
                    match (rkp, rnn) {
                        (Ok(rkp), Ok(rnn)) => {
                            let again = frost::round2::sign::<C>(&pkg, &rnn, &rkp);
                            let same = match (&mem, &again) {
                                (Ok(a), Ok(b)) => a.serialize() == b.serialize(),
                                (Err(_), Err(_)) => true,
                                _ => false,
                            };
                            if !same || rkp != skp {
                                return Exec::Violation(Violation::new("C13", "C13.resumed_output_differs", format!("state with secret scalars {vname} restored from {fmt:?}: sign gives {again:?} instead of {mem:?}")), rep);
                            }
                        }
                        (a, b) => {
                            return Exec::Violation(Violation::new("C13", "C13.persisted_state_does_not_decode", format!("state with secret scalars {vname} ({fmt:?}) cannot be restored: key package {:?}, nonces {:?}", a.err(), b.err())), rep);
                        }
                    }
                }
                rep.probe("structured_state_roundtrip");
            }
        }
    }
    rep.probe_n("crash_points", done_points);
    rep.nontrivial = done_points > 0;
    rep.sample = Some(json!({"suite": scen.suite, "n": scen.n, "t": scen.t, "wire": format!("{:?}", scen.wire), "phases": scen.phases, "crash_points": points.len(), "example_point": points.first().map(|f| label_of(f))}));
    Exec::Ok(rep)
}

fn fixup(e: Exec, _scen: &Scenario) -> Exec {
    e
}
