//! C05 — a signature share is bound to one message, one commitment set and one signer set.
//! World: keys + two concurrent sessions A, B of the same signers (different message and nonces)
//! run through the simulated network. Faults: slot-replay between the sessions (every filling of
//! A's slots with material from A or B), single-field substitutions in the signing package,
//! signer handed the wrong nonces, identity commitments.

use std::collections::BTreeMap;

use frost_core::keys::PublicKeyPackage;
use frost_core::round1::{Nonce, NonceCommitment, SigningCommitments, SigningNonces};
use frost_core::round2::SignatureShare;
use frost_core::{self as frost, Identifier, SigningPackage};
use serde_json::json;

use crate::dispatch;
use crate::engine::*;
use crate::genr::*;
use crate::prng::stream;
use crate::props::c04::effective_pk;
use crate::props::common::*;
use crate::scenario::*;
use crate::sim::Record;
use crate::simrng::SimRng;
use crate::suite::*;

pub fn prop() -> Prop {
    Prop {
        id: "C05",
        level: "fault_enumeration",
        runs: |t| match t {
            Tier::Quick => 1500,
            Tier::Thorough => 20000,
        },
        generate,
        exec,
        shrink: |s| {
            let mut g = generic_shrink(s);
            g.retain(|c| c.phases.len() == s.phases.len() && c.phases[1].len() == 2);
            g
        },
        rule: "one evaluation = one aggregate / verify_signature_share / sign call on a cross-session slot filling (all 2^|S| fillings for |S| <= 5, sampled above) or on a single-field substitution (message, one hiding/binding commitment, participant added/removed/renamed, group key, verifying share, claimed identifier), or on a wrong-nonce / identity-commitment package; non-trivial = fillings evaluated; distinct = (suite, n, t, |S|, ids, wire, tweak) x substitution kinds hashed and counted",
        distinct_measure: "hash of (scenario shape, filling mask or substitution kind)",
        assumptions: &["each substitution is applied only when it really changes the value", "seeded sampling over worlds; enumeration over slot fillings within a world"],
        real: &["frost-core", "six ciphersuite crates"],
        stub: &["transport", "store", "glue", "random source", "replaying / substituting adversary"],
        independent: &[],
        ref_sample: |_| 0,
        required_probes: &["refusals_through_other_entry_points", "fillings_exhaustive", "sub_message", "sub_hiding_own", "sub_binding_other", "sub_add_participant", "sub_remove_participant", "sub_rename_participant", "sub_group_key", "sub_claimed_identifier", "sub_R_preserving", "sub_share_filed_under_other_identifier", "own_entry_swapped_with_another_signer", "wrong_nonces_refused", "missing_entry_refused", "identity_commitment_rejected"],
        prepare: None,
    }
}

pub fn generate(seed: u64, run: u64, tier: Tier) -> Scenario {
    let suite = suite_for_run(run, 6);
    dispatch!(suite, gen_c(seed, run, tier))
}

fn gen_c<C: Suite>(seed: u64, run: u64, _tier: Tier) -> Scenario {
    let mut p = stream(seed, run, "gen");
    let mut s = base_scenario("C05", C::NAME, seed, run);
    let slow = C::COST >= 9;
    let max_n = if slow { 4 } else { 7 };
    let (mut n, mut t) = gen_nt(&mut p, 2, max_n);
    if let Some((wn, wt)) = maybe_wide::<C>(&mut p, 14) {
        n = wn;
        t = wt;
    }
    s.n = n;
    s.t = t;
    s.id_scheme = (*p.pick(&ID_SCHEMES)).to_string();
    s.ids_hex = gen_ids::<C>(&mut p, &s.id_scheme, n as usize);
    s.wire = gen_wire(&mut p);
    s.phases.push(vec![if p.chance(1, 4) && n <= 4 { Inst::Dkg } else { Inst::DealerKeygen { split_key: p.chance(1, 2) } }]);
    let pool: Vec<usize> = (0..n as usize).collect();
    let signers = gen_signers(&mut p, &pool, t as usize);
    let mode = if C::IS_TR && p.chance(1, 2) { SignMode::Tweak(if p.chance(1, 2) { None } else { Some(hexs(&p.bytes(32))) }) } else { SignMode::Plain };
    let m1 = gen_message(&mut p);
    // B: other message, or the same message with other nonces
    let m2 = if p.chance(1, 4) { m1.clone() } else { gen_message(&mut p) };
    s.phases.push(vec![
        Inst::Sign { signers: signers.clone(), msg_hex: hexs(&m1), mode: mode.clone() },
        Inst::Sign { signers, msg_hex: hexs(&m2), mode },
    ]);
    s.sched = Sched::Random;
    let mut fp = stream(seed, run, "faults");
    s.faults = gen_honest_faults(&mut fp, &s, p.range(0, 3) as usize, 0b00111);
    s
}

pub fn exec(scen: &Scenario) -> Exec {
    dispatch!(scen.suite.as_str(), exec_c(scen))
}

struct Sess<C: Suite> {
    package: SigningPackage<C>,
    shares: BTreeMap<Identifier<C>, SignatureShare<C>>,
    pk: PublicKeyPackage<C>,
    nonces: BTreeMap<Identifier<C>, SigningNonces<C>>,
}

thread_local! {
    /// Taproot-tweaked sessions: (raw public key package in its binary encoding, merkle root, encoding of the session's effective
    /// = tweaked package) so that `all_reject` can offer the same inputs to `aggregate_with_tweak`, which derives the tweaked
    /// package itself - only when the case at hand uses the session's own package (cases that alter the package are skipped).
    static TWEAK_CTX: std::cell::RefCell<Option<(Vec<u8>, Option<Vec<u8>>, Vec<u8>)>> = const { std::cell::RefCell::new(None) };
}

fn all_reject<C: Suite>(
    rep: &mut RunReport,
    what: &str,
    pkg: &SigningPackage<C>,
    shares: &BTreeMap<Identifier<C>, SignatureShare<C>>,
    pk: &PublicKeyPackage<C>,
) -> Option<Violation> {
    let mut results = aggregate_all::<C>(pkg, shares, pk);
    if let Some((raw, root, effective)) = TWEAK_CTX.with(|c| c.borrow().clone()) {
        if pk.serialize().ok().as_deref() != Some(&effective[..]) {
            // the case replaced or altered the public key package: the raw package does not correspond to it
        } else if let Ok(raw_pk) = PublicKeyPackage::<C>::deserialize(&raw) {
            results.push(("aggregate_with_tweak", C::aggregate_with_tweak(pkg, shares, &raw_pk, root.as_deref())));
            rep.probe("all_reject_with_tweak_entry_point");
        }
    }
    for (mname, r) in results {
        rep.evaluations += 1;
        if let Ok(sig) = r {
            let valid = pk.verifying_key().verify(pkg.message(), &sig).is_ok();
            return Some(Violation::new("C05", "C05.substitution_accepted_by_aggregate", format!("{what}: {mname} returned Ok (signature verifies: {valid})")));
        }
    }
    None
}

fn exec_c<C: Suite>(scen: &Scenario) -> Exec {
    let mut rep = new_report(scen);
    let sim = match run_honest::<C>(scen, &mut rep) {
        Ok(s) => s,
        Err(v) if v.oracle == "harness" => return Exec::Harness(v.detail),
        Err(v) => return Exec::Violation(Violation::new("C05", "C05.control_failed", v.detail), rep),
    };
    let mut sess: Vec<(u32, Sess<C>)> = Vec::new();
    for rec in &sim.history {
        if let Record::Session { inst, package, shares, pk, result, .. } = rec {
            if result.is_err() {
                return Exec::Violation(Violation::new("C05", "C05.control_failed", format!("fault-free session {inst} failed")), rep);
            }
            let mode = match scen.inst(*inst) {
                Some(Inst::Sign { mode, .. }) => mode.clone(),
                _ => SignMode::Plain,
            };
            let mut nonces = BTreeMap::new();
            for r in &sim.history {
                if let Record::Commit { node, inst: i, nonces: nn, .. } = r {
                    if i == inst {
                        nonces.insert(sim.ids[*node], nn.clone());
                    }
                }
            }
            sess.push((*inst, Sess { package: package.clone(), shares: shares.clone(), pk: effective_pk::<C>(pk, &mode), nonces }));
        }
    }
    if sess.len() != 2 {
        return Exec::Harness("C05 needs two sessions".into());
    }
    sess.sort_by_key(|s| s.0);
    let mode = match scen.inst(sess[0].0) {
        Some(Inst::Sign { mode, .. }) => mode.clone(),
        _ => SignMode::Plain,
    };
    let a = &sess[0].1;
    let b = &sess[1].1;
    // the raw (untweaked) package of session A for the tweak entry point
    TWEAK_CTX.with(|c| {
        *c.borrow_mut() = match &mode {
            SignMode::Tweak(root) => sim.history.iter().find_map(|r| match r {
                Record::Session { inst, pk, .. } if *inst == sess[0].0 => pk.serialize().ok().map(|b| (b, crate::tr::root_bytes(root.as_deref()), a.pk.serialize().unwrap_or_default())),
                _ => None,
            }),
            _ => None,
        }
    });
    let ids: Vec<Identifier<C>> = a.shares.keys().cloned().collect();
    let k = ids.len();
    let vk = *a.pk.verifying_key();
    let kps = current_kps(&sim);
    let kp_of = |id: &Identifier<C>| {
        let node = node_of(&sim, id).unwrap();
        let kp = kps[&node].clone();
        match &mode {
            SignMode::Tweak(root) => {
                let r = crate::tr::root_bytes(root.as_deref());
                C::tweak_kp(kp, r.as_deref())
            }
            _ => kp,
        }
    };
    let viol = |o: &str, d: String| Violation::new("C05", o, d);

    // ---- 1. every way of filling A's slots with the share from A or from B ---------------------
    let mut masks: Vec<u32> = Vec::new();
    if k <= 5 {
        masks.extend(0..(1u32 << k));
        rep.probe("fillings_exhaustive");
    } else {
        let mut mp = stream(scen.seed, scen.run, "c05/masks");
        masks.push(0);
        masks.push((1 << k) - 1);
        for i in 0..k {
            masks.push(1 << i);
        }
        for _ in 0..12 {
            masks.push(mp.below(1 << k) as u32);
        }
    }
    for mask in &masks {
        let mut filled = BTreeMap::new();
        for (i, id) in ids.iter().enumerate() {
            let z = if mask & (1 << i) != 0 { b.shares[id] } else { a.shares[id] };
            filled.insert(*id, z);
        }
        // B's share for a slot always differs from A's (different nonces); guard the oracle anyway
        let from_a: Vec<bool> = ids.iter().map(|id| filled[id].serialize() == a.shares[id].serialize()).collect();
        let all_a = from_a.iter().all(|x| *x);
        for (mname, r) in aggregate_all::<C>(&a.package, &filled, &a.pk) {
            rep.evaluations += 1;
            if r.is_ok() != all_a {
                return Exec::Violation(viol("C05.cross_session_filling", format!("filling mask {mask:#b} of {k} slots (bit set = share from session B): {mname} returned {}", if r.is_ok() { "Ok" } else { "Err" })), rep);
            }
        }
        for (i, id) in ids.iter().enumerate() {
            let r = frost::verify_signature_share(*id, &a.pk.verifying_shares()[id], &filled[id], &a.package, &vk);
            rep.evaluations += 1;
            if r.is_ok() != from_a[i] {
                return Exec::Violation(viol("C05.cross_session_share_verification", format!("slot {i} filled from session {}: verify_signature_share = {r:?}", if from_a[i] { "A" } else { "B" })), rep);
            }
        }
        rep.extra_shapes.push(format!("{}|m{mask}", rep.shape));
    }

    // ---- 2. single-field substitutions on the package the verifier sees ------------------------
    let mut sp = stream(scen.seed, scen.run, "c05/subs");
    let share_check = |rep: &mut RunReport, what: &str, pkg: &SigningPackage<C>, vkey: &frost::VerifyingKey<C>, which: &[Identifier<C>]| -> Option<Violation> {
        for id in which {
            let vs = &a.pk.verifying_shares()[id];
            rep.evaluations += 1;
            if frost::verify_signature_share(*id, vs, &a.shares[id], pkg, vkey).is_ok() {
                return Some(Violation::new("C05", "C05.substitution_accepted_by_share_verification", format!("{what}: share of {} still verifies", hexs(&id.serialize()))));
            }
        }
        None
    };
    // message
    {
        let mut m2 = a.package.message().clone();
        if b.package.message() != a.package.message() && sp.chance(1, 2) {
            m2 = b.package.message().clone();
        } else if m2.is_empty() {
            m2.push(0);
        } else {
            let i = sp.below(m2.len() as u64) as usize;
            m2[i] ^= 1 << sp.below(8);
        }
        let pkg = SigningPackage::<C>::new(a.package.signing_commitments().clone(), &m2);
        rep.probe("sub_message");
        if let Some(v) = share_check(&mut rep, "message replaced", &pkg, &vk, &ids) {
            return Exec::Violation(v, rep);
        }
        if let Some(v) = all_reject(&mut rep, "message replaced", &pkg, &a.shares, &a.pk) {
            return Exec::Violation(v, rep);
        }
    }
    // one participant's hiding or binding commitment (taken from session B of the same signer)
    for (field, who) in [("hiding", 0usize), ("binding", 0), ("hiding", k - 1), ("binding", k - 1)] {
        let target = ids[who];
        let mut cm = a.package.signing_commitments().clone();
        let old = cm[&target];
        let bc = b.package.signing_commitments()[&target];
        let new = if field == "hiding" { SigningCommitments::<C>::new(*bc.hiding(), *old.binding()) } else { SigningCommitments::<C>::new(*old.hiding(), *bc.binding()) };
        if new == old {
            continue;
        }
        cm.insert(target, new);
        let pkg = SigningPackage::<C>::new(cm, a.package.message());
        let what = format!("{field} commitment of signer #{who} replaced by the one from session B");
        // the check below looks at EVERY signer's share: "own" = the altered signer, "other" = the rest
        rep.probe(&format!("sub_{field}_own"));
        if k > 1 {
            rep.probe(&format!("sub_{field}_other"));
        }
        if let Some(v) = share_check(&mut rep, &what, &pkg, &vk, &ids) {
            return Exec::Violation(v, rep);
        }
        if let Some(v) = all_reject(&mut rep, &what, &pkg, &a.shares, &a.pk) {
            return Exec::Violation(v, rep);
        }
    }
    // a crafted substitution that keeps D + rho*E (hence the group commitment and the challenge) unchanged under the OLD
    // binding factor: it is rejected only because the binding factors cover every commitment of every signer.
    // (`internals` is used to CONSTRUCT the adversarial input; the verdict is accept / reject through the public API.)
    {
        let npk = C::normalised_pk(a.pk.clone());
        if !crate::diag::AVAILABLE {
            rep.probe("sub_R_preserving");
            rep.probe("diag_unavailable");
        }
        if let Some((bfl, _)) = crate::diag::binding::<C>(&a.package, npk.verifying_key()) {
            let mut targets = vec![0usize, k - 1];
            if k >= 3 {
                targets.push(k / 2);
            }
            targets.dedup();
            for who in targets {
                let target = ids[who];
                let Some(rho) = bfl.get(&target).and_then(|b| sc_from_bytes::<C>(b)) else { continue };
                let old = a.package.signing_commitments()[&target];
                let d = el_from_bytes::<C>(&old.hiding().serialize().unwrap_or_default());
                let e = el_from_bytes::<C>(&old.binding().serialize().unwrap_or_default());
                let (Some(d), Some(e)) = (d, e) else { continue };
                let shift = sc_random_nonzero::<C>(&mut sp);
                let e2 = e + base::<C>(shift);
                let d2 = d - base::<C>(rho * shift);
                let (Some(eb), Some(db)) = (el_bytes::<C>(&e2), el_bytes::<C>(&d2)) else { continue };
                let (Ok(h2), Ok(b2)) = (NonceCommitment::<C>::deserialize(&db), NonceCommitment::<C>::deserialize(&eb)) else { continue };
                let mut cm = a.package.signing_commitments().clone();
                cm.insert(target, SigningCommitments::<C>::new(h2, b2));
                let pkg = SigningPackage::<C>::new(cm, a.package.message());
                let what = format!("commitments of signer #{who} of {k} replaced by (D - rho*s*G, E + s*G), which preserves D + rho*E under the old binding factor");
                rep.probe("sub_R_preserving");
                if let Some(v) = share_check(&mut rep, &what, &pkg, &vk, &ids) {
                    return Exec::Violation(v, rep);
                }
                if let Some(v) = all_reject(&mut rep, &what, &pkg, &a.shares, &a.pk) {
                    return Exec::Violation(v, rep);
                }
            }
        }
    }
    // participant set: add / remove / rename
    let non_signers: Vec<usize> = (0..scen.n as usize).filter(|p| !ids.contains(&sim.ids[*p])).collect();
    if let Some(ns) = non_signers.first() {
        let extra_kp = kps[ns].clone();
        let mut rng = SimRng::good(stream(scen.seed, scen.run, "c05/extra"));
        let (_en, ec) = frost::round1::commit::<C, _>(extra_kp.signing_share(), &mut rng);
        // add
        let mut cm = a.package.signing_commitments().clone();
        cm.insert(sim.ids[*ns], ec);
        let pkg = SigningPackage::<C>::new(cm, a.package.message());
        rep.probe("sub_add_participant");
        if let Some(v) = share_check(&mut rep, "participant added to the package", &pkg, &vk, &ids) {
            return Exec::Violation(v, rep);
        }
        // rename: the first signer's commitments filed under the outsider's identifier
        let mut cm = a.package.signing_commitments().clone();
        let moved = cm.remove(&ids[0]).unwrap();
        cm.insert(sim.ids[*ns], moved);
        let pkg = SigningPackage::<C>::new(cm, a.package.message());
        rep.probe("sub_rename_participant");
        if let Some(v) = share_check(&mut rep, "participant renamed in the package", &pkg, &vk, &ids[1..]) {
            return Exec::Violation(v, rep);
        }
        let mut sh = a.shares.clone();
        let z = sh.remove(&ids[0]).unwrap();
        sh.insert(sim.ids[*ns], z);
        if let Some(v) = all_reject(&mut rep, "participant renamed in package and share map", &pkg, &sh, &a.pk) {
            return Exec::Violation(v, rep);
        }
    } else {
        rep.probe("no_non_signer");
    }
    if k >= 2 {
        let mut cm = a.package.signing_commitments().clone();
        cm.remove(&ids[k - 1]);
        let pkg = SigningPackage::<C>::new(cm, a.package.message());
        rep.probe("sub_remove_participant");
        if let Some(v) = share_check(&mut rep, "participant removed from the package", &pkg, &vk, &ids[..k - 1]) {
            return Exec::Violation(v, rep);
        }
        let mut sh = a.shares.clone();
        sh.remove(&ids[k - 1]);
        // below the threshold the refusal is C03's; either way it must not be accepted
        if let Some(v) = all_reject(&mut rep, "participant removed from package and share map", &pkg, &sh, &a.pk) {
            return Exec::Violation(v, rep);
        }
    }
    // claimed identifier replaced in the SHARE MAP only (package intact): filed under a non-signing group member, and under
    // an identifier outside the group. The sum of the shares is unchanged, so only the identifier check can refuse it.
    {
        let mut outside: Vec<(String, Identifier<C>)> = Vec::new();
        if let Some(ns) = non_signers.first() {
            outside.push(("a non-signing group member".into(), sim.ids[*ns]));
        }
        if let Some(o) = id_from_scalar::<C>(&(id_scalar::<C>(ids.last().unwrap()) + sc_from_u64::<C>(424242))) {
            if !sim.ids.contains(&o) {
                outside.push(("an identifier outside the group".into(), o));
            }
        }
        for (what, oid) in outside {
            for who in [0usize, k - 1] {
                let mut sh = a.shares.clone();
                let z = sh.remove(&ids[who]).unwrap();
                sh.insert(oid, z);
                rep.probe("sub_share_filed_under_other_identifier");
                if let Some(v) = all_reject(&mut rep, &format!("share of signer #{who} filed under {what} (package unchanged)"), &a.package, &sh, &a.pk) {
                    return Exec::Violation(v, rep);
                }
            }
        }
    }
    // group key: another group's key, and a re-randomised key
    {
        let r = sc_random_nonzero::<C>(&mut sp);
        let other = vkey_from_element::<C>(&base::<C>(r)).unwrap();
        let shifted = vkey_from_element::<C>(&(vkey_element::<C>(&vk) + base::<C>(r))).unwrap();
        rep.probe("sub_group_key");
        for (what, key) in [("group key replaced by another group's", other), ("group key replaced by a re-randomised key", shifted)] {
            if let Some(v) = share_check(&mut rep, what, &a.package, &key, &ids) {
                return Exec::Violation(v, rep);
            }
            let pk2 = PublicKeyPackage::<C>::new(a.pk.verifying_shares().clone(), key, a.pk.min_signers());
            if let Some(v) = all_reject(&mut rep, what, &a.package, &a.shares, &pk2) {
                return Exec::Violation(v, rep);
            }
        }
        // verifying share of another signer
        if k >= 2 {
            rep.evaluations += 1;
            if frost::verify_signature_share(ids[0], &a.pk.verifying_shares()[&ids[1]], &a.shares[&ids[0]], &a.package, &vk).is_ok() {
                return Exec::Violation(viol("C05.substitution_accepted_by_share_verification", "share verifies under another signer's verifying share".into()), rep);
            }
            rep.probe("sub_verifying_share");
        }
    }
    // claimed identifier
    if k >= 2 {
        rep.probe("sub_claimed_identifier");
        for vs_of in [0usize, 1] {
            rep.evaluations += 1;
            if frost::verify_signature_share(ids[1], &a.pk.verifying_shares()[&ids[vs_of]], &a.shares[&ids[0]], &a.package, &vk).is_ok() {
                return Exec::Violation(viol("C05.substitution_accepted_by_share_verification", "share verifies under another claimed identifier".into()), rep);
            }
        }
        // swapped slots in the share map
        let mut sh = a.shares.clone();
        let (z0, z1) = (sh[&ids[0]], sh[&ids[1]]);
        sh.insert(ids[0], z1);
        sh.insert(ids[1], z0);
        if z0.serialize() != z1.serialize() {
            // sum unchanged: aggregate may legitimately return the (valid) signature; it must never return an invalid one
            for (mname, r) in aggregate_all::<C>(&a.package, &sh, &a.pk) {
                rep.evaluations += 1;
                if let Ok(sig) = r {
                    if a.pk.verifying_key().verify(a.package.message(), &sig).is_err() {
                        return Exec::Violation(viol("C05.substitution_accepted_by_aggregate", format!("swapped slots: {mname} returned an invalid signature")), rep);
                    }
                }
            }
        }
    }

    // ---- 3. signer side -----------------------------------------------------------------------
    {
        let me = ids[sp.below(k as u64) as usize];
        let kp = kp_of(&me);
        let plain_kp = kps[&node_of(&sim, &me).unwrap()].clone();
        let sign = |pkg: &SigningPackage<C>, nn: &SigningNonces<C>| match &mode {
            SignMode::Tweak(root) => crate::tr::sign_with_tweak::<C>(pkg, nn, &plain_kp, root.as_deref()),
            _ => frost::round2::sign::<C>(pkg, nn, &plain_kp),
        };
        let _ = &kp;
        // control: the right nonces with the right package give the recorded share
        rep.evaluations += 1;
        match sign(&a.package, &a.nonces[&me]) {
            Ok(z) if z.serialize() == a.shares[&me].serialize() => {}
            other => return Exec::Violation(viol("C05.control_failed", format!("re-signing with the session's own nonces gave {other:?}")), rep),
        }
        // every package the signer must refuse is kept, and offered once more through the other signing entry points below
        let mut bad: Vec<(String, SigningPackage<C>, bool)> = vec![("nonces of session B with package A".into(), a.package.clone(), true)];
        // nonces of B with package A
        rep.evaluations += 1;
        if sign(&a.package, &b.nonces[&me]).is_ok() {
            return Exec::Violation(viol("C05.signer_accepted_wrong_nonces", "sign() accepted nonces of session B with package A".into()), rep);
        }
        rep.probe("wrong_nonces_refused");
        // own entry with hiding/binding swapped
        let own = a.package.signing_commitments()[&me];
        if own.hiding() != own.binding() {
            let mut cm = a.package.signing_commitments().clone();
            cm.insert(me, SigningCommitments::<C>::new(*own.binding(), *own.hiding()));
            let pkg = SigningPackage::<C>::new(cm, a.package.message());
            rep.evaluations += 1;
            bad.push(("own entry with hiding and binding swapped".into(), pkg.clone(), false));
            if sign(&pkg, &a.nonces[&me]).is_ok() {
                return Exec::Violation(viol("C05.signer_accepted_wrong_nonces", "sign() accepted a package whose own entry has hiding and binding swapped".into()), rep);
            }
        }
        // own entry differing in one component only (from B)
        for field in ["hiding", "binding"] {
            let bc = b.package.signing_commitments()[&me];
            let new = if field == "hiding" { SigningCommitments::<C>::new(*bc.hiding(), *own.binding()) } else { SigningCommitments::<C>::new(*own.hiding(), *bc.binding()) };
            let mut cm = a.package.signing_commitments().clone();
            cm.insert(me, new);
            let pkg = SigningPackage::<C>::new(cm, a.package.message());
            rep.evaluations += 1;
            bad.push((format!("own {field} commitment taken from session B"), pkg.clone(), false));
            if sign(&pkg, &a.nonces[&me]).is_ok() {
                return Exec::Violation(viol("C05.signer_accepted_wrong_nonces", format!("sign() accepted a package whose own {field} commitment differs from the nonces'")), rep);
            }
        }
        // mis-filed package: the signer's own pair sits under ANOTHER signer's identifier and its own slot holds that signer's pair
        if k >= 2 {
            let other = *ids.iter().find(|i| **i != me).unwrap();
            let mut cm = a.package.signing_commitments().clone();
            let mine = cm[&me];
            let theirs = cm[&other];
            if mine != theirs {
                cm.insert(me, theirs);
                cm.insert(other, mine);
                let pkg = SigningPackage::<C>::new(cm, a.package.message());
                rep.evaluations += 1;
                rep.probe("own_entry_swapped_with_another_signer");
                bad.push(("own commitments filed under another signer, own slot holds that signer's".into(), pkg.clone(), false));
                if sign(&pkg, &a.nonces[&me]).is_ok() {
                    return Exec::Violation(viol("C05.signer_accepted_wrong_nonces", "sign() accepted a package in which its own commitments are filed under another signer's identifier and its own slot holds that signer's commitments".into()), rep);
                }
            }
            // own slot holds the session-B entry while the session-A entry sits in another signer's slot
            let mut cm = a.package.signing_commitments().clone();
            let mine_b = b.package.signing_commitments()[&me];
            if mine_b != mine {
                cm.insert(me, mine_b);
                cm.insert(other, mine);
                let pkg = SigningPackage::<C>::new(cm, a.package.message());
                rep.evaluations += 1;
                bad.push(("own slot holds the session-B entry, the session-A entry sits in another slot".into(), pkg.clone(), false));
                if sign(&pkg, &a.nonces[&me]).is_ok() {
                    return Exec::Violation(viol("C05.signer_accepted_wrong_nonces", "sign() accepted a package whose own slot holds the session-B entry while the session-A entry sits in another signer's slot".into()), rep);
                }
            }
        }
        // own entry missing (replaced by an outsider's so the count stays >= t when possible)
        let mut cm = a.package.signing_commitments().clone();
        let moved = cm.remove(&me).unwrap();
        if let Some(ns) = non_signers.first() {
            cm.insert(sim.ids[*ns], moved);
        }
        if cm.len() >= scen.t as usize {
            rep.probe("missing_entry_at_full_count");
        }
        let pkg = SigningPackage::<C>::new(cm, a.package.message());
        rep.evaluations += 1;
        if sign(&pkg, &a.nonces[&me]).is_ok() {
            return Exec::Violation(viol("C05.signer_signed_without_own_entry", "sign() produced a share although the signer's entry is missing".into()), rep);
        }
        rep.probe("missing_entry_refused");
        bad.push(("own entry missing".into(), pkg.clone(), false));
        // the same refusals through every other entry point a signer can be asked to sign with: the ciphersuite crate's own
        // `round2::sign`, re-randomised signing (seed and explicit randomiser), Taproot signing with a tweak
        {
            let seed = sp.bytes(32);
            let rz = frost_rerandomized::Randomizer::<C>::from_scalar(sc_random_nonzero::<C>(&mut sp));
            type SignFn<'x, C> = Box<dyn Fn(&SigningPackage<C>, &SigningNonces<C>) -> Result<frost::round2::SignatureShare<C>, frost::Error<C>> + 'x>;
            let mut entry_points: Vec<(&str, SignFn<C>)> = vec![
                ("suite crate round2::sign", Box::new(|p, nn| C::w_sign(p, nn, &plain_kp))),
                ("sign_with_randomizer_seed", Box::new(|p, nn| frost_rerandomized::sign_with_randomizer_seed(p, nn, &plain_kp, &seed))),
                #[allow(deprecated)]
                ("frost_rerandomized::sign", Box::new(|p, nn| frost_rerandomized::sign(p, nn, &plain_kp, rz))),
            ];
            if C::IS_TR {
                entry_points.push(("sign_with_tweak(None)", Box::new(|p, nn| C::sign_with_tweak(p, nn, &plain_kp, None))));
                entry_points.push(("sign_with_tweak(root)", Box::new(|p, nn| C::sign_with_tweak(p, nn, &plain_kp, Some(&[7u8; 32])))));
            }
            for (ename, f) in &entry_points {
                rep.evaluations += 1;
                if let Err(e) = f(&a.package, &a.nonces[&me]) {
                    return Exec::Violation(viol("C05.control_failed", format!("{ename} refuses the session's own package and nonces: {e:?}")), rep);
                }
                for (what, pkg, use_b) in &bad {
                    rep.evaluations += 1;
                    let nn = if *use_b { &b.nonces[&me] } else { &a.nonces[&me] };
                    if f(pkg, nn).is_ok() {
                        return Exec::Violation(viol("C05.signer_accepted_wrong_nonces", format!("{ename} produced a share for a package it must refuse: {what}")), rep);
                    }
                }
                rep.probe("refusals_through_other_entry_points");
            }
        }

        // ---- 4. identity commitment (built publicly from a zero nonce) -------------------------
        let zero_nonce = match Nonce::<C>::deserialize(&sc_bytes::<C>(&zero::<C>())) {
            Ok(z) => z,
            Err(e) => return Exec::Harness(format!("cannot build zero nonce: {e:?}")),
        };
        let idc = NonceCommitment::<C>::from(&zero_nonce);
        let victim = ids[sp.below(k as u64) as usize];
        for field in ["hiding", "binding"] {
            let old = a.package.signing_commitments()[&victim];
            let new = if field == "hiding" { SigningCommitments::<C>::new(idc, *old.binding()) } else { SigningCommitments::<C>::new(*old.hiding(), idc) };
            let mut cm = a.package.signing_commitments().clone();
            cm.insert(victim, new);
            let pkg = SigningPackage::<C>::new(cm, a.package.message());
            // a signer other than the victim (its own entry is intact), or the victim with matching nonces
            let signer = ids.iter().find(|i| **i != victim).cloned();
            if let Some(s_id) = signer {
                let skp = kps[&node_of(&sim, &s_id).unwrap()].clone();
                let r = match &mode {
                    SignMode::Tweak(root) => crate::tr::sign_with_tweak::<C>(&pkg, &a.nonces[&s_id], &skp, root.as_deref()),
                    _ => frost::round2::sign::<C>(&pkg, &a.nonces[&s_id], &skp),
                };
                rep.evaluations += 1;
                if r.is_ok() {
                    return Exec::Violation(viol("C05.identity_commitment_accepted", format!("sign() accepted a package with an identity {field} commitment")), rep);
                }
            }
            // the victim itself, holding nonces that match the identity entry
            {
                let vn = &a.nonces[&victim];
                let forged = if field == "hiding" { SigningNonces::<C>::from_nonces(zero_nonce, *vn.binding()) } else { SigningNonces::<C>::from_nonces(*vn.hiding(), zero_nonce) };
                let vkp = kps[&node_of(&sim, &victim).unwrap()].clone();
                let r = match &mode {
                    SignMode::Tweak(root) => crate::tr::sign_with_tweak::<C>(&pkg, &forged, &vkp, root.as_deref()),
                    _ => frost::round2::sign::<C>(&pkg, &forged, &vkp),
                };
                rep.evaluations += 1;
                if r.is_ok() {
                    return Exec::Violation(viol("C05.identity_commitment_accepted", format!("sign() with a zero {field} nonce produced a share")), rep);
                }
            }
            for id in &ids {
                rep.evaluations += 1;
                if frost::verify_signature_share(*id, &a.pk.verifying_shares()[id], &a.shares[id], &pkg, &vk).is_ok() {
                    return Exec::Violation(viol("C05.identity_commitment_accepted", format!("verify_signature_share accepted a package with an identity {field} commitment")), rep);
                }
            }
            if let Some(v) = all_reject(&mut rep, &format!("identity {field} commitment"), &pkg, &a.shares, &a.pk) {
                return Exec::Violation(Violation::new("C05", "C05.identity_commitment_accepted", v.detail), rep);
            }
            rep.probe("identity_commitment_rejected");
        }
    }
    rep.nontrivial = true;
    rep.sample = Some(json!({"suite": scen.suite, "n": scen.n, "t": scen.t, "signers": k, "fillings": masks.len(), "mode": format!("{mode:?}")}));
    Exec::Ok(rep)
}
