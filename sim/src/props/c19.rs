//! C19 — batch verification accepts exactly the batches whose every item verifies.
//! World: a verifier node that receives published signatures from many signing worlds (one FROST
//! deployment run through the simulated network plus many single-signer keys) and verifies them in
//! batches on its own simulated random source. Faults: Byzantine items (wrong message, wrong key,
//! altered response, altered commitment, complementary altered pairs) at enumerated positions, and
//! several verifier RNG streams per batch.

use frost_core::batch::{Item, Verifier};
use frost_core::{self as frost, Field, Signature, SigningKey, VerifyingKey};
use serde_json::json;

use crate::dispatch;
use crate::engine::*;
use crate::genr::*;
use crate::prng::{Prng, stream};
use crate::props::common::*;
use crate::scenario::*;
use crate::sim::Record;
use crate::simrng::SimRng;
use crate::suite::*;

pub fn prop() -> Prop {
    Prop {
        id: "C19",
        level: "fault_enumeration",
        runs: |t| match t {
            Tier::Quick => 2000,
            Tier::Thorough => 20000,
        },
        generate,
        exec,
        shrink: generic_shrink,
        rule: "one evaluation = one Verifier::verify call (each batch under 3 independent verifier random streams) compared with the conjunction of VerifyingKey::verify over its items, or one Item::verify_single comparison; per world: all-valid batches of sizes 1..64, the empty batch, one invalid item at every position (size <= 16) for each invalid kind, complementary (z+d, z-d) pairs at every pair of positions (size <= 8); distinct = (suite, batch size, invalid kind, position) tuples hashed and counted",
        distinct_measure: "hash of (suite, batch size, invalid kind, positions)",
        assumptions: &["the 2^-128 soundness bound is not measurable by sampling; the structural facts (fresh blinder per item, cancelling pairs rejected) are", "seeded sampling over worlds; enumeration over positions within a world"],
        real: &["frost-core batch, verifying_key, scalar_mul", "six ciphersuite crates"],
        stub: &["transport", "glue", "verifier random source", "item-forging adversary"],
        independent: &["single-item VerifyingKey::verify as the reference semantics"],
        ref_sample: |_| 0,
        required_probes: &["all_items_structured", "queue_history", "batch_all_valid_multi", "empty_batch_rejected", "invalid_wrong_message", "invalid_wrong_key", "invalid_altered_response", "invalid_altered_commitment", "cancel_pair_rejected", "batch_size_ge_32", "frost_signature_in_batch", "invalid_first_position", "invalid_last_position", "batch_size_ge_216"],
        prepare: None,
    }
}

pub fn generate(seed: u64, run: u64, tier: Tier) -> Scenario {
    let suite = suite_for_run(run, 8);
    dispatch!(suite, gen_c(seed, run, tier))
}

fn gen_c<C: Suite>(seed: u64, run: u64, _tier: Tier) -> Scenario {
    let mut p = stream(seed, run, "gen");
    let mut s = base_scenario("C19", C::NAME, seed, run);
    let (n, t) = gen_nt(&mut p, 2, 4);
    s.n = n;
    s.t = t;
    s.id_scheme = (*p.pick(&ID_SCHEMES)).to_string();
    s.ids_hex = gen_ids::<C>(&mut p, &s.id_scheme, n as usize);
    s.phases.push(vec![Inst::DealerKeygen { split_key: false }]);
    let pool: Vec<usize> = (0..n as usize).collect();
    s.phases.push(vec![
        Inst::Sign { signers: gen_signers(&mut p, &pool, t as usize), msg_hex: hexs(&gen_message(&mut p)), mode: SignMode::Plain },
        Inst::Sign { signers: gen_signers(&mut p, &pool, t as usize), msg_hex: hexs(&gen_message(&mut p)), mode: SignMode::Plain },
    ]);
    let slow = C::COST >= 9;
    let size = match p.below(6) {
        0 => p.range(1, 3),
        1 => p.range(4, 8),
        2 => p.range(9, 16),
        3 => {
            if slow { 12 } else { p.range(32, 64) }
        }
        _ => p.range(2, if slow { 10 } else { 24 }),
    };
    // rare LARGE batches (2n+1 points in one multiscalar multiplication: 433+ points from 216 items)
    let size = if !slow && p.chance(1, 40) { *p.pick(&[216u64, 256, 300, 500]) } else { size };
    s.extra = json!({"batch_size": size});
    s
}

pub fn exec(scen: &Scenario) -> Exec {
    dispatch!(scen.suite.as_str(), exec_c(scen))
}

#[derive(Clone)]
struct It<C: Suite> {
    vk: VerifyingKey<C>,
    msg: Vec<u8>,
    sig: Signature<C>,
}

fn single_ok<C: Suite>(it: &It<C>) -> bool {
    it.vk.verify(&it.msg, &it.sig).is_ok()
}

/// Returns Err(description) if the three verifier streams disagree, else the common verdict.
fn batch_verdict<C: Suite>(items: &[It<C>], seed: u64, run: u64, tag: &str, rep: &mut RunReport) -> Result<bool, String> {
    let mut verdicts = Vec::new();
    for k in 0..3 {
        let mut v = Verifier::<C>::new();
        for it in items {
            match Item::<C>::new(it.vk, it.sig, &it.msg) {
                Ok(item) => v.queue(item),
                Err(e) => return Err(format!("Item::new failed: {e:?}")),
            }
        }
        let rng = SimRng::good(stream(seed, run, &format!("c19/verifier/{tag}/{k}")));
        rep.evaluations += 1;
        verdicts.push(v.verify(rng).is_ok());
    }
    if verdicts.iter().any(|v| *v != verdicts[0]) {
        return Err(format!("verifier random streams disagree: {verdicts:?}"));
    }
    Ok(verdicts[0])
}

fn alter<C: Suite>(it: &It<C>, kind: &str, p: &mut Prng, other_vk: &VerifyingKey<C>) -> Option<It<C>> {
    let mut out = it.clone();
    match kind {
        "wrong_message" => {
            if out.msg.is_empty() {
                out.msg.push(1);
            } else {
                let i = p.below(out.msg.len() as u64) as usize;
                out.msg[i] ^= 0x01;
            }
        }
        "wrong_key" => out.vk = *other_vk,
        "other_message" => out.msg = [b"another message ".as_ref(), &out.msg].concat(),
        "response_zero" | "response_one" | "response_minus_one" => {
            let sb = it.sig.serialize().ok()?;
            let rl = sb.len() - sc_len::<C>();
            let mut nb = sb.clone();
            let z = match kind {
                "response_zero" => zero::<C>(),
                "response_one" => one::<C>(),
                _ => neg::<C>(one::<C>()),
            };
            nb[rl..].copy_from_slice(&sc_bytes::<C>(&z));
            out.sig = Signature::<C>::deserialize(&nb).ok()?;
        }
        "altered_response" | "altered_commitment" => {
            let sb = it.sig.serialize().ok()?;
            let zl = sc_len::<C>();
            let rl = sb.len() - zl;
            let z = sc_from_bytes::<C>(&sb[rl..])?;
            let mut nb = sb.clone();
            if kind == "altered_response" {
                nb[rl..].copy_from_slice(&sc_bytes::<C>(&(z + one::<C>())));
            } else if C::IS_TR {
                // x-only R: take the x coordinate of R + G
                let mut full = vec![0x02u8];
                full.extend_from_slice(&sb[..rl]);
                let r = el_from_bytes::<C>(&full)?;
                let r2 = el_bytes::<C>(&(r + base::<C>(one::<C>())))?;
                nb[..rl].copy_from_slice(&r2[1..]);
            } else {
                let r = el_from_bytes::<C>(&sb[..rl])?;
                let r2 = el_bytes::<C>(&(r + base::<C>(one::<C>())))?;
                nb[..rl].copy_from_slice(&r2);
            }
            out.sig = Signature::<C>::deserialize(&nb).ok()?;
        }
        _ => return None,
    }
    Some(out)
}

fn shift_z<C: Suite>(it: &It<C>, delta: frost::Scalar<C>) -> Option<It<C>> {
    let sb = it.sig.serialize().ok()?;
    let zl = sc_len::<C>();
    let rl = sb.len() - zl;
    let z = sc_from_bytes::<C>(&sb[rl..])?;
    let mut nb = sb.clone();
    nb[rl..].copy_from_slice(&sc_bytes::<C>(&(z + delta)));
    let mut out = it.clone();
    out.sig = Signature::<C>::deserialize(&nb).ok()?;
    Some(out)
}

fn exec_c<C: Suite>(scen: &Scenario) -> Exec {
    let mut rep = new_report(scen);
    let sim = match run_honest::<C>(scen, &mut rep) {
        Ok(s) => s,
        Err(v) if v.oracle == "harness" => return Exec::Harness(v.detail),
        Err(v) => return Exec::Violation(Violation::new("C19", "C19.control_failed", v.detail), rep),
    };
    let viol = |o: &str, d: String| Violation::new("C19", o, d);
    let size = scen.extra["batch_size"].as_u64().unwrap_or(4) as usize;
    let mut p = stream(scen.seed, scen.run, "c19/items");
    // items: the deployment's published signatures first, then single-signer keys
    let mut items: Vec<It<C>> = Vec::new();
    for rec in &sim.history {
        if let Record::Session { package, pk, result: Ok(sig), .. } = rec {
            items.push(It { vk: *pk.verifying_key(), msg: package.message().clone(), sig: *sig });
            rep.probe("frost_signature_in_batch");
        }
    }
    let mut keys: Vec<SigningKey<C>> = Vec::new();
    for k in 0..3 {
        let mut rng = SimRng::good(stream(scen.seed, scen.run, &format!("c19/key/{k}")));
        keys.push(SigningKey::<C>::new(&mut rng));
    }
    while items.len() < size {
        let k = p.below(keys.len() as u64) as usize;
        let msg = gen_message(&mut p);
        let rng = SimRng::good(stream(scen.seed, scen.run, &format!("c19/sign/{}", items.len())));
        let sig = keys[k].sign(rng, &msg);
        items.push(It { vk: VerifyingKey::<C>::from(&keys[k]), msg, sig });
    }
    items.truncate(size.max(1));
    p.shuffle(&mut items);
    let other_vk = VerifyingKey::<C>::from(&SigningKey::<C>::new(&mut SimRng::good(stream(scen.seed, scen.run, "c19/otherkey"))));
    let size = items.len();
    // single-item agreement and control
    for (i, it) in items.iter().enumerate() {
        rep.evaluations += 2;
        if !single_ok(it) {
            return Exec::Violation(viol("C19.control_failed", format!("honest item {i} does not verify")), rep);
        }
        let vs = Item::<C>::new(it.vk, it.sig, &it.msg).map(|x| x.verify_single().is_ok());
        if vs != Ok(true) {
            return Exec::Violation(viol("C19.verify_single_disagrees", format!("valid item {i}: verify_single = {vs:?}")), rep);
        }
    }
    // empty batch
    rep.evaluations += 1;
    if Verifier::<C>::new().verify(SimRng::good(stream(scen.seed, scen.run, "c19/empty"))).is_ok() {
        return Exec::Violation(viol("C19.empty_batch_accepted", "the empty batch was accepted".into()), rep);
    }
    rep.probe("empty_batch_rejected");
    // all valid, every prefix size class
    let mut sizes = vec![size];
    if size > 2 {
        sizes.push(2);
        sizes.push(size / 2);
    }
    for s in sizes {
        match batch_verdict::<C>(&items[..s], scen.seed, scen.run, &format!("valid/{s}"), &mut rep) {
            Err(e) => return Exec::Violation(viol("C19.verifier_streams_disagree", format!("all-valid batch of {s}: {e}")), rep),
            Ok(false) => return Exec::Violation(viol("C19.valid_batch_rejected", format!("a batch of {s} individually valid items was rejected")), rep),
            Ok(true) => {
                if s >= 2 {
                    rep.probe("batch_all_valid_multi");
                }
                if s >= 32 {
                    rep.probe("batch_size_ge_32");
                }
                if s >= 216 {
                    rep.probe("batch_size_ge_216");
                }
            }
        }
        rep.extra_shapes.push(format!("{}|valid|{s}", scen.suite));
    }
    // one invalid item at every position (or sampled positions for big batches), each kind
    let positions: Vec<usize> = if size <= 16 {
        (0..size).collect()
    } else {
        let mut v = vec![0, size - 1];
        for _ in 0..6 {
            v.push(p.below(size as u64) as usize);
        }
        v.sort();
        v.dedup();
        v
    };
    let kinds = ["wrong_message", "wrong_key", "altered_response", "altered_commitment", "response_zero", "response_one", "response_minus_one"];
    for (ki, kind) in kinds.iter().enumerate() {
        for pos in &positions {
            // in big batches rotate kinds over positions to bound the cost
            if size > 16 && (pos + ki) % 2 == 1 {
                continue;
            }
            if size > 64 && ki >= 4 && *pos != 0 {
                continue;
            }
            let Some(bad) = alter::<C>(&items[*pos], kind, &mut p, &other_vk) else { continue };
            let bad_single = single_ok(&bad);
            let vs = Item::<C>::new(bad.vk, bad.sig, &bad.msg).map(|x| x.verify_single().is_ok());
            rep.evaluations += 1;
            if vs != Ok(bad_single) {
                return Exec::Violation(viol("C19.verify_single_disagrees", format!("{kind} item: verify_single = {vs:?}, VerifyingKey::verify = {bad_single}")), rep);
            }
            let mut b = items.clone();
            b[*pos] = bad;
            let expect = bad_single; // all others are valid
            match batch_verdict::<C>(&b, scen.seed, scen.run, &format!("{kind}/{pos}"), &mut rep) {
                Err(e) => return Exec::Violation(viol("C19.verifier_streams_disagree", format!("{kind} at position {pos} of {size}: {e}")), rep),
                Ok(v) if v != expect => {
                    return Exec::Violation(
                        viol(if v { "C19.invalid_item_accepted" } else { "C19.valid_batch_rejected" }, format!("{kind} at position {pos} of {size}: batch verdict {v}, conjunction of single verifications {expect}")),
                        rep,
                    );
                }
                Ok(_) => {}
            }
            if !expect {
                rep.probe(&format!("invalid_{kind}"));
                if *pos == 0 {
                    rep.probe("invalid_first_position");
                }
                if *pos + 1 == size {
                    rep.probe("invalid_last_position");
                }
            }
            rep.extra_shapes.push(format!("{}|{kind}|{size}|{pos}", scen.suite));
        }
    }
    // EVERY item altered the same structured way (all responses zero / one / q-1): sums of structured values that random
    // corruption never produces
    for kind in ["response_zero", "response_one", "response_minus_one"] {
        for s in [1usize, 2, size.min(5)] {
            if s > size {
                continue;
            }
            let b: Option<Vec<It<C>>> = items[..s].iter().map(|it| alter::<C>(it, kind, &mut p, &other_vk)).collect();
            let Some(b) = b else { continue };
            let expect = b.iter().all(single_ok);
            match batch_verdict::<C>(&b, scen.seed, scen.run, &format!("all/{kind}/{s}"), &mut rep) {
                Err(e) => return Exec::Violation(viol("C19.verifier_streams_disagree", format!("batch of {s} items all with {kind}: {e}")), rep),
                Ok(v) if v != expect => return Exec::Violation(viol(if v { "C19.invalid_item_accepted" } else { "C19.valid_batch_rejected" }, format!("batch of {s} items ALL altered by {kind}: batch verdict {v}, conjunction of single verifications {expect}")), rep),
                Ok(_) => rep.probe("all_items_structured"),
            }
        }
    }
    // filing history: an item that repeats an earlier item's key and signature over ANOTHER message (a replayed signature), and
    // an exact duplicate, queued before / after the genuine one - the verdict is that of the conjunction whatever the order
    {
        let a = p.below(size as u64) as usize;
        if let Some(replayed) = alter::<C>(&items[a], "other_message", &mut p, &other_vk) {
            let rep_ok = single_ok(&replayed);
            for (oname, b, expect) in [
                ("genuine first, replay last", [items.clone(), vec![replayed.clone()]].concat(), rep_ok),
                ("replay first, genuine later", [vec![replayed.clone()], items.clone()].concat(), rep_ok),
                ("replay right after the genuine item", {
                    let mut b = items.clone();
                    b.insert(a + 1, replayed.clone());
                    b
                }, rep_ok),
                ("exact duplicate appended", [items.clone(), vec![items[a].clone()]].concat(), true),
                ("exact duplicate twice, adjacent", {
                    let mut b = items.clone();
                    b.insert(a, items[a].clone());
                    b.insert(a, items[a].clone());
                    b
                }, true),
            ] {
                match batch_verdict::<C>(&b, scen.seed, scen.run, &format!("history/{oname}"), &mut rep) {
                    Err(e) => return Exec::Violation(viol("C19.verifier_streams_disagree", format!("{oname}: {e}")), rep),
                    Ok(v) if v != expect => return Exec::Violation(viol(if v { "C19.invalid_item_accepted" } else { "C19.valid_batch_rejected" }, format!("{oname} (item {a} of {size}): batch verdict {v}, conjunction of single verifications {expect}")), rep),
                    Ok(_) => rep.probe("queue_history"),
                }
            }
        }
    }
    // Taproot: a signature made by the harness's own BIP-340 signer (valid), and its mirror - the same x(R) with the response that
    // belongs to -R (invalid: BIP-340 demands an even-Y R). Ordinary verification, verify_single, libsecp256k1 and the batch
    // verifier must agree on both.
    {
        let mut hp = stream(scen.seed, scen.run, "c19/bip340pair");
        let msg = gen_message(&mut hp);
        if let Some((hvk, good, mirror)) = C::harness_bip340_pair(&mut hp, &msg) {
            for (what, sig, expect) in [("harness-made BIP-340 signature", good, true), ("mirrored BIP-340 signature (response of -R)", mirror, false)] {
                let it = It { vk: hvk, msg: msg.clone(), sig };
                let ordinary = single_ok(&it);
                let vs = Item::<C>::new(it.vk, it.sig, &it.msg).map(|x| x.verify_single().is_ok());
                let third = C::third_party_verify(&it.vk.serialize().unwrap_or_default(), &it.msg, &it.sig.serialize().unwrap_or_default());
                rep.evaluations += 3;
                if vs != Ok(ordinary) {
                    return Exec::Violation(viol("C19.verify_single_disagrees", format!("{what}: verify_single = {vs:?}, VerifyingKey::verify = {ordinary}")), rep);
                }
                if third.is_some() && third != Some(expect) {
                    return Exec::Harness(format!("{what}: libsecp256k1 says {third:?}, construction expects {expect}"));
                }
                if third.is_some() && third != Some(ordinary) {
                    return Exec::Violation(viol("C19.verify_single_disagrees", format!("{what}: VerifyingKey::verify and verify_single = {ordinary}, the independent BIP-340 verifier = {third:?}")), rep);
                }
                let mut b = items.clone();
                b.insert(b.len() / 2, it);
                match batch_verdict::<C>(&b, scen.seed, scen.run, &format!("bip340pair/{expect}"), &mut rep) {
                    Err(e) => return Exec::Violation(viol("C19.verifier_streams_disagree", format!("{what}: {e}")), rep),
                    Ok(v) if v != ordinary => return Exec::Violation(viol(if v { "C19.invalid_item_accepted" } else { "C19.valid_batch_rejected" }, format!("{what} in a batch of {}: batch verdict {v}, single verification {ordinary}", b.len())), rep),
                    Ok(_) => {}
                }
            }
            rep.probe("bip340_mirrored_signature");
        }
    }
    // complementary pairs: errors that cancel unless every item has its own blinder
    if size >= 2 {
        let mut pairs: Vec<(usize, usize)> = Vec::new();
        if size <= 8 {
            for a in 0..size {
                for b in (a + 1)..size {
                    pairs.push((a, b));
                }
            }
        } else {
            pairs.push((0, size - 1));
            pairs.push((0, 1));
            for _ in 0..4 {
                let two = p.subset(size, 2);
                pairs.push((two[0], two[1]));
            }
        }
        for (a, b) in pairs {
            let delta = sc_random_nonzero::<C>(&mut p);
            let (Some(ia), Some(ib)) = (shift_z::<C>(&items[a], delta), shift_z::<C>(&items[b], neg::<C>(delta))) else { continue };
            if single_ok(&ia) || single_ok(&ib) {
                continue;
            }
            let mut bt = items.clone();
            bt[a] = ia;
            bt[b] = ib;
            match batch_verdict::<C>(&bt, scen.seed, scen.run, &format!("pair/{a}/{b}"), &mut rep) {
                Err(e) => return Exec::Violation(viol("C19.verifier_streams_disagree", format!("complementary pair at ({a},{b}) of {size}: {e}")), rep),
                Ok(true) => return Exec::Violation(viol("C19.cancelling_pair_accepted", format!("complementary altered pair (z+d, z-d) at positions ({a},{b}) of {size} was accepted")), rep),
                Ok(false) => rep.probe("cancel_pair_rejected"),
            }
            // the same pair on two copies of the SAME item (same key, message, R): only distinct blinders tell them apart
            let mut bt2 = items.clone();
            let (Some(ja), Some(jb)) = (shift_z::<C>(&items[a], delta), shift_z::<C>(&items[a], neg::<C>(delta))) else { continue };
            bt2[a] = ja;
            bt2[b] = jb;
            match batch_verdict::<C>(&bt2, scen.seed, scen.run, &format!("twin/{a}/{b}"), &mut rep) {
                Err(e) => return Exec::Violation(viol("C19.verifier_streams_disagree", format!("twin pair: {e}")), rep),
                Ok(true) => return Exec::Violation(viol("C19.cancelling_pair_accepted", format!("complementary altered copies of one item at positions ({a},{b}) of {size} were accepted")), rep),
                Ok(false) => rep.probe("cancel_twin_rejected"),
            }
            rep.extra_shapes.push(format!("{}|pair|{size}|{a}|{b}", scen.suite));
        }
    }
    // three altered items whose errors cancel if the blinders are in ARITHMETIC PROGRESSION over the queue positions (or all equal):
    // responses changed by +(k-j)e, -(k-i)e, +(j-i)e at positions i < j < k. Independent blinders reject this like any other batch
    // with invalid items.
    if size >= 3 {
        let mut triples: Vec<(usize, usize, usize)> = vec![(0, 1, 2), (size - 3, size - 2, size - 1), (0, size / 2, size - 1)];
        let three = p.subset(size, 3);
        triples.push((three[0], three[1], three[2]));
        triples.retain(|(i, j, k)| i < j && j < k);
        triples.dedup();
        for (i, j, k) in triples {
            let e = sc_random_nonzero::<C>(&mut p);
            let m = |x: usize| sc_from_u64::<C>(x as u64) * e;
            let (Some(a), Some(b), Some(c)) = (shift_z::<C>(&items[i], m(k - j)), shift_z::<C>(&items[j], neg::<C>(m(k - i))), shift_z::<C>(&items[k], m(j - i))) else { continue };
            if single_ok(&a) || single_ok(&b) || single_ok(&c) {
                continue;
            }
            let mut bt = items.clone();
            bt[i] = a;
            bt[j] = b;
            bt[k] = c;
            match batch_verdict::<C>(&bt, scen.seed, scen.run, &format!("triple/{i}/{j}/{k}"), &mut rep) {
                Err(e) => return Exec::Violation(viol("C19.verifier_streams_disagree", format!("cancelling triple at ({i},{j},{k}) of {size}: {e}")), rep),
                Ok(true) => return Exec::Violation(viol("C19.cancelling_pair_accepted", format!("three altered items at positions ({i},{j},{k}) of {size} whose errors cancel under blinders in arithmetic progression were accepted")), rep),
                Ok(false) => rep.probe("cancel_triple_rejected"),
            }
        }
    }
    // crafted verifier randomness: blinders with special bit patterns (1, 2^k, q-1, alternating bits ...) exercise
    // the multiscalar multiplication on scalars that random sampling never produces
    {
        let craft = |s: frost::Scalar<C>| -> Option<Vec<u8>> { craft_draw::<C>(s) };
        let two = sc_from_u64::<C>(2);
        let mut pow = |k: u32| {
            let mut x = one::<C>();
            for _ in 0..k {
                x = x * two;
            }
            x
        };
        let q1 = neg::<C>(one::<C>());
        let mut alt = zero::<C>();
        for i in 0..120 {
            if i % 2 == 0 {
                alt = alt + pow(i * 2);
            }
        }
        let specials: Vec<frost::Scalar<C>> = vec![one::<C>(), two, sc_from_u64::<C>(3), pow(63), pow(64), pow(127), pow(128), pow(200), pow(250), q1, q1 - one::<C>(), alt, pow(128) - one::<C>(), pow(250) - one::<C>(), sc_from_u64::<C>(u64::MAX)];
        let crafted: Vec<Vec<u8>> = specials.iter().filter_map(|s| craft(*s)).collect();
        if crafted.len() >= 4 {
            let run_batch = |b: &[It<C>], rot: usize| -> Option<bool> {
                let mut bytes = Vec::new();
                for k in 0..b.len() {
                    bytes.extend_from_slice(&crafted[(k + rot) % crafted.len()]);
                }
                let mut v = Verifier::<C>::new();
                for it in b {
                    v.queue(Item::<C>::new(it.vk, it.sig, &it.msg).ok()?);
                }
                let mut rng = SimRng::replay(bytes.clone(), stream(scen.seed, scen.run, "c19/crafted/fallback"));
                let r = v.verify(&mut rng).is_ok();
                // the crafted stream must have been consumed exactly as planned, else the construction is off: skip
                if rng.total() != bytes.len() { None } else { Some(r) }
            };
            for rot in 0..crafted.len().min(6) {
                rep.evaluations += 1;
                match run_batch(&items, rot) {
                    Some(false) => return Exec::Violation(viol("C19.valid_batch_rejected", format!("all-valid batch of {size} rejected when the verifier's blinders are special scalars (rotation {rot} of 1, 2, 3, 2^63, 2^64, 2^127, 2^128, 2^200, 2^250, q-1, q-2, alternating bits, 2^128-1, 2^250-1, 2^64-1)")), rep),
                    Some(true) => rep.probe("crafted_blinders_valid_accepted"),
                    None => rep.probe("crafted_blinders_skipped"),
                }
                let pos = (rot * 7) % size;
                if let Some(bad) = alter::<C>(&items[pos], "altered_response", &mut p, &other_vk) {
                    if !single_ok(&bad) {
                        let mut b = items.clone();
                        b[pos] = bad;
                        rep.evaluations += 1;
                        if run_batch(&b, rot) == Some(true) {
                            return Exec::Violation(viol("C19.invalid_item_accepted", format!("altered response at position {pos} of {size} accepted when the verifier's blinders are special (non-zero) scalars, rotation {rot}")), rep);
                        }
                        rep.probe("crafted_blinders_invalid_rejected");
                    }
                }
            }
        } else {
            rep.probe("crafted_blinders_unavailable");
        }
    }
    rep.nontrivial = true;
    rep.sample = Some(json!({"suite": scen.suite, "batch_size": size, "positions_checked": positions.len(), "frost_items": sim.history.iter().filter(|r| matches!(r, Record::Session { .. })).count()}));
    Exec::Ok(rep)
}
