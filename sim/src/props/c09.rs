//! C09 — no delivery history of keygen messages lets honest parties silently diverge.
//! World: two CONCURRENT key generation runs A and B of the same participants through the simulated
//! network. Fault: slot-replay / misroute / loss — each participant's round-1 slot of each sender is
//! filled with that sender's contribution from run A, run B, or nothing; each round-2 slot with any
//! (run, addressee) package of that sender, or nothing. All fillings are enumerated (small scope).

use std::collections::BTreeMap;
use std::panic::{AssertUnwindSafe, catch_unwind};

use frost_core::keys::dkg::{self, round1, round2};
use frost_core::keys::{KeyPackage, PublicKeyPackage};
use frost_core::{self as frost, Identifier, SigningPackage};
use serde_json::json;

use crate::dispatch;
use crate::engine::*;
use crate::genr::*;
use crate::prng::stream;
use crate::props::c07::check_key_material;
use crate::props::common::*;
use crate::scenario::*;
use crate::sim::Record;
use crate::simrng::SimRng;
use crate::suite::*;

pub fn prop() -> Prop {
    Prop {
        id: "C09",
        level: "fault_enumeration",
        runs: |t| match t {
            Tier::Quick => 400,
            Tier::Thorough => 2400,
        },
        generate,
        exec,
        shrink: generic_shrink,
        rule: "one evaluation = one (part2, part3) execution of one participant under one delivery history (own run in {A,B}; each round-1 slot in {A, B, absent}; each round-2 slot in {(run, addressee)} + {absent}); n = 3: all 450 histories per participant; n = 4: all 18522 per participant in the thorough tier on the fast suites, sampled (all consistent ones + all single deviations + random) otherwise; plus all 2^n global run assignments; non-trivial = histories enumerated; distinct = (suite, n, t, participant, history index) hashed and counted",
        distinct_measure: "hash of (suite, n, t, ids, participant, own run, round-1 filling, round-2 filling)",
        assumptions: &["the same round-1 map is given to part2 and part3 (documented contract)", "authenticated channels: a slot only ever holds material its sender produced", "small scope: n in {3,4} (n = 2 in some quick runs), two runs"],
        real: &["frost-core keys::dkg", "six ciphersuite crates"],
        stub: &["transport", "store", "glue", "random source", "replaying network"],
        independent: &["harness algebra for the expected group key"],
        ref_sample: |_| 0,
        required_probes: &["route_suite_crate_entry_points", "route_frost_core_generics", "histories_exhaustive_n3", "part3_ok_consistent_mixed_runs", "part3_rejected_cross_run_share", "part3_rejected_misaddressed_share", "global_assignments_checked", "signed_after_mixed_assignment", "runs_with_different_thresholds"],
        prepare: None,
    }
}

pub fn generate(seed: u64, run: u64, tier: Tier) -> Scenario {
    // all six suites; quick rotates which suites get the exhaustive n = 3 treatment with the seed
    let suite = SUITES[(run % 6) as usize];
    dispatch!(suite, gen_c(seed, run, tier))
}

fn gen_c<C: Suite>(seed: u64, run: u64, tier: Tier) -> Scenario {
    let mut p = stream(seed, run, "gen");
    let mut s = base_scenario("C09", C::NAME, seed, run);
    let slow = C::COST >= 9;
    let n: u16 = match tier {
        Tier::Quick => {
            if slow { 3 } else { *p.pick(&[3u16, 3, 3, 4]) }
        }
        Tier::Thorough => {
            if slow { 3 } else { *p.pick(&[3u16, 4, 4]) }
        }
    };
    let t = p.range(2, n as u64) as u16;
    s.n = n;
    s.t = t;
    s.id_scheme = (*p.pick(&ID_SCHEMES)).to_string();
    s.ids_hex = gen_ids::<C>(&mut p, &s.id_scheme, n as usize);
    s.wire = gen_wire(&mut p);
    s.phases.push(vec![Inst::Dkg, Inst::Dkg]);
    s.sched = Sched::Random;
    let limit: u64 = match (tier, slow, C::COST >= 3) {
        (Tier::Quick, true, _) => 140,
        (Tier::Quick, false, true) => 500,
        (Tier::Quick, false, false) => 1600,
        (Tier::Thorough, true, _) => 450,
        (Tier::Thorough, false, true) => 4000,
        (Tier::Thorough, false, false) => 18522,
    };
    // in a third of the worlds the concurrent run B uses ANOTHER threshold
    let t_b = if n >= 3 && p.chance(1, 3) { (2..=n).filter(|x| *x != t).nth(p.below((n - 2) as u64) as usize).unwrap_or(t) } else { t };
    s.extra = json!({"limit_per_participant": limit, "dkg_t": {"1": t_b}});
    s
}

pub fn exec(scen: &Scenario) -> Exec {
    dispatch!(scen.suite.as_str(), exec_c(scen))
}

struct RunMat<C: Suite> {
    r1_secret: Vec<round1::SecretPackage<C>>,
    r1_pkg: Vec<round1::Package<C>>,
    /// r2_out[j][a] = package of sender j for addressee node a
    r2_out: Vec<BTreeMap<usize, round2::Package<C>>>,
}

fn exec_c<C: Suite>(scen: &Scenario) -> Exec {
    let mut rep = new_report(scen);
    set_route(scen.run, &mut rep);
    let sim = match run_honest::<C>(scen, &mut rep) {
        Ok(s) => s,
        Err(v) if v.oracle == "harness" => return Exec::Harness(v.detail),
        Err(v) => return Exec::Violation(Violation::new("C09", "C09.control_failed", v.detail), rep),
    };
    let n = scen.n as usize;
    let t = scen.t;
    let ids: Vec<Identifier<C>> = sim.ids[..n].to_vec();
    let mut runs: Vec<RunMat<C>> = Vec::new();
    for inst in 0..2u32 {
        let mut s: Vec<Option<round1::SecretPackage<C>>> = vec![None; n];
        let mut pk: Vec<Option<round1::Package<C>>> = vec![None; n];
        for r in &sim.history {
            if let Record::DkgPart1 { node, inst: i, secret_json, pkg } = r {
                if *i == inst {
                    s[*node] = serde_json::from_str(secret_json).ok();
                    pk[*node] = Some(pkg.clone());
                }
            }
        }
        if s.iter().any(|x| x.is_none()) {
            return Exec::Harness("snapshot incomplete".into());
        }
        let mut m = RunMat::<C> { r1_secret: s.into_iter().map(|x| x.unwrap()).collect(), r1_pkg: pk.into_iter().map(|x| x.unwrap()).collect(), r2_out: Vec::new() };
        for j in 0..n {
            let map: BTreeMap<Identifier<C>, round1::Package<C>> = (0..n).filter(|k| *k != j).map(|k| (ids[k], m.r1_pkg[k].clone())).collect();
            match dkg_part2::<C>(m.r1_secret[j].clone(), &map) {
                Ok((_s, out)) => {
                    let by_node: BTreeMap<usize, round2::Package<C>> = (0..n).filter(|a| *a != j).map(|a| (a, out[&ids[a]].clone())).collect();
                    m.r2_out.push(by_node);
                }
                Err(e) => return Exec::Violation(Violation::new("C09", "C09.control_failed", format!("honest part2 failed: {e:?}")), rep),
            }
        }
        runs.push(m);
    }
    let limit = scen.extra["limit_per_participant"].as_u64().unwrap_or(500);
    let t_of_run: [u16; 2] = [t, scen.extra["dkg_t"]["1"].as_u64().map(|v| v as u16).unwrap_or(t)];
    if t_of_run[0] != t_of_run[1] {
        rep.probe("runs_with_different_thresholds");
    }
    let r1_opts = 3u64; // A, B, absent
    let r2_opts = (2 * (n - 1) + 1) as u64; // (run, addressee) or absent
    let per_sender = r1_opts * r2_opts;
    let total_per_own = per_sender.pow(n as u32 - 1);
    let total = 2 * total_per_own;
    let c0 = |run: usize, j: usize| -> frost::Element<C> {
        let ser = runs[run].r1_pkg[j].commitment().serialize().unwrap();
        el_from_bytes::<C>(&ser[0]).unwrap()
    };
    let mut evaluated = 0u64;
    for i in 0..n {
        let senders: Vec<usize> = (0..n).filter(|j| *j != i).collect();
        // history index -> (own, per-sender (r1 option, r2 option))
        let decode = |mut h: u64| -> (usize, Vec<(u64, u64)>) {
            let own = (h % 2) as usize;
            h /= 2;
            let mut v = Vec::new();
            for _ in 0..senders.len() {
                let x = h % per_sender;
                h /= per_sender;
                v.push((x % r1_opts, x / r1_opts));
            }
            (own, v)
        };
        let encode = |own: usize, v: &[(u64, u64)]| -> u64 {
            let mut h = 0u64;
            for (a, b) in v.iter().rev() {
                h = h * per_sender + (b * r1_opts + a);
            }
            h * 2 + own as u64
        };
        // r2 option of sender j meaning "(run r, addressed to node a)"
        let addressees = |j: usize| -> Vec<usize> { (0..n).filter(|a| *a != j).collect() };
        let r2_opt_of = |j: usize, r: usize, a: usize| -> u64 { (r * (n - 1) + addressees(j).iter().position(|x| *x == a).unwrap()) as u64 };
        let mut list: Vec<u64> = Vec::new();
        if total <= limit {
            list.extend(0..total);
            if n == 3 {
                rep.probe("histories_exhaustive_n3");
            } else if n == 4 {
                rep.probe("histories_exhaustive_n4");
            }
        } else {
            // all consistent histories, every single-slot deviation from each, then random ones
            let mut hp = stream(scen.seed, scen.run, &format!("c09/sample/{i}"));
            for own in 0..2usize {
                for mask in 0..(1u64 << senders.len()) {
                    let base: Vec<(u64, u64)> = senders.iter().enumerate().map(|(k, j)| {
                        let r = ((mask >> k) & 1) as usize;
                        (r as u64, r2_opt_of(*j, r, i))
                    }).collect();
                    list.push(encode(own, &base));
                    if mask == 0 || mask == (1 << senders.len()) - 1 {
                        for k in 0..senders.len() {
                            for a in 0..r1_opts {
                                let mut v = base.clone();
                                v[k].0 = a;
                                list.push(encode(own, &v));
                            }
                            for b in 0..r2_opts {
                                let mut v = base.clone();
                                v[k].1 = b;
                                list.push(encode(own, &v));
                            }
                        }
                    }
                }
            }
            while (list.len() as u64) < limit {
                list.push(hp.below(total));
            }
            list.sort();
            list.dedup();
            if n == 3 {
                rep.probe("histories_sampled_n3");
            }
        }
        // cache of part2 results per (own, round-1 filling)
        let mut p2cache: BTreeMap<(usize, Vec<u64>), Option<round2::SecretPackage<C>>> = BTreeMap::new();
        for h in list {
            let (own, slots) = decode(h);
            let r1_fill: Vec<u64> = slots.iter().map(|s| s.0).collect();
            let mut r1_map: BTreeMap<Identifier<C>, round1::Package<C>> = BTreeMap::new();
            for (k, j) in senders.iter().enumerate() {
                match slots[k].0 {
                    0 => {
                        r1_map.insert(ids[*j], runs[0].r1_pkg[*j].clone());
                    }
                    1 => {
                        r1_map.insert(ids[*j], runs[1].r1_pkg[*j].clone());
                    }
                    _ => {}
                }
            }
            let mut r2_map: BTreeMap<Identifier<C>, round2::Package<C>> = BTreeMap::new();
            let mut r2_desc: Vec<Option<(usize, usize)>> = Vec::new();
            for (k, j) in senders.iter().enumerate() {
                let o = slots[k].1;
                if o == r2_opts - 1 {
                    r2_desc.push(None);
                    continue;
                }
                let r = (o as usize) / (n - 1);
                let a = addressees(*j)[(o as usize) % (n - 1)];
                r2_map.insert(ids[*j], runs[r].r2_out[*j][&a].clone());
                r2_desc.push(Some((r, a)));
            }
            evaluated += 1;
            rep.evaluations += 1;
            let desc = || format!("participant {i} (own run {}), round-1 slots {:?} (0=A,1=B,2=absent), round-2 slots {:?} ((run, addressee node) or None)", if own == 0 { "A" } else { "B" }, r1_fill, r2_desc);
            let key = (own, r1_fill.clone());
            if !p2cache.contains_key(&key) {
                let secret = runs[own].r1_secret[i].clone();
                let r = catch_unwind(AssertUnwindSafe(|| dkg_part2::<C>(secret, &r1_map)));
                match r {
                    Err(_) => return Exec::Violation(Violation::new("C09", "C09.step_panicked", format!("part2 panicked: {}", desc())), rep),
                    Ok(Ok((s2, _))) => {
                        p2cache.insert(key.clone(), Some(s2));
                    }
                    Ok(Err(_)) => {
                        p2cache.insert(key.clone(), None);
                    }
                }
            }
            let Some(s2) = p2cache[&key].as_ref() else { continue };
            let r = catch_unwind(AssertUnwindSafe(|| dkg_part3::<C>(s2, &r1_map, &r2_map)));
            let res = match r {
                Err(_) => return Exec::Violation(Violation::new("C09", "C09.step_panicked", format!("part3 panicked: {}", desc())), rep),
                Ok(r) => r,
            };
            // consistent = every round-2 slot is (run filed for that sender in round 1, addressed to i) - and, when the two runs
            // differ in threshold, every filed round-1 contribution has the threshold of the participant's own run
            let consistent = senders.iter().enumerate().all(|(k, _j)| slots[k].0 < 2 && r2_desc[k] == Some((slots[k].0 as usize, i)) && t_of_run[slots[k].0 as usize] == t_of_run[own]);
            match res {
                Ok((kp, pk)) => {
                    if !consistent {
                        return Exec::Violation(
                            Violation::new("C09", "C09.inconsistent_history_accepted", format!("part3 returned key material although a round-2 share was not (run filed in round 1, addressed to this participant): {}", desc())),
                            rep,
                        );
                    }
                    let filed_ids: Vec<Identifier<C>> = ids.clone();
                    if let Some(v) = check_key_material::<C>("C09", &desc(), &kp, &pk, t_of_run[own], Some(&filed_ids)) {
                        return Exec::Violation(v, rep);
                    }
                    // group key = sum of the FILED constant-term commitments plus own
                    let mut sum = c0(own, i);
                    for (k, j) in senders.iter().enumerate() {
                        sum = sum + c0(slots[k].0 as usize, *j);
                    }
                    let (expect, _) = C::dkg_post_map(sum, zero::<C>());
                    if vkey_element::<C>(pk.verifying_key()) != expect {
                        return Exec::Violation(Violation::new("C09", "C09.group_key_not_from_filed_commitments", desc()), rep);
                    }
                    let mixed = slots.iter().any(|s| s.0 as usize != own);
                    if mixed {
                        rep.probe("part3_ok_consistent_mixed_runs");
                    }
                }
                Err(_) => {
                    let uniform = slots.iter().all(|s| s.0 as usize == own);
                    if consistent && uniform {
                        return Exec::Violation(Violation::new("C09", "C09.honest_history_rejected", desc()), rep);
                    }
                    // classify what was rejected (reach probes)
                    for (k, _) in senders.iter().enumerate() {
                        if slots[k].0 < 2 {
                            if let Some((r, a)) = r2_desc[k] {
                                if r != slots[k].0 as usize && a == i {
                                    rep.probe("part3_rejected_cross_run_share");
                                }
                                if r == slots[k].0 as usize && a != i {
                                    rep.probe("part3_rejected_misaddressed_share");
                                }
                            }
                        }
                    }
                }
            }
            if evaluated % 8 == 0 {
                rep.extra_shapes.push(format!("{}|n{n}t{t}|{}|p{i}|h{h}", scen.suite, scen.id_scheme));
            }
        }
    }
    // the participant's OWN slot (a broadcast channel echoes one's own contribution back): filled with its current round-one
    // package or with the stale one from the other run, everything else consistent - the step fails, or the key material is
    // consistent and derived from the participant's own secret state (never from what the echo claims)
    for i in 0..n {
        for own in 0..2usize {
            if t_of_run[0] != t_of_run[1] {
                break;
            }
            for echo in 0..2usize {
                let mut r1_map: BTreeMap<Identifier<C>, round1::Package<C>> = (0..n).filter(|j| *j != i).map(|j| (ids[j], runs[own].r1_pkg[j].clone())).collect();
                r1_map.insert(ids[i], runs[echo].r1_pkg[i].clone());
                let r2_map: BTreeMap<Identifier<C>, round2::Package<C>> = (0..n).filter(|j| *j != i).map(|j| (ids[j], runs[own].r2_out[j][&i].clone())).collect();
                rep.evaluations += 1;
                let desc = format!("participant {i} (own run {own}) with its own round-1 package of run {echo} echoed into its own slot");
                let r = catch_unwind(AssertUnwindSafe(|| dkg_part2::<C>(runs[own].r1_secret[i].clone(), &r1_map).and_then(|(s2, _)| dkg_part3::<C>(&s2, &r1_map, &r2_map))));
                match r {
                    Err(_) => return Exec::Violation(Violation::new("C09", "C09.step_panicked", desc), rep),
                    Ok(Err(_)) => rep.probe("own_echo_refused"),
                    Ok(Ok((kp, pk))) => {
                        rep.probe("own_echo_accepted");
                        if let Some(v) = check_key_material::<C>("C09", &desc, &kp, &pk, t_of_run[own], Some(&ids)) {
                            return Exec::Violation(v, rep);
                        }
                        let mut sum = c0(own, i);
                        for j in (0..n).filter(|j| *j != i) {
                            sum = sum + c0(own, j);
                        }
                        let (expect, _) = C::dkg_post_map(sum, zero::<C>());
                        if vkey_element::<C>(pk.verifying_key()) != expect {
                            return Exec::Violation(Violation::new("C09", "C09.group_key_not_from_filed_commitments", format!("{desc}: the group key is not the sum of the peers' filed commitments and the participant's own state")), rep);
                        }
                    }
                }
                rep.probe("own_slot_histories");
            }
        }
    }
    // every global assignment of runs to senders: all complete => same public key package, and they sign
    let mut gp = stream(scen.seed, scen.run, "c09/global");
    for g in 0..(1u32 << n) {
        let run_of = |j: usize| ((g >> j) & 1) as usize;
        let mut outs: Vec<(KeyPackage<C>, PublicKeyPackage<C>)> = Vec::new();
        for i in 0..n {
            let r1_map: BTreeMap<Identifier<C>, round1::Package<C>> = (0..n).filter(|j| *j != i).map(|j| (ids[j], runs[run_of(j)].r1_pkg[j].clone())).collect();
            let r2_map: BTreeMap<Identifier<C>, round2::Package<C>> = (0..n).filter(|j| *j != i).map(|j| (ids[j], runs[run_of(j)].r2_out[j][&i].clone())).collect();
            rep.evaluations += 1;
            let s2 = match dkg_part2::<C>(runs[run_of(i)].r1_secret[i].clone(), &r1_map) {
                Ok((s, _)) => s,
                Err(_) => break,
            };
            match dkg_part3::<C>(&s2, &r1_map, &r2_map) {
                Ok(x) => outs.push(x),
                Err(_) => break,
            }
        }
        if outs.len() != n {
            if g == 0 || g == (1 << n) - 1 {
                return Exec::Violation(Violation::new("C09", "C09.honest_history_rejected", format!("global assignment {g:#b}: not all participants completed")), rep);
            }
            continue;
        }
        rep.probe("global_assignments_checked");
        for i in 1..n {
            if outs[i].1 != outs[0].1 {
                return Exec::Violation(Violation::new("C09", "C09.participants_diverged", format!("global run assignment {g:#b}: participants {i} and 0 completed with different public key packages")), rep);
            }
        }
        // a random t-subset signs (t of the run everybody completed on; mixed-threshold assignments never complete)
        let tg = outs[0].0.min_signers().clone();
        let sub = gp.subset(n, tg as usize);
        let msg = gp.bytes(16);
        let mut nn = Vec::new();
        let mut cm = BTreeMap::new();
        for s in &sub {
            let mut rng = SimRng::good(stream(scen.seed, scen.run, &format!("c09/commit/{g}/{s}")));
            let (a, b) = frost::round1::commit::<C, _>(outs[*s].0.signing_share(), &mut rng);
            nn.push(a);
            cm.insert(ids[*s], b);
        }
        let pkg = SigningPackage::<C>::new(cm, &msg);
        let mut shares = BTreeMap::new();
        for (k, s) in sub.iter().enumerate() {
            match frost::round2::sign::<C>(&pkg, &nn[k], &outs[*s].0) {
                Ok(z) => {
                    shares.insert(ids[*s], z);
                }
                Err(e) => return Exec::Violation(Violation::new("C09", "C09.cannot_sign_together", format!("global run assignment {g:#b}: sign = {e:?}")), rep),
            }
        }
        rep.evaluations += 1;
        match frost::aggregate::<C>(&pkg, &shares, &outs[0].1) {
            Ok(sig) => {
                if outs[0].1.verifying_key().verify(&msg, &sig).is_err() {
                    return Exec::Violation(Violation::new("C09", "C09.cannot_sign_together", format!("global run assignment {g:#b}: signature does not verify")), rep);
                }
            }
            Err(e) => return Exec::Violation(Violation::new("C09", "C09.cannot_sign_together", format!("global run assignment {g:#b}: aggregate = {e:?}")), rep),
        }
        if g != 0 && g != (1 << n) - 1 {
            rep.probe("signed_after_mixed_assignment");
        }
    }
    rep.probe_n("histories", evaluated);
    rep.nontrivial = evaluated > 0;
    rep.sample = Some(json!({"suite": scen.suite, "n": scen.n, "t": scen.t, "ids": scen.id_scheme, "histories_per_participant_total": total, "histories_evaluated": evaluated, "example": "participant 0 (own run A), round-1 slots [1,0] , round-2 slots [(1,0),(0,0)] => consistent mixed-run history, part3 Ok"}));
    Exec::Ok(rep)
}
