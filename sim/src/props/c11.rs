//! C11 — share repair returns exactly the lost share and needs a threshold of helpers.
//! World: keys, then the three repair parts over the simulated network (honest-path faults; the
//! arrival order of deltas and sigmas IS the slice order handed to parts 2 and 3; the helper list
//! order is drawn), then signing with the repaired key package.

use std::collections::BTreeMap;

use frost_core::keys::repairable;
use frost_core::keys::KeyPackage;
use frost_core::{self as frost, Identifier};
use serde_json::json;

use crate::dispatch;
use crate::engine::*;
use crate::genr::*;
use crate::prng::stream;
use crate::props::common::*;
use crate::scenario::*;
use crate::sim::Record;
use crate::simrng::SimRng;
use crate::suite::*;

pub fn prop() -> Prop {
    Prop {
        id: "C11",
        level: "exploration",
        runs: |t| match t {
            Tier::Quick => 6000,
            Tier::Thorough => 70000,
        },
        generate,
        exec,
        shrink: generic_shrink,
        rule: "one evaluation = one oracle call on a completed repair (repaired share = f(target) by harness interpolation and = the lost share; verifying share, group key, threshold; each helper's deltas sum to its Lagrange-weighted share; refusals for too few / duplicate helpers / list without the caller; signing with the repaired package); non-trivial = a repair completed; distinct = scenario shapes (suite, n, t, |H|, existing/new target, ids, wire, faults, scheduler) hashed and counted",
        distinct_measure: "hash of scenario shape key + target kind",
        assumptions: &["authenticated and confidential channels between helpers", "seeded sampling"],
        real: &["frost-core keys::repairable", "six ciphersuite crates"],
        stub: &["transport", "store", "glue", "random source"],
        independent: &["harness Lagrange interpolation at the repaired identifier"],
        ref_sample: |_| 0,
        required_probes: &["repair_existing", "repair_new_identifier", "helpers_gt_t", "helpers_eq_t", "helpers_all_others", "keys_from_dkg", "signed_with_repaired", "refusals_checked", "reordered_arrival", "repair_after_refresh", "direct_repair"],
        prepare: None,
    }
}

pub fn generate(seed: u64, run: u64, tier: Tier) -> Scenario {
    let suite = suite_for_run(run, 6);
    dispatch!(suite, gen_c(seed, run, tier))
}

fn gen_c<C: Suite>(seed: u64, run: u64, tier: Tier) -> Scenario {
    let mut p = stream(seed, run, "gen");
    let mut s = base_scenario("C11", C::NAME, seed, run);
    let slow = C::COST >= 9;
    let max_n = match (tier, slow) {
        (Tier::Quick, false) => 7,
        (Tier::Thorough, false) => 10,
        (_, true) => 5,
    };
    let new_target = p.chance(1, 3);
    // an existing target needs n-1 >= t helpers
    let (mut n, mut t) = gen_nt(&mut p, 3, max_n);
    if let Some((wn, wt)) = maybe_wide::<C>(&mut p, 14) {
        n = wn;
        t = wt;
    }
    if !new_target && t > n - 1 {
        t = n - 1;
    }
    if t < 2 {
        t = 2;
        n = n.max(3);
    }
    s.n = n;
    s.t = t;
    s.spares = if new_target { 1 } else { 0 };
    s.id_scheme = (*p.pick(&ID_SCHEMES)).to_string();
    s.ids_hex = gen_ids::<C>(&mut p, &s.id_scheme, (n + s.spares) as usize);
    s.wire = gen_wire(&mut p);
    let dkg = p.chance(1, 4) && n <= if slow { 3 } else { 5 };
    s.phases.push(vec![if dkg { Inst::Dkg } else { Inst::DealerKeygen { split_key: p.chance(1, 2) } }]);
    // sometimes the group refreshes its shares first (trusted dealer or distributed): repair must work on refreshed shares
    if p.chance(1, 4) {
        let all: Vec<usize> = (0..n as usize).collect();
        let use_dkg = p.chance(1, 2) && n <= if slow { 3 } else { 5 };
        s.phases.push(vec![if use_dkg { Inst::RefreshDkg { remaining: all } } else { Inst::RefreshDealer { remaining: all } }]);
    }
    let target = if new_target { n as usize } else { p.below(n as u64) as usize };
    let pool: Vec<usize> = (0..n as usize).filter(|x| *x != target).collect();
    let hk = match p.below(4) {
        0 => t as usize,
        1 => pool.len(),
        _ => p.range(t as u64, pool.len() as u64) as usize,
    };
    let mut helpers: Vec<usize> = p.subset(pool.len(), hk).into_iter().map(|i| pool[i]).collect();
    p.shuffle(&mut helpers); // order of the helper LIST
    s.phases.push(vec![Inst::Repair { target, helpers }]);
    // the repaired participant signs together with t-1 others
    let mut others: Vec<usize> = (0..n as usize).filter(|x| *x != target).collect();
    p.shuffle(&mut others);
    let mut signers = vec![target];
    signers.extend(others.into_iter().take(t as usize - 1));
    p.shuffle(&mut signers);
    s.phases.push(vec![Inst::Sign { signers, msg_hex: hexs(&gen_message(&mut p)), mode: SignMode::Plain }]);
    s.sched = match p.below(8) {
        0 => Sched::Fifo,
        1 => Sched::Lifo,
        _ => Sched::Random,
    };
    let mask = if p.chance(1, 5) { 0 } else { p.range(1, 31) as u32 };
    let budget = p.range(0, 6) as usize;
    let mut fp = stream(seed, run, "faults");
    s.faults = gen_honest_faults(&mut fp, &s, budget, mask);
    maybe_rng_alias(&mut s, seed, run, 12);
    s
}

pub fn exec(scen: &Scenario) -> Exec {
    dispatch!(scen.suite.as_str(), exec_c(scen))
}

fn exec_c<C: Suite>(scen: &Scenario) -> Exec {
    let mut rep = new_report(scen);
    let sim = match run_honest::<C>(scen, &mut rep) {
        Ok(s) => s,
        Err(v) if v.oracle == "harness" => return Exec::Harness(v.detail),
        Err(v) => return Exec::Violation(v, rep),
    };
    let viol = |o: &str, d: String| Violation::new("C11", o, d);
    let n = scen.n as usize;
    let t = scen.t as usize;
    let rphase = scen.phases.iter().position(|ph| matches!(ph.first(), Some(Inst::Repair { .. }))).unwrap_or(1);
    let (inst, target, helpers) = match scen.phases.get(rphase).and_then(|p| p.first()) {
        Some(Inst::Repair { target, helpers }) => (scen.phase_range(rphase).start, *target, helpers.clone()),
        _ => return Exec::Harness("no repair instance".into()),
    };
    if rphase > 1 {
        rep.probe("repair_after_refresh");
    }
    let pk = match sim.hub.as_ref().and_then(|h| h.pk.clone()) {
        Some(p) => p,
        None => return Exec::Harness("no pk".into()),
    };
    // the group polynomial as the harness sees it: all shares that exist (the lost one is set aside, not destroyed)
    let mut all_kps: BTreeMap<usize, KeyPackage<C>> = BTreeMap::new();
    for r in &sim.history {
        match r {
            Record::KeyPackage { node, kp, .. } => {
                all_kps.insert(*node, kp.clone());
            }
            Record::DkgDone { node, kp, .. } => {
                all_kps.insert(*node, kp.clone());
            }
            // a refresh before the repair replaces the shares the helpers work with
            Record::Refreshed { node, new_kp, .. } => {
                all_kps.insert(*node, new_kp.clone());
            }
            _ => {}
        }
    }
    if all_kps.len() != n {
        return Exec::Harness("missing original key packages".into());
    }
    let xs: Vec<_> = (0..n).map(|p| id_scalar::<C>(all_kps[&p].identifier())).collect();
    let ys: Vec<_> = (0..n).map(|p| share_scalar::<C>(all_kps[&p].signing_share())).collect();
    let target_id = sim.ids[target];
    let tx = id_scalar::<C>(&target_id);
    // f(target) through t shares that do not include the target itself
    let basis: Vec<usize> = (0..n).filter(|p| *p != target).take(t).collect();
    let bx: Vec<_> = basis.iter().map(|p| xs[*p]).collect();
    let by: Vec<_> = basis.iter().map(|p| ys[*p]).collect();
    let expect = interpolate::<C>(&bx, &by, tx).unwrap();
    let (kp, lost) = match sim.history.iter().find_map(|r| match r {
        Record::Repaired { node, inst: i, kp, lost } if *node == target && *i == inst => Some((kp.clone(), lost.clone())),
        _ => None,
    }) {
        Some(x) => x,
        None => return Exec::Harness("no repaired record".into()),
    };
    rep.evaluations += 5;
    let got = share_scalar::<C>(kp.signing_share());
    if got != expect {
        return Exec::Violation(viol("C11.repaired_share_wrong", format!("repaired signing share != f(target) (helpers {helpers:?}, target {target})")), rep);
    }
    if let Some(l) = &lost {
        rep.probe("repair_existing");
        if l.signing_share() != kp.signing_share() {
            return Exec::Violation(viol("C11.repaired_share_wrong", "repaired share differs from the share that was lost".into()), rep);
        }
        if l.verifying_share() != kp.verifying_share() {
            return Exec::Violation(viol("C11.verifying_share_wrong", "repaired verifying share differs from the lost one".into()), rep);
        }
        match pk.verifying_shares().get(&target_id) {
            Some(e) if e == kp.verifying_share() => {}
            _ => return Exec::Violation(viol("C11.verifying_share_wrong", "repaired verifying share != public key package entry".into()), rep),
        }
    } else {
        rep.probe("repair_new_identifier");
    }
    if kp.identifier() != &target_id {
        return Exec::Violation(viol("C11.identifier_wrong", "repaired key package carries another identifier".into()), rep);
    }
    if vshare_element::<C>(kp.verifying_share()) != base::<C>(got) {
        return Exec::Violation(viol("C11.verifying_share_wrong", "repaired verifying share != G * share".into()), rep);
    }
    if kp.verifying_key() != pk.verifying_key() {
        return Exec::Violation(viol("C11.group_key_wrong", "repaired key package has another group key".into()), rep);
    }
    if *kp.min_signers() as usize != t {
        return Exec::Violation(viol("C11.threshold_wrong", format!("repaired key package records threshold {}, t = {t}", kp.min_signers())), rep);
    }
    // every helper's outgoing values sum to its Lagrange-weighted share
    let hx: Vec<_> = helpers.iter().map(|h| xs[*h]).collect();
    let mut seen_helpers = 0;
    for r in &sim.history {
        if let Record::RepairDeltas { node, inst: i, deltas, kp: hkp } = r {
            if *i != inst {
                continue;
            }
            seen_helpers += 1;
            rep.evaluations += 1;
            let pos = helpers.iter().position(|h| h == node).unwrap();
            let zeta = lagrange::<C>(&hx, pos, tx).unwrap();
            let want = zeta * share_scalar::<C>(hkp.signing_share());
            let mut sum = zero::<C>();
            for d in deltas.values() {
                sum = sum + sc_from_bytes::<C>(&d.serialize()).unwrap();
            }
            if sum != want {
                return Exec::Violation(viol("C11.helper_deltas_wrong_sum", format!("helper {node}: deltas do not sum to zeta * share")), rep);
            }
            let mut want_keys: Vec<Identifier<C>> = helpers.iter().map(|h| sim.ids[*h]).collect();
            want_keys.sort();
            if deltas.keys().cloned().collect::<Vec<_>>() != want_keys {
                return Exec::Violation(viol("C11.helper_deltas_wrong_recipients", format!("helper {node}: deltas are not addressed to exactly the helper set")), rep);
            }
        }
    }
    if seen_helpers != helpers.len() {
        return Exec::Harness("missing helper records".into());
    }
    if helpers.len() > t {
        rep.probe("helpers_gt_t");
    } else {
        rep.probe("helpers_eq_t");
    }
    if helpers.len() == n - if target < n { 1 } else { 0 } {
        rep.probe("helpers_all_others");
    }
    if matches!(scen.phases[0][0], Inst::Dkg) {
        rep.probe("keys_from_dkg");
    }
    if sim.stats.reordered > 0 {
        rep.probe("reordered_arrival");
    }
    // the repaired share signs
    for rec in &sim.history {
        if let Record::Session { inst, package, shares, pk, result, .. } = rec {
            let kps: Vec<_> = sim.history.iter().filter_map(|r| match r { Record::Share { inst: i, kp, .. } if i == inst => Some(kp.clone()), _ => None }).collect();
            if let Some(v) = check_plain_session::<C>("C11", *inst, package, shares, pk, result, &kps, &mut rep, false) {
                if v.oracle == "harness" {
                    return Exec::Harness(v.detail);
                }
                return Exec::Violation(v, rep);
            }
            if shares.contains_key(&target_id) {
                rep.probe("signed_with_repaired");
            }
        }
    }
    // the same repair once more by direct calls (the suite crate's own entry points), against the current public key package
    // and against a legacy one that records no threshold (pre-3.0 encodings decode to this): whatever part 3 returns must
    // carry the share f(target) AND the group's threshold - or it refuses
    {
        let hid: Vec<Identifier<C>> = helpers.iter().map(|h| sim.ids[*h]).collect();
        let mut deltas_for: BTreeMap<Identifier<C>, Vec<repairable::Delta<C>>> = BTreeMap::new();
        for (x, h) in helpers.iter().enumerate() {
            let mut rng = SimRng::good(stream(scen.seed, scen.run, &format!("c11/direct/{x}")));
            match C::w_repair1(&hid, &all_kps[h], &mut rng, target_id) {
                Ok(ds) => {
                    for (to, d) in ds {
                        deltas_for.entry(to).or_default().push(d);
                    }
                }
                Err(e) => return Exec::Violation(viol("C11.control_failed", format!("direct part1 of helper {h} failed: {e:?}")), rep),
            }
        }
        {
            let sigmas: Vec<repairable::Sigma<C>> = hid.iter().map(|h| C::w_repair2(deltas_for.get(h).map(|v| v.as_slice()).unwrap_or(&[]))).collect();
            let legacy = frost::keys::PublicKeyPackage::<C>::new(pk.verifying_shares().clone(), *pk.verifying_key(), None);
            for (name, pkx, must_succeed) in [("current", pk.clone(), true), ("legacy (no recorded threshold)", legacy, false)] {
                rep.evaluations += 1;
                match C::w_repair3(&sigmas, target_id, &pkx) {
                    Err(e) if must_succeed => return Exec::Violation(viol("C11.control_failed", format!("direct part3 against the {name} public key package failed: {e:?}")), rep),
                    Err(_) => rep.probe("legacy_pk_refused"),
                    Ok(k2) => {
                        if share_scalar::<C>(k2.signing_share()) != expect {
                            return Exec::Violation(viol("C11.repaired_share_wrong", format!("direct repair against the {name} public key package: share != f(target)")), rep);
                        }
                        if *k2.min_signers() as usize != t {
                            return Exec::Violation(viol("C11.threshold_wrong", format!("direct repair against the {name} public key package with {} helpers records threshold {}, t = {t}", helpers.len(), k2.min_signers())), rep);
                        }
                        if k2.verifying_key() != pk.verifying_key() || vshare_element::<C>(k2.verifying_share()) != base::<C>(expect) {
                            return Exec::Violation(viol("C11.verifying_share_wrong", format!("direct repair against the {name} public key package: verifying share / group key do not match")), rep);
                        }
                        if !must_succeed {
                            rep.probe("legacy_pk_repaired");
                        }
                    }
                }
            }
            rep.probe("direct_repair");
        }
    }
    // refusals (direct calls with a helper's real key package)
    {
        let h0 = helpers[0];
        let hkp = all_kps[&h0].clone();
        let hid: Vec<Identifier<C>> = helpers.iter().map(|h| sim.ids[*h]).collect();
        let mut rng = SimRng::good(stream(scen.seed, scen.run, "c11/refusals"));
        rep.evaluations += 4;
        // control
        if repairable::repair_share_part1::<C, _>(&hid, &hkp, &mut rng, target_id).is_err() {
            return Exec::Violation(viol("C11.control_failed", "part1 with the real helper list failed".into()), rep);
        }
        // fewer than t helpers (caller included)
        let few: Vec<Identifier<C>> = hid[..t - 1].to_vec();
        if repairable::repair_share_part1::<C, _>(&few, &hkp, &mut rng, target_id).is_ok() {
            return Exec::Violation(viol("C11.too_few_helpers_accepted", format!("part1 accepted {} < t = {t} helpers", t - 1)), rep);
        }
        // duplicate helpers: right length, one entry repeated
        if hid.len() >= 2 {
            let mut dup = hid.clone();
            let last = dup.len() - 1;
            dup[last] = dup[1.min(last - 0)];
            if dup[last] == dup[0] || dup.len() > 2 {
                // ensure the caller is still listed
                dup[0] = hid[0];
            }
            let distinct: std::collections::BTreeSet<_> = dup.iter().collect();
            if distinct.len() < dup.len() && repairable::repair_share_part1::<C, _>(&dup, &hkp, &mut rng, target_id).is_ok() {
                return Exec::Violation(viol("C11.duplicate_helpers_accepted", "part1 accepted a helper list with a duplicate".into()), rep);
            }
            // duplicates padding a too-small set up to t entries
            let mut pad = vec![hid[0]; t];
            if t >= 2 {
                pad[1] = hid[1];
            }
            let distinct: std::collections::BTreeSet<_> = pad.iter().collect();
            if distinct.len() < pad.len() && repairable::repair_share_part1::<C, _>(&pad, &hkp, &mut rng, target_id).is_ok() {
                return Exec::Violation(viol("C11.duplicate_helpers_accepted", "part1 accepted duplicates padding the list to t entries".into()), rep);
            }
        }
        // a list that omits the calling helper
        let outsider: Option<usize> = (0..n).find(|p| !helpers.contains(p) && *p != target);
        let mut without: Vec<Identifier<C>> = hid[1..].to_vec();
        if let Some(o) = outsider {
            without.push(sim.ids[o]);
        }
        if without.len() >= t && repairable::repair_share_part1::<C, _>(&without, &hkp, &mut rng, target_id).is_ok() {
            return Exec::Violation(viol("C11.list_without_caller_accepted", "part1 accepted a helper list that omits the caller".into()), rep);
        }
        rep.probe("refusals_checked");
    }
    rep.nontrivial = true;
    rep.extra_shapes.push(format!("{}|{}", rep.shape, if lost.is_some() { "existing" } else { "new" }));
    rep.sample = Some(json!({"suite": scen.suite, "n": scen.n, "t": scen.t, "target": target, "helpers": helpers, "new_identifier": lost.is_none(), "faults": scen.faults, "sched": format!("{:?}", scen.sched)}));
    Exec::Ok(rep)
}
