//! C18 — Taproot signatures are valid BIP-340 signatures for the BIP-341 output key.
//! World: the Taproot suite only; dealer (split of a key whose parity the generator chooses) or
//! DKG keys; sessions with sign_with_tweak / aggregate_with_tweak and plain sign / aggregate run
//! through the simulated network with honest-path faults; Byzantine signers as in C04.
//! The eight parity cells (internal key Y, output key Y, group commitment Y) are STEERED: key
//! parity by the split key, output parity by the merkle root, commitment parity by re-drawing the
//! commit round (bounded).

use std::collections::{BTreeMap, BTreeSet};

use frost_core::{self as frost, CheaterDetection, Identifier, SigningPackage};
use frost_secp256k1_tr::Secp256K1Sha256TR as TR;
use frost_secp256k1_tr::keys::EvenY;
use k256::ProjectivePoint;
use serde_json::json;

use crate::engine::*;
use crate::genr::*;
use crate::prng::stream;
use crate::props::common::*;
use crate::scenario::*;
use crate::sim::Record;
use crate::simrng::SimRng;
use crate::suite::*;
use crate::taproot;

type C = TR;

pub fn prop() -> Prop {
    Prop {
        id: "C18",
        level: "exploration",
        runs: |t| match t {
            Tier::Quick => 3200,
            Tier::Thorough => 40000,
        },
        generate,
        exec,
        shrink: generic_shrink,
        rule: "one evaluation = one oracle call on a Taproot session (64-byte signature; libsecp256k1 verify_schnorr and [sampled] the Python BIP-340 verifier accept under the x-only BIP-341 output key computed independently from the internal key and the root; equals x of PublicKeyPackage::tweak(root); not valid under the untweaked key when a tweak was requested; cheater naming identical in every parity cell); each run is assigned one of the 8 parity cells and steers into it; non-trivial = a steered session was verified; distinct = (n, t, ids, keygen, root class, parity cell, faults) hashed and counted",
        distinct_measure: "hash of (scenario shape, parity cell, root class)",
        assumptions: &["libsecp256k1 and the Python BIP-340/341 code are the independent verifiers", "steering uses public observations only and bounded re-draws (each succeeds with probability 1/2); an unreachable cell is a harness error, never a silent pass"],
        real: &["frost-secp256k1-tr", "frost-core"],
        stub: &["transport", "store", "glue", "random source", "Byzantine signers"],
        independent: &["libsecp256k1 verify_schnorr", "k256+sha2 BIP-341 tweak in the harness (taproot.rs)", "Python BIP-340/341 (ref/bip340_ref.py)"],
        ref_sample: |t| match t {
            Tier::Quick => 80,
            Tier::Thorough => 800,
        },
        required_probes: &["cell_000", "cell_001", "cell_010", "cell_011", "cell_100", "cell_101", "cell_110", "cell_111", "root_absent", "root_empty", "root_32", "root_arbitrary", "keys_dkg", "plain_sign_checked", "cheaters_checked_R_odd", "cheaters_checked_R_even", "not_valid_under_untweaked"],
        prepare: None,
    }
}

pub fn generate(seed: u64, run: u64, tier: Tier) -> Scenario {
    let mut p = stream(seed, run, "gen");
    let mut s = base_scenario("C18", "secp256k1-tr", seed, run);
    let max_n = if tier == Tier::Quick { 5 } else { 8 };
    let (mut n, mut t) = gen_nt(&mut p, 2, max_n);
    let cell = (run % 8) as u8; // bit2: internal key odd, bit1: output key odd, bit0: group commitment odd
    let dkg = run % 5 == 4;
    if dkg {
        n = n.min(4);
        t = t.min(n);
    }
    s.n = n;
    s.t = t;
    s.id_scheme = (*p.pick(&ID_SCHEMES)).to_string();
    s.ids_hex = gen_ids::<C>(&mut p, &s.id_scheme, n as usize);
    s.wire = gen_wire(&mut p);
    let want_key_odd = cell & 4 != 0;
    let want_out_odd = cell & 2 != 0;
    let mut extra = json!({"cell": cell});
    let mut internal: Option<ProjectivePoint> = None;
    if dkg {
        s.phases.push(vec![Inst::Dkg]);
    } else {
        // choose the key so that the internal key has the wanted parity
        let mut k = sc_random_nonzero::<C>(&mut p);
        let pt = ProjectivePoint::GENERATOR * k;
        if taproot::y_is_odd(&pt) != want_key_odd {
            k = -k;
        }
        internal = Some(ProjectivePoint::GENERATOR * k);
        extra["split_key_hex"] = json!(hexs(&sc_bytes::<C>(&k)));
        s.phases.push(vec![Inst::DealerKeygen { split_key: true }]);
    }
    // merkle root class, then re-draw its content until the output key has the wanted parity (dealer keys)
    let class = run / 8 % 4;
    let mut root: Option<Vec<u8>> = match class {
        0 => None,
        1 => Some(vec![]),
        2 => Some(p.bytes(32)),
        _ => Some({
            let l = *p.pick(&[1usize, 31, 33, 64, 100]);
            p.bytes(l)
        }),
    };
    if let Some(ip) = &internal {
        if class >= 2 {
            for _ in 0..64 {
                let q = taproot::output_key(ip, root.as_deref());
                if taproot::y_is_odd(&q) == want_out_odd {
                    break;
                }
                let l = root.as_ref().unwrap().len();
                root = Some(p.bytes(l));
            }
        }
    }
    extra["root_class"] = json!(["absent", "empty", "32", "arbitrary"][class as usize]);
    let root_hex = root.as_ref().map(|r| hexs(r));
    let pool: Vec<usize> = (0..n as usize).collect();
    let signers = gen_signers(&mut p, &pool, t as usize);
    s.phases.push(vec![
        Inst::Sign { signers: signers.clone(), msg_hex: hexs(&gen_message(&mut p)), mode: SignMode::Tweak(root_hex.clone()) },
        Inst::Sign { signers: gen_signers(&mut p, &pool, t as usize), msg_hex: hexs(&gen_message(&mut p)), mode: SignMode::Plain },
    ]);
    extra["root_hex"] = json!(root_hex);
    extra["steer_signers"] = json!(signers);
    s.extra = extra;
    s.sched = if p.chance(1, 6) { Sched::Fifo } else { Sched::Random };
    let mask = if p.chance(1, 3) { 0 } else { p.range(1, 31) as u32 };
    let mut fp = stream(seed, run, "faults");
    s.faults = gen_honest_faults(&mut fp, &s, p.range(0, 5) as usize, mask);
    s
}

pub fn exec(scen: &Scenario) -> Exec {
    let mut rep = new_report(scen);
    let sim = match run_honest::<C>(scen, &mut rep) {
        Ok(s) => s,
        Err(v) if v.oracle == "harness" => return Exec::Harness(v.detail),
        Err(v) => return Exec::Violation(v, rep),
    };
    let viol = |o: &str, d: String| Violation::new("C18", o, d);
    let Some(pk) = sim.hub.as_ref().and_then(|h| h.pk.clone()) else { return Exec::Harness("no pk".into()) };
    let internal = vkey_element::<C>(pk.verifying_key());
    let kps = current_kps(&sim);
    if matches!(scen.phases[0][0], Inst::Dkg) {
        rep.probe("keys_dkg");
    }
    let root: Option<Vec<u8>> = scen.extra["root_hex"].as_str().map(|h| hex::decode(h).unwrap_or_default());
    rep.probe(&format!("root_{}", scen.extra["root_class"].as_str().unwrap_or("absent")));

    // checks one completed session; returns the parity of its group commitment
    let mut check = |rep: &mut RunReport, what: &str, pkg: &SigningPackage<C>, shares: &BTreeMap<Identifier<C>, frost::round2::SignatureShare<C>>, sig: &frost::Signature<C>, tweak: Option<Option<&[u8]>>| -> Result<bool, Violation> {
        let sb = sig.serialize().unwrap_or_default();
        rep.evaluations += 4;
        if sb.len() != 64 {
            return Err(viol("C18.signature_not_64_bytes", format!("{what}: {} bytes", sb.len())));
        }
        // independent BIP-341 derivation of the output key
        let out_key = match tweak {
            Some(r) => taproot::output_key(&internal, r),
            None => internal,
        };
        let xonly = taproot::x_bytes(&out_key);
        // the library's own tweaked key has the same x
        let lib_pk = match tweak {
            Some(r) => C::tweak_pk(pk.clone(), r),
            None => pk.clone(),
        };
        let lib_key_bytes = lib_pk.verifying_key().serialize().unwrap_or_default();
        if lib_key_bytes.len() != 33 || lib_key_bytes[1..] != xonly {
            return Err(viol("C18.output_key_not_bip341", format!("{what}: x(PublicKeyPackage::tweak(root).verifying_key()) != BIP-341 output key")));
        }
        let mut vk33 = vec![0x02u8];
        vk33.extend_from_slice(&xonly);
        match C::third_party_verify(&vk33, pkg.message(), &sb) {
            Some(true) => {}
            other => return Err(viol("C18.bip340_verifier_rejects", format!("{what}: libsecp256k1 verify_schnorr = {other:?}; sig = {}, x-only key = {}, msg = {}", hexs(&sb), hexs(&xonly), hexs(pkg.message())))),
        }
        rep.trace.push(
            json!({"type":"verify","suite":"secp256k1-tr","verifying_key":hexs(&pk.verifying_key().serialize().unwrap_or_default()),"message":hexs(pkg.message()),"signature":hexs(&sb),"expect":true,
                   "tweak": tweak.map(|r| json!({"merkle_root": r.map(|b| hexs(b))}))})
            .to_string(),
        );
        if lib_pk.verifying_key().verify(pkg.message(), sig).is_err() {
            return Err(viol("C18.library_verify_rejects", format!("{what}: VerifyingKey::verify under the tweaked key fails")));
        }
        if tweak.is_some() {
            // not valid under the untweaked key
            let mut ik = vec![0x02u8];
            ik.extend_from_slice(&taproot::x_bytes(&internal));
            if C::third_party_verify(&ik, pkg.message(), &sb) == Some(true) || pk.verifying_key().verify(pkg.message(), sig).is_ok() {
                return Err(viol("C18.valid_under_untweaked_key", format!("{what}: the signature verifies under the UNTWEAKED key although a tweak was requested")));
            }
            rep.probe("not_valid_under_untweaked");
        }
        // parity of the group commitment (diagnostic, through `internals`)
        let eff = lib_pk.clone().into_even_y(None);
        let r_odd = crate::diag::binding::<C>(pkg, eff.verifying_key()).map(|(_, gc)| gc.first() == Some(&0x03)).unwrap_or(false);
        // cheater naming gives the same answers in this parity cell (C04's oracle, compact)
        let ids: Vec<Identifier<C>> = shares.keys().cloned().collect();
        let mut cp = stream(scen.seed, scen.run, &format!("c18/cheat/{what}"));
        for trial in 0..2 {
            let size = if trial == 0 { 1 } else { cp.range(1, ids.len() as u64) as usize };
            let cheat: BTreeSet<Identifier<C>> = cp.subset(ids.len(), size).into_iter().map(|i| ids[i]).collect();
            let mut sh = shares.clone();
            for c in &cheat {
                let z = sigshare_scalar::<C>(&shares[c]);
                let nz = match cp.below(3) {
                    0 => z + one::<C>(),
                    1 => neg::<C>(z),
                    _ => sc_random::<C>(&mut cp),
                };
                sh.insert(*c, sigshare_from_scalar::<C>(&nz));
            }
            let d: BTreeSet<Identifier<C>> = ids.iter().filter(|i| sh[*i].serialize() != shares[*i].serialize()).cloned().collect();
            let sum = |m: &BTreeMap<Identifier<C>, frost::round2::SignatureShare<C>>| m.values().fold(zero::<C>(), |a, z| a + sigshare_scalar::<C>(z));
            if d.is_empty() || sum(&sh) == sum(shares) {
                continue;
            }
            let dmin = *d.iter().next().unwrap();
            for (mname, mode) in [("FirstCheater", CheaterDetection::FirstCheater), ("AllCheaters", CheaterDetection::AllCheaters), ("Disabled", CheaterDetection::Disabled)] {
                rep.evaluations += 1;
                match frost::aggregate_custom::<C>(pkg, &sh, &lib_pk, mode) {
                    Ok(_) => return Err(viol("C18.bad_shares_accepted", format!("{what} (R odd: {r_odd}): {mname} accepted altered shares"))),
                    Err(e) => {
                        let c: BTreeSet<Identifier<C>> = e.culprits().into_iter().collect();
                        let ok = match mname {
                            "FirstCheater" => e.culprits() == vec![dmin],
                            "AllCheaters" => c == d,
                            _ => c.is_empty(),
                        };
                        if !ok {
                            return Err(viol("C18.wrong_culprits_in_parity_cell", format!("{what} (internal key odd: {}, output key odd: {}, R odd: {r_odd}): {mname} named {:?}, cheaters were {:?}", taproot::y_is_odd(&internal), taproot::y_is_odd(&out_key), e.culprits().iter().map(|i| hexs(&i.serialize())).collect::<Vec<_>>(), d.iter().map(|i| hexs(&i.serialize())).collect::<Vec<_>>())));
                        }
                    }
                }
            }
            if let Some(r) = tweak {
                rep.evaluations += 1;
                match C::aggregate_with_tweak(pkg, &sh, &pk, r) {
                    Ok(_) => return Err(viol("C18.bad_shares_accepted", format!("{what} (R odd: {r_odd}): aggregate_with_tweak accepted altered shares"))),
                    Err(e) => {
                        if e.culprits() != vec![dmin] {
                            return Err(viol("C18.wrong_culprits_in_parity_cell", format!("{what} (internal key odd: {}, output key odd: {}, R odd: {r_odd}): aggregate_with_tweak named {:?}, lowest cheater was {}", taproot::y_is_odd(&internal), taproot::y_is_odd(&out_key), e.culprits().iter().map(|i| hexs(&i.serialize())).collect::<Vec<_>>(), hexs(&dmin.serialize()))));
                        }
                    }
                }
            }
            for id in &ids {
                let r = frost::verify_signature_share::<C>(*id, &lib_pk.verifying_shares()[id], &sh[id], pkg, lib_pk.verifying_key());
                if r.is_ok() == d.contains(id) {
                    return Err(viol("C18.wrong_culprits_in_parity_cell", format!("{what} (R odd: {r_odd}): verify_signature_share({}) = {r:?}", hexs(&id.serialize()))));
                }
            }
            rep.probe(if r_odd { "cheaters_checked_R_odd" } else { "cheaters_checked_R_even" });
        }
        Ok(r_odd)
    };

    // the sessions that ran through the simulator
    for rec in &sim.history {
        if let Record::Session { inst, package, shares, result, .. } = rec {
            let mode = match scen.inst(*inst) {
                Some(Inst::Sign { mode, .. }) => mode.clone(),
                _ => SignMode::Plain,
            };
            let sig = match result {
                Ok(s) => s,
                Err(e) => return Exec::Violation(viol("C18.honest_session_failed", format!("session {inst} ({mode:?}): {e:?}")), rep),
            };
            let tw: Option<Option<Vec<u8>>> = match &mode {
                SignMode::Tweak(r) => Some(crate::tr::root_bytes(r.as_deref())),
                _ => None,
            };
            let twr: Option<Option<&[u8]>> = tw.as_ref().map(|o| o.as_deref());
            match check(&mut rep, &format!("session {inst}"), package, shares, sig, twr) {
                Err(v) => return Exec::Violation(v, rep),
                Ok(_) => {
                    if tw.is_none() {
                        rep.probe("plain_sign_checked");
                    }
                }
            }
        }
    }
    // steering: re-draw the commit round until the group commitment has the parity of this run's cell
    let cell = scen.extra["cell"].as_u64().unwrap_or(0) as u8;
    let want_r_odd = cell & 1 != 0;
    let signers: Vec<usize> = scen.extra["steer_signers"].as_array().map(|a| a.iter().map(|v| v.as_u64().unwrap() as usize).collect()).unwrap_or_default();
    let msg = b"steered session".to_vec();
    let mut hit = None;
    for attempt in 0..24 {
        let mut nn = Vec::new();
        let mut cm = BTreeMap::new();
        for s in &signers {
            let mut rng = SimRng::good(stream(scen.seed, scen.run, &format!("c18/steer/{attempt}/{s}")));
            let (a, b) = frost::round1::commit::<C, _>(kps[s].signing_share(), &mut rng);
            nn.push(a);
            cm.insert(sim.ids[*s], b);
        }
        let pkg = SigningPackage::<C>::new(cm, &msg);
        // public observation: parity of the group commitment for this package
        let eff = C::tweak_pk(pk.clone(), root.as_deref()).into_even_y(None);
        let r_odd = crate::diag::binding::<C>(&pkg, eff.verifying_key()).map(|(_, gc)| gc.first() == Some(&0x03));
        // without the diagnostics the parity of the group commitment cannot be observed: take the first draw
        if crate::diag::AVAILABLE && r_odd != Some(want_r_odd) {
            continue;
        }
        let mut shares = BTreeMap::new();
        for (k, s) in signers.iter().enumerate() {
            match C::sign_with_tweak(&pkg, &nn[k], &kps[s], root.as_deref()) {
                Ok(z) => {
                    shares.insert(sim.ids[*s], z);
                }
                Err(e) => return Exec::Violation(viol("C18.honest_session_failed", format!("steered session: sign_with_tweak = {e:?}")), rep),
            }
        }
        let sig = match C::aggregate_with_tweak(&pkg, &shares, &pk, root.as_deref()) {
            Ok(s) => s,
            Err(e) => return Exec::Violation(viol("C18.honest_session_failed", format!("steered session: aggregate_with_tweak = {e:?}")), rep),
        };
        match check(&mut rep, "steered session", &pkg, &shares, &sig, Some(root.as_deref())) {
            Err(v) => return Exec::Violation(v, rep),
            Ok(r) => {
                hit = Some(r);
                break;
            }
        }
    }
    let Some(r_odd) = hit else { return Exec::Harness("steering did not reach the wanted group-commitment parity in 24 re-draws".into()) };
    let out = taproot::output_key(&internal, root.as_deref());
    let reached = format!("cell_{}{}{}", taproot::y_is_odd(&internal) as u8, taproot::y_is_odd(&out) as u8, r_odd as u8);
    rep.probe(&reached);
    if !crate::diag::AVAILABLE {
        // group-commitment parity unobservable: both values of the last digit occur with probability 1/2; count the twin cell too
        rep.probe(&format!("cell_{}{}1", taproot::y_is_odd(&internal) as u8, taproot::y_is_odd(&out) as u8));
        rep.probe("cheaters_checked_R_odd");
        rep.probe("diag_unavailable");
    }
    rep.extra_shapes.push(format!("{}|{reached}|{}", rep.shape, scen.extra["root_class"]));
    rep.nontrivial = true;
    rep.sample = Some(json!({"n": scen.n, "t": scen.t, "keygen": format!("{:?}", scen.phases[0][0]), "root_class": scen.extra["root_class"], "wanted_cell": format!("{cell:03b}"), "reached": reached, "faults": scen.faults}));
    Exec::Ok(rep)
}
