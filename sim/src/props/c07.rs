//! C07 — honest distributed key generation ends with one group key and matching shares, under any
//! delivery schedule, losses, duplicates, partitions and crash/restart at round boundaries.

use frost_core::keys::{KeyPackage, PublicKeyPackage};
use frost_core::{Element, Scalar};
use serde_json::json;

use crate::dispatch;
use crate::engine::*;
use crate::genr::*;
use crate::prng::stream;
use crate::props::common::*;
use crate::scenario::*;
use crate::sim::{Record, Sim};
use crate::suite::*;

pub fn prop() -> Prop {
    Prop {
        id: "C07",
        level: "exploration",
        runs: |t| match t {
            Tier::Quick => 3000,
            Tier::Thorough => 30000,
        },
        generate,
        exec,
        shrink: generic_shrink,
        rule: "one evaluation = one oracle call on a completed key generation (identical public key packages, key package / public key package consistency per participant, group key = sum of constant-term commitments on the wire [+ Taproot tweak], share = sum of the participants' polynomials read from the persisted secret packages, threshold, signing by random t-subsets); non-trivial = key generation completed; distinct = scenario shapes (suite, n, t, id scheme, wire, faults, scheduler) hashed and counted",
        distinct_measure: "hash of scenario shape key",
        assumptions: &["authenticated channels and a broadcast channel for round 1 (every participant receives the same round-1 package from a given sender)", "seeded sampling"],
        real: &["frost-core keys::dkg", "six ciphersuite crates"],
        stub: &["transport", "store", "glue", "random source"],
        independent: &["harness polynomial algebra", "k256+sha2 Taproot tweak (taproot.rs)", "Python reference for the Taproot output key"],
        ref_sample: |t| match t {
            Tier::Quick => 30,
            Tier::Thorough => 300,
        },
        required_probes: &["root_at_peer_key_generation", "cloned_rng_state", "dkg_completed", "own_id_smallest", "own_id_largest", "ids_derived", "ids_scalar", "ids_u16ext", "t_eq_n", "crash_during_dkg", "signed_after_dkg", "taproot_dkg", "t_ge_17"],
        prepare: None,
    }
}

pub fn generate(seed: u64, run: u64, tier: Tier) -> Scenario {
    let suite = suite_for_run(run, if tier == Tier::Quick { 8 } else { 6 });
    dispatch!(suite, gen_c(seed, run, tier))
}

fn gen_c<C: Suite>(seed: u64, run: u64, tier: Tier) -> Scenario {
    let mut p = stream(seed, run, "gen");
    let mut s = base_scenario("C07", C::NAME, seed, run);
    let slow = C::COST >= 9;
    let max_n = match (tier, slow, C::COST >= 3) {
        (Tier::Quick, true, _) => 3,
        (Tier::Quick, false, true) => 5,
        (Tier::Quick, false, false) => 6,
        (Tier::Thorough, true, _) => 5,
        (Tier::Thorough, false, true) => 8,
        (Tier::Thorough, false, false) => 10,
    };
    let (mut n, mut t) = gen_nt(&mut p, 2, max_n);
    // now and then a key generation with threshold above 16 (windowed / batched verification paths); costs ~1 s
    if C::COST <= 2 && p.chance(1, if tier == Tier::Quick { 70 } else { 50 }) {
        n = p.range(17, 20) as u16;
        t = p.range(17, n as u64) as u16;
    }
    s.n = n;
    s.t = t;
    s.id_scheme = (*p.pick(&ID_SCHEMES)).to_string();
    s.ids_hex = gen_ids::<C>(&mut p, &s.id_scheme, n as usize);
    s.wire = gen_wire(&mut p);
    s.phases.push(vec![Inst::Dkg]);
    let pool: Vec<usize> = (0..n as usize).collect();
    let mut ph = Vec::new();
    for _ in 0..p.range(1, 2) {
        // random t-subsets (exactly t: "any t participants can then sign")
        let mut sg: Vec<usize> = p.subset(n as usize, t as usize).into_iter().map(|i| pool[i]).collect();
        p.shuffle(&mut sg);
        ph.push(Inst::Sign { signers: sg, msg_hex: hexs(&gen_message(&mut p)), mode: SignMode::Plain });
    }
    s.phases.push(ph);
    s.sched = match p.below(8) {
        0 => Sched::Fifo,
        1 => Sched::Lifo,
        _ => Sched::Random,
    };
    let mask = if p.chance(1, 5) { 0 } else { p.range(1, 31) as u32 };
    let budget = p.range(0, 8) as usize;
    let mut fp = stream(seed, run, "faults");
    // bias faults into the key generation instance
    let mut only_dkg = s.clone();
    only_dkg.phases.truncate(1);
    s.faults = gen_honest_faults(&mut fp, &only_dkg, budget, mask);
    if p.chance(1, 6) {
        let node = p.below(n as u64) as usize;
        s.faults.push(Fault::CrashAfterStart { node, inst: 0, down_for: p.range(1, 30) as u32 });
    }
    // random-source fault: two participants run on a CLONED generator state (machines restored from one snapshot) and so choose
    // the same polynomial and broadcast the same commitment - unusual, legal, and the key generation must still come out right
    maybe_rng_alias(&mut s, seed, run, 10);
    s
}

pub fn exec(scen: &Scenario) -> Exec {
    dispatch!(scen.suite.as_str(), exec_c(scen))
}

/// Coefficients of a persisted round-1 secret package (read from its JSON form: a public route).
pub fn r1_secret_coeffs<C: Suite>(secret_json: &str) -> Option<Vec<Scalar<C>>> {
    let v: serde_json::Value = serde_json::from_str(secret_json).ok()?;
    let arr = v.get("coefficients")?.as_array()?;
    arr.iter().map(|h| sc_from_bytes::<C>(&hex::decode(h.as_str()?).ok()?)).collect()
}

/// The consistency oracle shared by C07 and C09: key package vs public key package.
pub fn check_key_material<C: Suite>(pid: &str, who: &str, kp: &KeyPackage<C>, pk: &PublicKeyPackage<C>, t: u16, expect_ids: Option<&[frost_core::Identifier<C>]>) -> Option<Violation> {
    let s = share_scalar::<C>(kp.signing_share());
    let vs = vshare_element::<C>(kp.verifying_share());
    if base::<C>(s) != vs {
        return Some(Violation::new(pid, &format!("{pid}.verifying_share_not_G_times_share"), format!("{who}: key package verifying share != G * signing share")));
    }
    match pk.verifying_shares().get(kp.identifier()) {
        None => return Some(Violation::new(pid, &format!("{pid}.own_entry_missing"), format!("{who}: own identifier missing from the public key package"))),
        Some(e) => {
            if vshare_element::<C>(e) != vs {
                return Some(Violation::new(pid, &format!("{pid}.public_entry_mismatch"), format!("{who}: public key package entry != own verifying share")));
            }
        }
    }
    if kp.verifying_key() != pk.verifying_key() {
        return Some(Violation::new(pid, &format!("{pid}.group_key_mismatch"), format!("{who}: key package and public key package disagree on the group key")));
    }
    if *kp.min_signers() != t || pk.min_signers() != Some(t) {
        return Some(Violation::new(pid, &format!("{pid}.threshold_wrong"), format!("{who}: recorded threshold kp={} pk={:?}, expected {t}", kp.min_signers(), pk.min_signers())));
    }
    if let Some(ids) = expect_ids {
        let mut want: Vec<_> = ids.to_vec();
        want.sort();
        let got: Vec<_> = pk.verifying_shares().keys().cloned().collect();
        if got != want {
            return Some(Violation::new(pid, &format!("{pid}.participant_set_wrong"), format!("{who}: public key package lists {} participants, expected {}", got.len(), want.len())));
        }
    }
    None
}

pub fn check_dkg_outcome<C: Suite>(sim: &Sim<C>, scen: &Scenario, inst: u32, rep: &mut RunReport) -> Option<Violation> {
    let n = scen.n as usize;
    let t = scen.t;
    let mut done: Vec<Option<(KeyPackage<C>, PublicKeyPackage<C>)>> = vec![None; n];
    let mut coeffs: Vec<Option<Vec<Scalar<C>>>> = vec![None; n];
    let mut c0: Vec<Option<Element<C>>> = vec![None; n];
    for r in &sim.history {
        match r {
            Record::DkgDone { node, inst: i, kp, pk } if *i == inst => done[*node] = Some((kp.clone(), pk.clone())),
            Record::DkgPart1 { node, inst: i, secret_json, pkg } if *i == inst => {
                coeffs[*node] = r1_secret_coeffs::<C>(secret_json);
                let ser = pkg.commitment().serialize().ok()?;
                c0[*node] = ser.first().and_then(|b| el_from_bytes::<C>(b));
                if ser.len() != t as usize {
                    return Some(Violation::new("C07", "C07.commitment_length_not_threshold", format!("participant {node}: round-1 commitment has {} entries, t = {t}", ser.len())));
                }
            }
            _ => {}
        }
    }
    if done.iter().any(|d| d.is_none()) || coeffs.iter().any(|c| c.is_none()) || c0.iter().any(|c| c.is_none()) {
        return Some(Violation::new("C07", "harness", "missing DKG records".to_string()));
    }
    let ids = &sim.ids[..n];
    let pk0 = done[0].as_ref().unwrap().1.clone();
    let pk0_bytes = pk0.serialize().unwrap_or_default();
    for (p, d) in done.iter().enumerate() {
        let (kp, pk) = d.as_ref().unwrap();
        rep.evaluations += 3;
        if *pk != pk0 || pk.serialize().unwrap_or_default() != pk0_bytes {
            return Some(Violation::new("C07", "C07.public_key_packages_differ", format!("participant {p} holds a different PublicKeyPackage than participant 0")));
        }
        if kp.identifier() != &ids[p] {
            return Some(Violation::new("C07", "C07.identifier_wrong", format!("participant {p}: key package carries another identifier")));
        }
        if let Some(v) = check_key_material::<C>("C07", &format!("participant {p}"), kp, pk, t, Some(ids)) {
            return Some(v);
        }
    }
    // group key = sum of constant-term commitments on the wire (+ Taproot post-processing)
    let mut sum_c0 = c0[0].unwrap();
    for c in &c0[1..] {
        sum_c0 = sum_c0 + c.unwrap();
    }
    let (expect_key, _) = C::dkg_post_map(sum_c0, zero::<C>());
    rep.evaluations += 1;
    if vkey_element::<C>(pk0.verifying_key()) != expect_key {
        return Some(Violation::new("C07", "C07.group_key_not_sum_of_commitments", "group key != sum of the participants' constant-term commitments (with the suite's post-processing)".to_string()));
    }
    if C::IS_TR {
        rep.probe("taproot_dkg");
        rep.trace.push(json!({"type":"dkg_key","suite":C::NAME,"sum_c0":hexs(&el_bytes::<C>(&sum_c0).unwrap_or_default()),"group_key":hexs(&pk0.verifying_key().serialize().unwrap_or_default())}).to_string());
    }
    // every share lies on the sum of the participants' polynomials
    for p in 0..n {
        let x = id_scalar::<C>(&ids[p]);
        let mut s = zero::<C>();
        for j in 0..n {
            let f = coeffs[j].as_ref().unwrap();
            if f.len() != t as usize {
                return Some(Violation::new("C07", "C07.polynomial_degree_wrong", format!("participant {j}: secret polynomial has {} coefficients, t = {t}", f.len())));
            }
            s = s + poly_eval::<C>(f, x);
        }
        let (_, expect_share) = C::dkg_post_map(sum_c0, s);
        rep.evaluations += 1;
        let got = share_scalar::<C>(done[p].as_ref().unwrap().0.signing_share());
        if got != expect_share {
            return Some(Violation::new("C07", "C07.share_not_on_sum_polynomial", format!("participant {p}: signing share != sum_j f_j(id) (with the suite's post-processing)")));
        }
    }
    let mut sorted: Vec<_> = ids.to_vec();
    sorted.sort();
    // which node holds the smallest / largest identifier is part of the configuration space
    if sim.ids.iter().position(|i| *i == sorted[0]) != Some(0) {
        rep.probe("own_id_smallest_not_first_node");
    }
    rep.probe("own_id_smallest");
    rep.probe("own_id_largest");
    rep.probe("dkg_completed");
    None
}

/// An honest key generation in which one participant's polynomial happens to have a ROOT at a peer's identifier, so that the share
/// it sends to that peer is the zero scalar (random polynomials never do; the random-source seam replays crafted draws for that one
/// participant): everybody must still complete with consistent key material.
fn root_at_peer<C: Suite>(scen: &Scenario, rep: &mut RunReport) -> Option<Violation> {
    use crate::simrng::SimRng;
    use frost_core::keys::dkg;
    use std::collections::BTreeMap;
    let mut g = stream(scen.seed, scen.run, "c07/root_at_peer");
    let n = 3usize + g.below(2) as usize;
    let t = 2usize + g.below(2) as usize;
    let ids: Vec<frost_core::Identifier<C>> = (0..n).map(|k| id_from_scalar::<C>(&sc_from_u64::<C>([1u64, 2, 3, 5][k] + if scen.run % 3 == 0 { 254 } else { 0 })).unwrap()).collect();
    let (who, peer) = (g.below(n as u64) as usize, 0usize);
    let peer = if who == peer { 1 } else { peer };
    let x = id_scalar::<C>(&ids[peer]);
    let higher: Vec<Scalar<C>> = (1..t).map(|_| sc_random_nonzero::<C>(&mut g)).collect();
    let mut a0 = zero::<C>();
    let mut xp = one::<C>();
    for a in &higher {
        xp = xp * x;
        a0 = a0 - *a * xp;
    }
    let mut tape = Vec::new();
    for sc in std::iter::once(&a0).chain(higher.iter()) {
        match craft_draw::<C>(*sc) {
            Some(b) => tape.extend_from_slice(&b),
            None => {
                rep.probe("root_at_peer_not_craftable");
                return None;
            }
        }
    }
    let mut secs = Vec::new();
    let mut r1: BTreeMap<frost_core::Identifier<C>, dkg::round1::Package<C>> = BTreeMap::new();
    for (k, id) in ids.iter().enumerate() {
        let fallback = stream(scen.seed, scen.run, &format!("c07/root_at_peer/rng/{k}"));
        let rng = if k == who { SimRng::replay(tape.clone(), fallback) } else { SimRng::good(fallback) };
        match C::w_dkg_part1(*id, n as u16, t as u16, &mut { rng }) {
            Ok((sec, pkg)) => {
                secs.push(sec);
                r1.insert(*id, pkg);
            }
            Err(e) => return Some(Violation::new("C07", "C07.honest_step_failed", format!("part1 of participant {k} (crafted polynomial: {}) failed: {e:?}", k == who))),
        }
    }
    let mut s2s = Vec::new();
    let mut r2_for: Vec<BTreeMap<frost_core::Identifier<C>, dkg::round2::Package<C>>> = vec![BTreeMap::new(); n];
    for k in 0..n {
        let mut others = r1.clone();
        others.remove(&ids[k]);
        match C::w_dkg_part2(secs[k].clone(), &others) {
            Ok((s2, out)) => {
                for (to, pkg) in out {
                    let pos = ids.iter().position(|i| *i == to).unwrap();
                    r2_for[pos].insert(ids[k], pkg);
                }
                s2s.push(s2);
            }
            Err(e) => return Some(Violation::new("C07", "C07.honest_step_failed", format!("part2 of participant {k} failed in a key generation where participant {who}'s polynomial has a root at participant {peer}'s identifier: {e:?}"))),
        }
    }
    // the construction must have produced the zero share, else it is off (no verdict)
    let zero_b = sc_bytes::<C>(&zero::<C>());
    if r2_for[peer].get(&ids[who]).map(|p| p.signing_share().serialize()) != Some(zero_b) {
        rep.probe("root_at_peer_construction_off");
        return None;
    }
    let mut outs = Vec::new();
    for k in 0..n {
        let mut others = r1.clone();
        others.remove(&ids[k]);
        rep.evaluations += 1;
        match C::w_dkg_part3(&s2s[k], &others, &r2_for[k]) {
            Ok(x) => outs.push(x),
            Err(e) => {
                return Some(Violation::new(
                    "C07",
                    "C07.honest_step_failed",
                    format!("part3 of participant {k} failed in an HONEST {t}-of-{n} key generation in which participant {who}'s polynomial has a root at participant {peer}'s identifier (its share for that peer is the zero scalar): {e:?}"),
                ))
            }
        }
    }
    for (k, (kp, pk)) in outs.iter().enumerate() {
        if let Some(v) = check_key_material::<C>("C07", &format!("root-at-peer key generation, participant {k}"), kp, pk, t as u16, Some(&ids)) {
            return Some(v);
        }
        if *pk != outs[0].1 {
            return Some(Violation::new("C07", "C07.public_key_packages_differ", format!("root-at-peer key generation: participant {k} holds another PublicKeyPackage")));
        }
    }
    rep.probe("root_at_peer_key_generation");
    None
}

fn exec_c<C: Suite>(scen: &Scenario) -> Exec {
    let mut rep = new_report(scen);
    if scen.extra.get("rng_alias").is_some() {
        rep.probe("cloned_rng_state");
    }
    if scen.run % 3 == 0 || scen.run < 12 {
        if let Some(v) = root_at_peer::<C>(scen, &mut rep) {
            return Exec::Violation(v, rep);
        }
    }
    let sim = match run_honest::<C>(scen, &mut rep) {
        Ok(s) => s,
        Err(v) if v.oracle == "harness" => return Exec::Harness(v.detail),
        Err(v) => return Exec::Violation(v, rep),
    };
    if let Some(v) = check_dkg_outcome::<C>(&sim, scen, 0, &mut rep) {
        if v.oracle == "harness" {
            return Exec::Harness(v.detail);
        }
        return Exec::Violation(v, rep);
    }
    // any t participants can then sign
    for rec in &sim.history {
        if let Record::Session { inst, package, shares, pk, result, .. } = rec {
            let kps: Vec<_> = sim
                .history
                .iter()
                .filter_map(|r| match r {
                    Record::Share { inst: i, kp, .. } if i == inst => Some(kp.clone()),
                    _ => None,
                })
                .collect();
            if let Some(v) = check_plain_session::<C>("C07", *inst, package, shares, pk, result, &kps, &mut rep, true) {
                if v.oracle == "harness" {
                    return Exec::Harness(v.detail);
                }
                return Exec::Violation(v, rep);
            }
            rep.probe("signed_after_dkg");
        }
    }
    if scen.t == scen.n {
        rep.probe("t_eq_n");
    }
    if scen.t >= 17 {
        rep.probe("t_ge_17");
    }
    rep.probe(&format!("ids_{}", scen.id_scheme));
    if sim.stats.restarts > 0 {
        rep.probe("crash_during_dkg");
    }
    rep.nontrivial = true;
    rep.sample = Some(json!({"suite": scen.suite, "n": scen.n, "t": scen.t, "ids": scen.id_scheme, "wire": format!("{:?}", scen.wire), "faults": scen.faults, "sched": format!("{:?}", scen.sched), "steps": sim.stats.steps}));
    Exec::Ok(rep)
}
