//! C03 — fewer than the threshold can neither sign nor recover the key.
//! World: dealer `split` of a harness-known key through the simulated network. Fault: a Byzantine
//! coalition K (|K| < t) that lies about the threshold in its own key material, controls the
//! coordinator, and pads the signer set with phantom participants.

use std::collections::BTreeMap;

use frost_core::keys::{KeyPackage, PublicKeyPackage, VerifyingShare};
use frost_core::round1::{SigningCommitments, SigningNonces};
use frost_core::{self as frost, Identifier, SigningPackage};
use serde_json::json;

use crate::dispatch;
use crate::engine::*;
use crate::genr::*;
use crate::prng::stream;
use crate::props::common::*;
use crate::scenario::*;
use crate::sim::Record;
use crate::simrng::SimRng;
use crate::suite::*;

pub fn prop() -> Prop {
    Prop {
        id: "C03",
        level: "exploration",
        runs: |t| match t {
            Tier::Quick => 2400,
            Tier::Thorough => 30000,
        },
        generate,
        exec,
        shrink: generic_shrink,
        rule: "one evaluation = one refusal check (sign / aggregate / reconstruct below threshold), one liar-coalition signing attempt (threshold field honest / lowered / None x real-only / phantom-padded x forged or real public key package x 4 aggregate modes) or one degree check; non-trivial = coalition attempt evaluated; distinct = (suite, n, t, |K|, id scheme, padding, threshold lies) tuples hashed and counted",
        distinct_measure: "hash of (scenario shape, coalition size, lie pattern)",
        assumptions: &["'cannot recover the key' is shown as the algebraic facts (degree exactly t-1; t-1 shares interpolate to something else), not as information-theoretic secrecy", "seeded sampling"],
        real: &["frost-core", "six ciphersuite crates"],
        stub: &["transport", "store", "glue", "random source", "Byzantine coalition behaviour"],
        independent: &["harness Lagrange interpolation over the public Field trait"],
        ref_sample: |_| 0,
        required_probes: &["coalition_size_1", "coalition_size_t_minus_1", "padded_phantoms", "lowered_threshold", "threshold_none", "signer_refused", "aggregate_refused", "reconstruct_refused", "degree_checked", "after_refresh", "after_repair"],
        prepare: None,
    }
}

pub fn generate(seed: u64, run: u64, tier: Tier) -> Scenario {
    let suite = suite_for_run(run, 6);
    dispatch!(suite, gen_c(seed, run, tier))
}

fn gen_c<C: Suite>(seed: u64, run: u64, tier: Tier) -> Scenario {
    let mut p = stream(seed, run, "gen");
    let mut s = base_scenario("C03", C::NAME, seed, run);
    let slow = C::COST >= 9;
    let max_n = match (tier, slow) {
        (Tier::Quick, false) => 6,
        (Tier::Thorough, false) => 9,
        (_, true) => 4,
    };
    let (n, t) = gen_nt(&mut p, 2, max_n);
    s.n = n;
    s.t = t;
    s.id_scheme = (*p.pick(&ID_SCHEMES)).to_string();
    s.ids_hex = gen_ids::<C>(&mut p, &s.id_scheme, n as usize);
    s.wire = gen_wire(&mut p);
    s.phases.push(vec![if p.chance(1, 5) && n <= 4 { Inst::Dkg } else { Inst::DealerKeygen { split_key: true } }]);
    let k = match p.below(3) {
        0 => 1,
        1 => t as usize - 1,
        _ => p.range(1, t as u64 - 1) as usize,
    };
    let coalition = p.subset(n as usize, k);
    s.extra = json!({"coalition": coalition, "msg_hex": hexs(&gen_message(&mut p))});
    // a third of the worlds have a history before the attempts: the group refreshes its shares (trusted dealer or distributed),
    // and in half of those a coalition member then loses its share and has it repaired - the key material the refusals are
    // checked with is then what these steps left behind, not what key generation produced
    let mut hp = stream(seed, run, "gen/history");
    if hp.chance(1, 3) {
        let all: Vec<usize> = (0..n as usize).collect();
        let use_dkg = hp.chance(1, 2) && n <= if slow { 3 } else { 4 };
        s.phases.push(vec![if use_dkg { Inst::RefreshDkg { remaining: all } } else { Inst::RefreshDealer { remaining: all } }]);
        if hp.chance(1, 2) && (n as usize) - 1 >= t as usize {
            let target = coalition[hp.below(coalition.len() as u64) as usize];
            let pool: Vec<usize> = (0..n as usize).filter(|x| *x != target).collect();
            let hk = hp.range(t as u64, pool.len() as u64) as usize;
            let mut helpers: Vec<usize> = hp.subset(pool.len(), hk).into_iter().map(|i| pool[i]).collect();
            hp.shuffle(&mut helpers);
            s.phases.push(vec![Inst::Repair { target, helpers }]);
        }
    }
    s
}

pub fn exec(scen: &Scenario) -> Exec {
    dispatch!(scen.suite.as_str(), exec_c(scen))
}

fn commit_for<C: Suite>(kp: &KeyPackage<C>, seed: u64, run: u64, label: &str) -> (SigningNonces<C>, SigningCommitments<C>) {
    let mut rng = SimRng::good(stream(seed, run, label));
    frost::round1::commit::<C, _>(kp.signing_share(), &mut rng)
}

fn with_threshold<C: Suite>(kp: &KeyPackage<C>, min: u16) -> KeyPackage<C> {
    KeyPackage::<C>::new(*kp.identifier(), *kp.signing_share(), *kp.verifying_share(), *kp.verifying_key(), min)
}

fn exec_c<C: Suite>(scen: &Scenario) -> Exec {
    let mut rep = new_report(scen);
    let sim = match run_honest::<C>(scen, &mut rep) {
        Ok(s) => s,
        Err(v) if v.oracle == "harness" => return Exec::Harness(v.detail),
        Err(v) => return Exec::Violation(Violation::new("C03", "C03.control_failed", v.detail), rep),
    };
    let t = scen.t;
    let n = scen.n as usize;
    let kps = current_kps(&sim);
    if scen.phases.iter().any(|ph| matches!(ph.first(), Some(Inst::RefreshDealer { .. }) | Some(Inst::RefreshDkg { .. }))) {
        rep.probe("after_refresh");
    }
    if scen.phases.iter().any(|ph| matches!(ph.first(), Some(Inst::Repair { .. }))) {
        rep.probe("after_repair");
    }
    let pk = match sim.hub.as_ref().and_then(|h| h.pk.clone()) {
        Some(pk) => pk,
        None => return Exec::Harness("no public key package".into()),
    };
    let vk = *pk.verifying_key();
    let msg = hex::decode(scen.extra["msg_hex"].as_str().unwrap_or("")).unwrap_or_default();
    let coalition: Vec<usize> = scen.extra["coalition"].as_array().map(|a| a.iter().map(|v| v.as_u64().unwrap() as usize).collect()).unwrap_or_default();
    let k = coalition.len();
    if k == 0 || k >= t as usize {
        return Exec::Harness("coalition size out of range".into());
    }
    if k == 1 {
        rep.probe("coalition_size_1");
    }
    if k == t as usize - 1 {
        rep.probe("coalition_size_t_minus_1");
    }
    let ckps: Vec<KeyPackage<C>> = coalition.iter().map(|c| kps[c].clone()).collect();
    let viol = |oracle: &str, d: String| Violation::new("C03", oracle, d);

    // ---- A. refusals -------------------------------------------------------------------------
    // honest signers asked to sign a package that lists only the k < t coalition members
    let mut nonces = Vec::new();
    let mut comms: BTreeMap<Identifier<C>, SigningCommitments<C>> = BTreeMap::new();
    for (j, kp) in ckps.iter().enumerate() {
        let (nn, cc) = commit_for::<C>(kp, scen.seed, scen.run, &format!("c03/commit/{j}"));
        comms.insert(*kp.identifier(), cc);
        nonces.push(nn);
    }
    let small_pkg = SigningPackage::<C>::new(comms.clone(), &msg);
    for (j, kp) in ckps.iter().enumerate() {
        rep.evaluations += 1;
        if frost::round2::sign::<C>(&small_pkg, &nonces[j], kp).is_ok() {
            return Exec::Violation(viol("C03.signer_signed_below_threshold", format!("sign() produced a share for a package with {k} < t = {t} participants")), rep);
        }
        rep.probe("signer_refused");
        // the same refusal through every other signing entry point (suite crate's own sign, re-randomised with a seed and with an
        // explicit randomiser, Taproot with a tweak)
        let seed32 = [0x5au8; 32];
        let rz = frost_rerandomized::Randomizer::<C>::from_scalar(sc_from_u64::<C>(7));
        #[allow(deprecated)]
        let mut others: Vec<(&str, bool)> = vec![
            ("suite crate round2::sign", C::w_sign(&small_pkg, &nonces[j], kp).is_ok()),
            ("sign_with_randomizer_seed", C::w_rr_sign(&small_pkg, &nonces[j], kp, &seed32).is_ok()),
            ("frost_rerandomized::sign", frost_rerandomized::sign(&small_pkg, &nonces[j], kp, rz).is_ok()),
        ];
        if C::IS_TR {
            others.push(("sign_with_tweak(None)", C::sign_with_tweak(&small_pkg, &nonces[j], kp, None).is_ok()));
            others.push(("sign_with_tweak(root)", C::sign_with_tweak(&small_pkg, &nonces[j], kp, Some(&[3u8; 32])).is_ok()));
        }
        for (ename, signed) in others {
            rep.evaluations += 1;
            if signed {
                return Exec::Violation(viol("C03.signer_signed_below_threshold", format!("{ename} produced a share for a package with {k} < t = {t} participants")), rep);
            }
        }
    }
    // coalition members with lowered thresholds do sign; the coordinator (honest public key package) must refuse
    let mut lowered_shares = BTreeMap::new();
    for (j, kp) in ckps.iter().enumerate() {
        let low = with_threshold::<C>(kp, k as u16);
        match frost::round2::sign::<C>(&small_pkg, &nonces[j], &low) {
            Ok(z) => {
                lowered_shares.insert(*kp.identifier(), z);
            }
            Err(e) => return Exec::Harness(format!("liar with lowered threshold could not sign: {e:?}")),
        }
    }
    rep.probe("lowered_threshold");
    for (mname, r) in aggregate_all::<C>(&small_pkg, &lowered_shares, &pk) {
        rep.evaluations += 1;
        match r {
            Ok(_) => return Exec::Violation(viol("C03.aggregate_accepted_below_threshold", format!("{mname} aggregated {k} < t = {t} shares against the honest public key package")), rep),
            Err(_) => rep.probe("aggregate_refused"),
        }
    }
    // reconstruct with fewer than the recorded threshold
    rep.evaluations += 1;
    if frost::keys::reconstruct::<C>(&ckps).is_ok() {
        return Exec::Violation(viol("C03.reconstruct_accepted_below_threshold", format!("reconstruct accepted {k} < t = {t} key packages")), rep);
    }
    rep.probe("reconstruct_refused");

    // the thresholds recorded in the key material are enforced even when the shares WOULD verify:
    // t honest signers, but the signer's key package / the coordinator's public key package records t+1
    {
        let mut sp = stream(scen.seed, scen.run, "c03/raised");
        let sub = sp.subset(n, t as usize);
        let members: Vec<KeyPackage<C>> = sub.iter().map(|i| kps[i].clone()).collect();
        let mut nn = Vec::new();
        let mut cm = BTreeMap::new();
        for (j, kp) in members.iter().enumerate() {
            let (a, b) = commit_for::<C>(kp, scen.seed, scen.run, &format!("c03/raised/{j}"));
            nn.push(a);
            cm.insert(*kp.identifier(), b);
        }
        let pkg = SigningPackage::<C>::new(cm, &msg);
        let mut shares = BTreeMap::new();
        for (j, kp) in members.iter().enumerate() {
            rep.evaluations += 1;
            if frost::round2::sign::<C>(&pkg, &nn[j], &with_threshold::<C>(kp, t + 1)).is_ok() {
                return Exec::Violation(viol("C03.signer_signed_below_threshold", format!("sign() produced a share for a package with {t} participants although the key package records threshold {}", t + 1)), rep);
            }
            match frost::round2::sign::<C>(&pkg, &nn[j], kp) {
                Ok(z) => {
                    shares.insert(*kp.identifier(), z);
                }
                Err(e) => return Exec::Violation(viol("C03.control_failed", format!("honest sign failed: {e:?}")), rep),
            }
        }
        if frost::aggregate::<C>(&pkg, &shares, &pk).is_err() {
            return Exec::Violation(viol("C03.control_failed", "honest aggregate failed".into()), rep);
        }
        let raised = PublicKeyPackage::<C>::new(pk.verifying_shares().clone(), vk, Some(t + 1));
        for (mname, r) in aggregate_all::<C>(&pkg, &shares, &raised) {
            rep.evaluations += 1;
            if r.is_ok() {
                return Exec::Violation(viol("C03.aggregate_accepted_below_threshold", format!("{mname} aggregated {t} shares although the public key package records threshold {}", t + 1)), rep);
            }
        }
        rep.probe("raised_threshold_refused");
        // Taproot: the same through the tweaking entry points (they derive their own tweaked packages)
        if C::IS_TR {
            for root in [None, Some([9u8; 32])] {
                let r = root.as_ref().map(|b| b.as_slice());
                let mut tshares = BTreeMap::new();
                for (j, kp) in members.iter().enumerate() {
                    rep.evaluations += 1;
                    if C::sign_with_tweak(&pkg, &nn[j], &with_threshold::<C>(kp, t + 1), r).is_ok() {
                        return Exec::Violation(viol("C03.signer_signed_below_threshold", format!("sign_with_tweak produced a share for a package with {t} participants although the key package records threshold {}", t + 1)), rep);
                    }
                    match C::sign_with_tweak(&pkg, &nn[j], kp, r) {
                        Ok(z) => {
                            tshares.insert(*kp.identifier(), z);
                        }
                        Err(e) => return Exec::Violation(viol("C03.control_failed", format!("honest sign_with_tweak failed: {e:?}")), rep),
                    }
                }
                rep.evaluations += 2;
                if let Err(e) = C::aggregate_with_tweak(&pkg, &tshares, &pk, r) {
                    return Exec::Violation(viol("C03.control_failed", format!("honest aggregate_with_tweak failed: {e:?}")), rep);
                }
                if C::aggregate_with_tweak(&pkg, &tshares, &raised, r).is_ok() {
                    return Exec::Violation(viol("C03.aggregate_accepted_below_threshold", format!("aggregate_with_tweak aggregated {t} shares although the public key package records threshold {}", t + 1)), rep);
                }
                rep.probe("raised_threshold_refused_with_tweak");
            }
        }
    }

    // ---- B. liars ----------------------------------------------------------------------------
    // participant set variants: real members only; padded to t (and to t+1 <= n) with phantoms
    let outsiders: Vec<usize> = (0..n).filter(|p| !coalition.contains(p)).collect();
    let mut rp = stream(scen.seed, scen.run, "c03/phantoms");
    let mut variants: Vec<(String, Vec<KeyPackage<C>>)> = vec![("real_only".into(), ckps.clone())];
    for (pname, copy) in [("padded_random", false), ("padded_copied", true)] {
        let mut set = ckps.clone();
        let want = (t as usize).min(k + outsiders.len());
        for o in outsiders.iter().take(want - k) {
            let id = sim.ids[*o];
            let share = if copy { share_scalar::<C>(ckps[0].signing_share()) } else { sc_random_nonzero::<C>(&mut rp) };
            let vs = VerifyingShare::<C>::from(share_from_scalar::<C>(&share));
            set.push(KeyPackage::<C>::new(id, share_from_scalar::<C>(&share), vs, vk, t));
        }
        if set.len() > k {
            variants.push((pname.into(), set));
        }
    }
    let mut attempts = 0;
    for (vname, members) in &variants {
        let padded = members.len() > k;
        if padded {
            rep.probe("padded_phantoms");
        }
        for kp_thr in ["lowered", "honest"] {
            // commitments and package
            let mut nn = Vec::new();
            let mut cm = BTreeMap::new();
            for (j, kp) in members.iter().enumerate() {
                let (a, b) = commit_for::<C>(kp, scen.seed, scen.run, &format!("c03/liar/{vname}/{kp_thr}/{j}"));
                nn.push(a);
                cm.insert(*kp.identifier(), b);
            }
            let pkg = SigningPackage::<C>::new(cm, &msg);
            let mut shares = BTreeMap::new();
            let mut all_signed = true;
            for (j, kp) in members.iter().enumerate() {
                let used = if kp_thr == "lowered" { with_threshold::<C>(kp, 2.min(members.len() as u16).max(1)) } else { kp.clone() };
                match frost::round2::sign::<C>(&pkg, &nn[j], &used) {
                    Ok(z) => {
                        shares.insert(*kp.identifier(), z);
                    }
                    Err(_) => {
                        all_signed = false;
                    }
                }
            }
            if !all_signed {
                continue; // refusal already is the right outcome
            }
            // the coalition also controls the coordinator: real or forged public key package, any threshold claim
            let forged_vs: BTreeMap<Identifier<C>, VerifyingShare<C>> = members.iter().map(|kp| (*kp.identifier(), *kp.verifying_share())).collect();
            for (pkname, vshares) in [("real_pk", pk.verifying_shares().clone()), ("forged_pk", forged_vs)] {
                for (thname, thr) in [("t", Some(t)), ("lowered", Some(members.len().max(1) as u16)), ("none", None)] {
                    if thname == "none" {
                        rep.probe("threshold_none");
                    }
                    let cpk = PublicKeyPackage::<C>::new(vshares.clone(), vk, thr);
                    for (mname, r) in aggregate_all::<C>(&pkg, &shares, &cpk) {
                        rep.evaluations += 1;
                        attempts += 1;
                        if let Ok(sig) = r {
                            if vk.verify(&msg, &sig).is_ok() {
                                return Exec::Violation(
                                    viol(
                                        "C03.signature_from_fewer_than_threshold",
                                        format!("{k} real key holders (t = {t}), variant {vname}, key-package threshold {kp_thr}, {pkname}, claimed threshold {thname}: {mname} returned a signature that VERIFIES under the group key"),
                                    ),
                                    rep,
                                );
                            }
                        }
                    }
                }
            }
            rep.extra_shapes.push(format!("{}|k{k}|{vname}|{kp_thr}", rep.shape));
        }
    }

    // ---- C. degree ---------------------------------------------------------------------------
    let all_kps: Vec<KeyPackage<C>> = (0..n).map(|p| kps[&p].clone()).collect();
    let xs: Vec<_> = all_kps.iter().map(|kp| id_scalar::<C>(kp.identifier())).collect();
    let ys: Vec<_> = all_kps.iter().map(|kp| share_scalar::<C>(kp.signing_share())).collect();
    let known_key = sim.history.iter().find_map(|r| match r {
        Record::DealerOut { key, .. } => *key,
        _ => None,
    });
    // the group secret as the harness sees it: interpolation through ALL n shares at 0 must give the key
    let key_from_all = interpolate::<C>(&xs, &ys, zero::<C>()).unwrap();
    let group_el = vkey_element::<C>(&vk);
    if base::<C>(key_from_all) != group_el {
        return Exec::Violation(viol("C03.control_failed", "interpolating all shares does not give the group key".into()), rep);
    }
    if let Some(kk) = known_key {
        if matches!(scen.phases[0][0], Inst::DealerKeygen { .. }) && kk != key_from_all {
            return Exec::Violation(viol("C03.control_failed", "interpolating all shares does not give the split key".into()), rep);
        }
    }
    if t as usize >= 2 {
        let mut sp = stream(scen.seed, scen.run, "c03/degree");
        for _ in 0..3 {
            let sub = sp.subset(n, t as usize - 1);
            let sx: Vec<_> = sub.iter().map(|i| xs[*i]).collect();
            let sy: Vec<_> = sub.iter().map(|i| ys[*i]).collect();
            let at0 = interpolate::<C>(&sx, &sy, zero::<C>()).unwrap();
            rep.evaluations += 1;
            if base::<C>(at0) == group_el || base::<C>(neg::<C>(at0)) == group_el {
                return Exec::Violation(viol("C03.threshold_minus_one_recovers_key", format!("interpolating t-1 = {} shares at zero yields the group secret", t - 1)), rep);
            }
            // degree is not silently lower: the (t-1)-interpolant misses every other participant's share
            if let Some(other) = (0..n).find(|i| !sub.contains(i)) {
                let at = interpolate::<C>(&sx, &sy, xs[other]).unwrap();
                if at == ys[other] {
                    return Exec::Violation(viol("C03.degree_lower_than_threshold", format!("t-1 = {} shares already determine another participant's share: the sharing polynomial has degree < t-1", t - 1)), rep);
                }
            }
            // library reconstruct on t-1 key packages that lie about the threshold
            let lying: Vec<KeyPackage<C>> = sub.iter().map(|i| with_threshold::<C>(&all_kps[*i], (t - 1).max(1))).collect();
            if let Ok(sk) = frost::keys::reconstruct::<C>(&lying) {
                let e = base::<C>(sc_from_bytes::<C>(&sk.serialize()).unwrap());
                if e == group_el {
                    return Exec::Violation(viol("C03.threshold_minus_one_recovers_key", "reconstruct on t-1 lying key packages yields the group key".into()), rep);
                }
            }
            rep.probe("degree_checked");
        }
    }
    // the t-1 non-constant coefficients are independent draws: their published commitments are pairwise distinct
    // (equal coefficients would leave fewer than t unknowns, i.e. silently lower the threshold)
    for r in &sim.history {
        let entries: Option<Vec<Vec<u8>>> = match r {
            Record::DealerOut { shares, .. } => shares.values().next().and_then(|s| s.commitment().serialize().ok()),
            Record::DkgPart1 { pkg, .. } => pkg.commitment().serialize().ok(),
            _ => None,
        };
        if let Some(e) = entries {
            rep.evaluations += 1;
            for i in 0..e.len() {
                for j in (i + 1)..e.len() {
                    if e[i] == e[j] {
                        return Exec::Violation(viol("C03.polynomial_coefficients_coincide", format!("commitment entries {i} and {j} of a sharing polynomial are equal: fewer than t independent coefficients")), rep);
                    }
                }
            }
            rep.probe("coefficients_distinct_checked");
        }
    }
    // published dealer commitment has exactly t entries
    for r in &sim.history {
        if let Record::DealerOut { shares, .. } = r {
            for sh in shares.values() {
                let len = sh.commitment().serialize().map(|v| v.len()).unwrap_or(0);
                if len != t as usize {
                    return Exec::Violation(viol("C03.commitment_length_not_threshold", format!("dealer commitment has {len} entries, t = {t}")), rep);
                }
            }
        }
    }
    rep.probe_n("liar_attempts", attempts);
    rep.nontrivial = attempts > 0;
    rep.sample = Some(json!({"suite": scen.suite, "n": scen.n, "t": scen.t, "coalition": coalition, "variants": variants.iter().map(|v| v.0.clone()).collect::<Vec<_>>(), "aggregate_attempts": attempts}));
    Exec::Ok(rep)
}
