//! C10 — refreshing shares keeps the group key, re-links all packages, retires old shares.
//! World: keys, then 1-3 successive refreshes (trusted dealer or distributed, each with a remaining
//! set R) interleaved with signing, all over the simulated network with honest-path faults and
//! crash/restart. Faults for the rejection part: Byzantine dealer / peer (other threshold, unknown
//! participant, non-zero constant term); histories mixing pre- and post-refresh shares.

use std::collections::BTreeMap;

use frost_core::keys::dkg::{round1, round2};
use frost_core::keys::refresh;
use frost_core::keys::{self, IdentifierList, KeyPackage, PublicKeyPackage, SecretShare, VerifiableSecretSharingCommitment};
use frost_core::{self as frost, Identifier, SigningKey, SigningPackage};
use serde_json::json;

use crate::dispatch;
use crate::engine::*;
use crate::genr::*;
use crate::prng::stream;
use crate::props::common::*;
use crate::scenario::*;
use crate::sim::Record;
use crate::simrng::SimRng;
use crate::suite::*;

pub fn prop() -> Prop {
    Prop {
        id: "C10",
        level: "exploration",
        runs: |t| match t {
            Tier::Quick => 1300,
            Tier::Thorough => 14000,
        },
        generate,
        exec,
        shrink: generic_shrink,
        rule: "one evaluation = one oracle call after a refresh (group key unchanged; identifier, threshold; verifying share = G*new share = refreshed public entry; refreshed package lists exactly R; new-only sets sign) or one old/new mixed signing attempt (every mix pattern for |S| <= 4, removed participants, against old and new public key package, 4 aggregate modes) or one rejection case (other threshold incl. t+65536 entries, unknown participant, non-zero constant term; dealer and distributed); non-trivial = at least one refresh completed; distinct = scenario shapes (suite, n, t, |R| sequence, procedures, ids, wire, faults, scheduler) hashed and counted",
        distinct_measure: "hash of scenario shape key",
        assumptions: &["a mixed set is required to fail only when the harness algebra confirms that its Lagrange-weighted sum differs from the secret (skipped coincidences are counted)", "authenticated channels", "seeded sampling"],
        real: &["frost-core keys::refresh", "six ciphersuite crates"],
        stub: &["transport", "store", "glue", "random source", "Byzantine dealer / peer"],
        independent: &["harness algebra"],
        ref_sample: |_| 0,
        required_probes: &["refresh_dealer", "refresh_dkg", "refresh_twice", "participant_removed", "mix_old_new_failed", "removed_participant_failed", "reject_threshold_dealer", "reject_threshold_dkg", "reject_unknown_dealer", "reject_unknown_dkg", "reject_nonzero_dealer", "reject_nonzero_dkg", "signed_after_refresh", "keys_from_dkg", "refresh_after_enrolment"],
        prepare: None,
    }
}

pub fn generate(seed: u64, run: u64, tier: Tier) -> Scenario {
    let suite = suite_for_run(run, 8);
    dispatch!(suite, gen_c(seed, run, tier))
}

fn gen_c<C: Suite>(seed: u64, run: u64, tier: Tier) -> Scenario {
    let mut p = stream(seed, run, "gen");
    let mut s = base_scenario("C10", C::NAME, seed, run);
    let slow = C::COST >= 9;
    let max_n = match (tier, slow, C::COST >= 3) {
        (_, true, _) => 4,
        (Tier::Quick, false, true) => 5,
        (Tier::Quick, false, false) => 6,
        (Tier::Thorough, false, true) => 7,
        (Tier::Thorough, false, false) => 9,
    };
    let (mut n, mut t) = gen_nt(&mut p, 2, max_n);
    if let Some((wn, wt)) = maybe_wide::<C>(&mut p, 16) {
        n = wn;
        t = wt;
    }
    s.n = n;
    s.t = t;
    s.id_scheme = (*p.pick(&ID_SCHEMES)).to_string();
    s.ids_hex = gen_ids::<C>(&mut p, &s.id_scheme, n as usize);
    s.wire = gen_wire(&mut p);
    let dkg = p.chance(1, 4) && n <= if slow { 3 } else { 5 };
    s.phases.push(vec![if dkg { Inst::Dkg } else { Inst::DealerKeygen { split_key: p.chance(1, 2) } }]);
    let mut members: Vec<usize> = (0..n as usize).collect();
    // sometimes a participant with a NEW identifier is enrolled by share repair first and then takes part in a dealer refresh
    let enrol = !dkg && !slow && (n as usize) > t as usize && p.chance(1, 6);
    if enrol {
        s.spares = 1;
        let spare_id = gen_ids::<C>(&mut p, if s.id_scheme == "default" { "sparse" } else { &s.id_scheme }, n as usize + 6).into_iter().find(|h| !s.ids_hex.contains(h)).unwrap();
        s.ids_hex.push(spare_id);
        let hk = p.range(t as u64, n as u64) as usize;
        let mut helpers: Vec<usize> = p.subset(n as usize, hk);
        p.shuffle(&mut helpers);
        s.phases.push(vec![Inst::Repair { target: n as usize, helpers }]);
        members.push(n as usize);
    }
    let refreshes = if slow { 1 } else { p.range(1, 3) };
    for _ in 0..refreshes {
        // remaining set: all, or drop some while keeping |R| >= t
        let max_drop = members.len() - t as usize;
        let drop = if max_drop == 0 || p.chance(1, 3) { 0 } else { p.range(1, max_drop as u64) as usize };
        let mut r = members.clone();
        p.shuffle(&mut r);
        r.truncate(members.len() - drop);
        if p.chance(1, 2) {
            r.sort();
        }
        // (the coordinator passes an enrolled participant's extended public key package on to everybody, so enrolment may be
        // followed by either refresh procedure)
        let use_dkg = p.chance(1, 2) && r.len() >= 2 && (r.len() <= if slow { 3 } else { 6 });
        s.phases.push(vec![if use_dkg { Inst::RefreshDkg { remaining: r.clone() } } else { Inst::RefreshDealer { remaining: r.clone() } }]);
        members = r.clone();
        members.sort();
        let mut sg: Vec<usize> = p.subset(members.len(), t as usize).into_iter().map(|i| members[i]).collect();
        p.shuffle(&mut sg);
        s.phases.push(vec![Inst::Sign { signers: sg, msg_hex: hexs(&gen_message(&mut p)), mode: SignMode::Plain }]);
    }
    s.sched = match p.below(8) {
        0 => Sched::Fifo,
        1 => Sched::Lifo,
        _ => Sched::Random,
    };
    let mask = if p.chance(1, 4) { 0 } else { p.range(1, 31) as u32 };
    let budget = p.range(0, 6) as usize;
    let mut fp = stream(seed, run, "faults");
    s.faults = gen_honest_faults(&mut fp, &s, budget, mask);
    let big = match tier {
        Tier::Quick => C::COST <= 1 && run % 40 == 0,
        Tier::Thorough => C::COST <= 2 && p.chance(1, 40),
    };
    s.extra = json!({"big_threshold": big});
    maybe_rng_alias(&mut s, seed, run, 12);
    s
}

pub fn exec(scen: &Scenario) -> Exec {
    dispatch!(scen.suite.as_str(), exec_c(scen))
}

fn strip_first<C: Suite>(c: &VerifiableSecretSharingCommitment<C>) -> Option<VerifiableSecretSharingCommitment<C>> {
    let ser = c.serialize().ok()?;
    VerifiableSecretSharingCommitment::<C>::deserialize(ser[1..].iter()).ok()
}

struct Epoch<C: Suite> {
    inst: u32,
    dealer: bool,
    remaining: Vec<usize>,
    old: BTreeMap<usize, KeyPackage<C>>,
    new: BTreeMap<usize, KeyPackage<C>>,
    old_pk: PublicKeyPackage<C>,
    new_pk: PublicKeyPackage<C>,
}

fn exec_c<C: Suite>(scen: &Scenario) -> Exec {
    let mut rep = new_report(scen);
    let sim = match run_honest::<C>(scen, &mut rep) {
        Ok(s) => s,
        Err(v) if v.oracle == "harness" => return Exec::Harness(v.detail),
        Err(v) => return Exec::Violation(v, rep),
    };
    let viol = |o: &str, d: String| Violation::new("C10", o, d);
    let n = scen.n as usize;
    let t = scen.t;
    // original key material
    let mut cur: BTreeMap<usize, KeyPackage<C>> = BTreeMap::new();
    let mut cur_pk: Option<PublicKeyPackage<C>> = None;
    for r in &sim.history {
        match r {
            Record::KeyPackage { node, kp, .. } => {
                cur.insert(*node, kp.clone());
            }
            Record::DkgDone { node, kp, pk, .. } => {
                cur.insert(*node, kp.clone());
                cur_pk = Some(pk.clone());
            }
            Record::DealerOut { pk, .. } => cur_pk = Some(pk.clone()),
            _ => {}
        }
    }
    let Some(mut cur_pk) = cur_pk else { return Exec::Harness("no original pk".into()) };
    if cur.len() != n {
        return Exec::Harness("missing original key packages".into());
    }
    // a participant enrolled by share repair joins the group before the first refresh
    for r in &sim.history {
        if let Record::Repaired { node, kp, .. } = r {
            if *node >= n {
                let mut vs = cur_pk.verifying_shares().clone();
                vs.insert(*kp.identifier(), *kp.verifying_share());
                cur_pk = PublicKeyPackage::<C>::new(vs, *cur_pk.verifying_key(), cur_pk.min_signers());
                cur.insert(*node, kp.clone());
                rep.probe("refresh_after_enrolment");
            }
        }
    }
    let group_key = *cur_pk.verifying_key();
    if matches!(scen.phases[0][0], Inst::Dkg) {
        rep.probe("keys_from_dkg");
    }
    // the secret as the harness sees it
    let secret = {
        let xs: Vec<_> = (0..n).map(|p| id_scalar::<C>(cur[&p].identifier())).collect();
        let ys: Vec<_> = (0..n).map(|p| share_scalar::<C>(cur[&p].signing_share())).collect();
        interpolate::<C>(&xs, &ys, zero::<C>()).unwrap()
    };
    let mut epochs: Vec<Epoch<C>> = Vec::new();
    for (pi, ph) in scen.phases.iter().enumerate() {
        let (remaining, dealer) = match ph.first() {
            Some(Inst::RefreshDealer { remaining }) => (remaining.clone(), true),
            Some(Inst::RefreshDkg { remaining }) => (remaining.clone(), false),
            _ => continue,
        };
        let inst = scen.phase_range(pi).start;
        let mut new: BTreeMap<usize, KeyPackage<C>> = BTreeMap::new();
        let mut new_pk: Option<PublicKeyPackage<C>> = None;
        let mut pks_seen: Vec<(usize, PublicKeyPackage<C>)> = Vec::new();
        for r in &sim.history {
            match r {
                Record::Refreshed { node, inst: i, old_kp, new_kp, new_pk: npk } if *i == inst => {
                    if cur.get(node) != Some(old_kp) {
                        return Exec::Harness("refresh applied to an unexpected key package".into());
                    }
                    new.insert(*node, new_kp.clone());
                    if let Some(p) = npk {
                        pks_seen.push((*node, p.clone()));
                    }
                }
                Record::RefreshDealerOut { inst: i, new_pk: npk, .. } if *i == inst => new_pk = Some(npk.clone()),
                _ => {}
            }
        }
        if !dealer {
            // distributed: every participant derives the package itself; they must all agree
            for (node, p) in &pks_seen {
                if *p != pks_seen[0].1 {
                    return Exec::Violation(viol("C10.public_key_packages_differ", format!("refresh {inst}: participant {node} derived a different refreshed PublicKeyPackage")), rep);
                }
            }
            new_pk = pks_seen.first().map(|x| x.1.clone());
        }
        let Some(new_pk) = new_pk else { return Exec::Harness("no refreshed pk".into()) };
        if new.len() != remaining.len() {
            return Exec::Harness("missing refreshed key packages".into());
        }
        epochs.push(Epoch { inst, dealer, remaining: remaining.clone(), old: cur.clone(), new: new.clone(), old_pk: cur_pk.clone(), new_pk: new_pk.clone() });
        cur = new;
        cur_pk = new_pk;
    }
    if epochs.len() >= 2 {
        rep.probe("refresh_twice");
    }
    let mut skipped_coincidences = 0u64;
    for ep in &epochs {
        rep.probe(if ep.dealer { "refresh_dealer" } else { "refresh_dkg" });
        if ep.remaining.len() < ep.old.len() {
            rep.probe("participant_removed");
        }
        let who = |p: usize| format!("refresh instance {} ({}), participant {p}", ep.inst, if ep.dealer { "dealer" } else { "distributed" });
        // ---- consistency after the refresh ---------------------------------------------------------
        rep.evaluations += 3;
        if *ep.new_pk.verifying_key() != group_key {
            return Exec::Violation(viol("C10.group_key_changed", format!("refresh {}: the refreshed public key package has another group key", ep.inst)), rep);
        }
        if ep.new_pk.min_signers() != Some(t) {
            return Exec::Violation(viol("C10.threshold_changed", format!("refresh {}: refreshed public key package records threshold {:?}, t = {t}", ep.inst, ep.new_pk.min_signers())), rep);
        }
        let mut want: Vec<Identifier<C>> = ep.remaining.iter().map(|p| sim.ids[*p]).collect();
        want.sort();
        if ep.new_pk.verifying_shares().keys().cloned().collect::<Vec<_>>() != want {
            return Exec::Violation(viol("C10.refreshed_package_lists_wrong_participants", format!("refresh {}: refreshed public key package does not list exactly the remaining participants", ep.inst)), rep);
        }
        for p in &ep.remaining {
            let kp = &ep.new[p];
            let old = &ep.old[p];
            rep.evaluations += 5;
            if kp.identifier() != old.identifier() || kp.identifier() != &sim.ids[*p] {
                return Exec::Violation(viol("C10.identifier_changed", who(*p)), rep);
            }
            if kp.min_signers() != old.min_signers() || *kp.min_signers() != t {
                return Exec::Violation(viol("C10.threshold_changed", who(*p)), rep);
            }
            if *kp.verifying_key() != group_key {
                return Exec::Violation(viol("C10.group_key_changed", who(*p)), rep);
            }
            if kp.signing_share() == old.signing_share() {
                return Exec::Violation(viol("C10.share_not_refreshed", who(*p)), rep);
            }
            let s = share_scalar::<C>(kp.signing_share());
            if vshare_element::<C>(kp.verifying_share()) != base::<C>(s) {
                return Exec::Violation(viol("C10.verifying_share_not_G_times_new_share", format!("{}: the refreshed key package's verifying share is not G * its new signing share", who(*p))), rep);
            }
            match ep.new_pk.verifying_shares().get(kp.identifier()) {
                Some(e) if vshare_element::<C>(e) == base::<C>(s) => {}
                _ => return Exec::Violation(viol("C10.refreshed_public_entry_mismatch", format!("{}: entry in the refreshed public key package != G * new signing share", who(*p))), rep),
            }
        }
        // new shares are a sharing of the SAME secret
        {
            let xs: Vec<_> = ep.remaining.iter().map(|p| id_scalar::<C>(&sim.ids[*p])).collect();
            let ys: Vec<_> = ep.remaining.iter().map(|p| share_scalar::<C>(ep.new[p].signing_share())).collect();
            rep.evaluations += 1;
            if interpolate::<C>(&xs, &ys, zero::<C>()).unwrap() != secret {
                return Exec::Violation(viol("C10.secret_changed", format!("refresh {}: refreshed shares interpolate to another secret", ep.inst)), rep);
            }
        }
        // ---- old/new mixes and removed participants ----------------------------------------------------
        let mut mp = stream(scen.seed, scen.run, &format!("c10/mix/{}", ep.inst));
        let removed: Vec<usize> = ep.old.keys().filter(|p| !ep.remaining.contains(p)).cloned().collect();
        let size = (t as usize).max(2).min(ep.remaining.len());
        let base_set: Vec<usize> = mp.subset(ep.remaining.len(), size).into_iter().map(|i| ep.remaining[i]).collect();
        // (participant, use old share?)
        let mut patterns: Vec<Vec<(usize, bool)>> = Vec::new();
        if size <= 4 {
            for mask in 1u32..((1 << size) - 1) {
                patterns.push(base_set.iter().enumerate().map(|(k, p)| (*p, mask & (1 << k) != 0)).collect());
            }
        } else {
            for _ in 0..6 {
                let mask = mp.range(1, (1u64 << size) - 2) as u32;
                patterns.push(base_set.iter().enumerate().map(|(k, p)| (*p, mask & (1 << k) != 0)).collect());
            }
        }
        for r in &removed {
            // a removed participant (old share) together with refreshed participants
            let mut v: Vec<(usize, bool)> = base_set.iter().take(size - 1).map(|p| (*p, false)).collect();
            v.push((*r, true));
            patterns.push(v);
        }
        for pat in &patterns {
            let members: Vec<KeyPackage<C>> = pat.iter().map(|(p, old)| if *old { ep.old[p].clone() } else { ep.new[p].clone() }).collect();
            // algebraic precondition
            let xs: Vec<_> = members.iter().map(|kp| id_scalar::<C>(kp.identifier())).collect();
            let ys: Vec<_> = members.iter().map(|kp| share_scalar::<C>(kp.signing_share())).collect();
            if interpolate::<C>(&xs, &ys, zero::<C>()).unwrap() == secret {
                skipped_coincidences += 1;
                continue;
            }
            let msg = mp.bytes(12);
            let mut nn = Vec::new();
            let mut cm = BTreeMap::new();
            for (j, kp) in members.iter().enumerate() {
                let mut rng = SimRng::good(stream(scen.seed, scen.run, &format!("c10/mixcommit/{}/{:?}/{j}", ep.inst, pat)));
                let (a, b) = frost::round1::commit::<C, _>(kp.signing_share(), &mut rng);
                nn.push(a);
                cm.insert(*kp.identifier(), b);
            }
            let pkg = SigningPackage::<C>::new(cm, &msg);
            let mut shares = BTreeMap::new();
            let mut signed = true;
            for (j, kp) in members.iter().enumerate() {
                match frost::round2::sign::<C>(&pkg, &nn[j], kp) {
                    Ok(z) => {
                        shares.insert(*kp.identifier(), z);
                    }
                    Err(_) => signed = false,
                }
            }
            if !signed {
                continue;
            }
            let has_removed = pat.iter().any(|(p, _)| removed.contains(p));
            for (pkname, pkx) in [("refreshed", &ep.new_pk), ("pre-refresh", &ep.old_pk)] {
                for (mname, r) in aggregate_all::<C>(&pkg, &shares, pkx) {
                    rep.evaluations += 1;
                    if let Ok(sig) = r {
                        if group_key.verify(&msg, &sig).is_ok() {
                            return Exec::Violation(
                                viol("C10.mixed_shares_signed", format!("refresh {}: signer set {:?} (participant, uses pre-refresh share) produced a VALID signature via {mname} against the {pkname} public key package", ep.inst, pat)),
                                rep,
                            );
                        }
                    }
                }
            }
            if has_removed {
                rep.probe("removed_participant_failed");
            } else {
                rep.probe("mix_old_new_failed");
            }
        }
    }
    // new-only sets sign: the sessions that ran through the simulator
    for rec in &sim.history {
        if let Record::Session { inst, package, shares, pk, result, .. } = rec {
            let kps: Vec<_> = sim.history.iter().filter_map(|r| match r { Record::Share { inst: i, kp, .. } if i == inst => Some(kp.clone()), _ => None }).collect();
            if let Some(v) = check_plain_session::<C>("C10", *inst, package, shares, pk, result, &kps, &mut rep, false) {
                if v.oracle == "harness" {
                    return Exec::Harness(v.detail);
                }
                return Exec::Violation(v, rep);
            }
            rep.probe("signed_after_refresh");
        }
    }

    // ---- rejections (against the final key material) ---------------------------------------------------
    let members: Vec<usize> = cur.keys().cloned().collect();
    let m = members.len();
    let mids: Vec<Identifier<C>> = members.iter().map(|p| sim.ids[*p]).collect();
    let mut rp = stream(scen.seed, scen.run, "c10/reject");
    let outsider = loop {
        let c = id_from_scalar::<C>(&sc_random_nonzero::<C>(&mut rp)).unwrap();
        if !sim.ids.contains(&c) {
            break c;
        }
    };
    let victim_node = members[rp.below(m as u64) as usize];
    let victim = cur[&victim_node].clone();
    // control: an honest dealer refresh is accepted
    {
        let mut rng = SimRng::good(stream(scen.seed, scen.run, "c10/reject/control"));
        match refresh::compute_refreshing_shares::<C, _>(cur_pk.clone(), &mids, &mut rng) {
            Ok((shares, _)) => {
                let k = members.iter().position(|p| *p == victim_node).unwrap();
                if refresh::refresh_share::<C>(shares[k].clone(), &victim).is_err() {
                    return Exec::Violation(viol("C10.control_failed", "honest dealer refresh rejected".into()), rep);
                }
            }
            Err(e) => return Exec::Violation(viol("C10.control_failed", format!("compute_refreshing_shares = {e:?}")), rep),
        }
    }
    // (a) other threshold, dealer
    for tprime in [t + 1, t.wrapping_sub(1)] {
        if tprime < 2 || tprime as usize > m {
            continue;
        }
        let lying_pk = PublicKeyPackage::<C>::new(cur_pk.verifying_shares().clone(), group_key, Some(tprime));
        let mut rng = SimRng::good(stream(scen.seed, scen.run, &format!("c10/reject/thr/{tprime}")));
        if let Ok((shares, _)) = refresh::compute_refreshing_shares::<C, _>(lying_pk, &mids, &mut rng) {
            let k = members.iter().position(|p| *p == victim_node).unwrap();
            rep.evaluations += 1;
            if refresh::refresh_share::<C>(shares[k].clone(), &victim).is_ok() {
                return Exec::Violation(viol("C10.threshold_change_accepted", format!("refresh_share accepted a refreshing share made for threshold {tprime}, group threshold {t}")), rep);
            }
            rep.probe("reject_threshold_dealer");
        }
    }
    // (a') dealer refreshing share whose commitment has t-1+65536 entries (degree raised by 65536)
    if scen.extra["big_threshold"].as_bool().unwrap_or(false) {
        let total = t as usize - 1 + 65536;
        let mut cp = stream(scen.seed, scen.run, "c10/reject/big");
        // few distinct coefficients repeated: the polynomial is still a valid zero-constant polynomial
        let distinct: Vec<_> = (0..8).map(|_| sc_random_nonzero::<C>(&mut cp)).collect();
        let dcomm: Vec<Vec<u8>> = distinct.iter().map(|c| el_bytes::<C>(&base::<C>(*c)).unwrap()).collect();
        let x = id_scalar::<C>(victim.identifier());
        let mut share = zero::<C>();
        let mut xp = x;
        let mut entries: Vec<&Vec<u8>> = Vec::with_capacity(total);
        for k in 0..total {
            share = share + distinct[k % 8] * xp;
            xp = xp * x;
            entries.push(&dcomm[k % 8]);
        }
        if let Ok(cm) = VerifiableSecretSharingCommitment::<C>::deserialize(entries.iter()) {
            let sh = SecretShare::<C>::new(*victim.identifier(), share_from_scalar::<C>(&share), cm);
            rep.evaluations += 1;
            rep.probe("reject_threshold_plus_65536");
            if refresh::refresh_share::<C>(sh, &victim).is_ok() {
                return Exec::Violation(viol("C10.threshold_change_accepted", format!("refresh_share accepted a refreshing share whose commitment has t-1+65536 = {total} entries (sharing degree raised by 65536)")), rep);
            }
        }
    }
    // (c) unknown participant, dealer
    {
        let mut with_out = mids.clone();
        with_out.push(outsider);
        let mut rng = SimRng::good(stream(scen.seed, scen.run, "c10/reject/unknown"));
        rep.evaluations += 1;
        if refresh::compute_refreshing_shares::<C, _>(cur_pk.clone(), &with_out, &mut rng).is_ok() {
            return Exec::Violation(viol("C10.unknown_participant_accepted", "compute_refreshing_shares accepted an identifier outside the public key package".into()), rep);
        }
        rep.probe("reject_unknown_dealer");
    }
    // (d) non-zero constant term, dealer: a sharing of a NON-zero value presented as a refreshing share
    {
        let sk = SigningKey::<C>::from_scalar(sc_random_nonzero::<C>(&mut rp)).unwrap();
        let mut rng = SimRng::good(stream(scen.seed, scen.run, "c10/reject/nonzero"));
        if m >= 2 {
            match keys::split::<C, _>(&sk, m as u16, t, IdentifierList::Custom(&mids), &mut rng) {
                Ok((shares, _)) => {
                    let sh = &shares[victim.identifier()];
                    if let Some(cm) = strip_first::<C>(sh.commitment()) {
                        let forged = SecretShare::<C>::new(*sh.identifier(), *sh.signing_share(), cm);
                        rep.evaluations += 1;
                        if refresh::refresh_share::<C>(forged, &victim).is_ok() {
                            return Exec::Violation(viol("C10.nonzero_constant_term_accepted", "refresh_share accepted a refreshing share whose polynomial has a non-zero constant term".into()), rep);
                        }
                        rep.probe("reject_nonzero_dealer");
                    }
                }
                Err(e) => return Exec::Harness(format!("split for forged refresh: {e:?}")),
            }
        }
    }
    // distributed variants need at least two members
    if m >= 2 {
        let others: Vec<usize> = members.iter().filter(|p| **p != victim_node).cloned().collect();
        let byz = others[0];
        // honest round 1 of everybody (direct calls, fresh streams)
        let part1 = |node: usize, max: u16, min: u16, tag: &str| {
            let rng = SimRng::good(stream(scen.seed, scen.run, &format!("c10/reject/dkg/{tag}/{node}")));
            refresh::refresh_dkg_part1::<C, _>(sim.ids[node], max, min, rng)
        };
        // control: the all-honest distributed refresh built the same way is accepted
        {
            let Ok((vsec, _)) = part1(victim_node, m as u16, t, "ctl") else { return Exec::Harness("part1".into()) };
            let mut r1: BTreeMap<Identifier<C>, round1::Package<C>> = BTreeMap::new();
            let mut r2: BTreeMap<Identifier<C>, round2::Package<C>> = BTreeMap::new();
            for o in &others {
                let (sec, pkg) = part1(*o, m as u16, t, "ctl").unwrap();
                r1.insert(sim.ids[*o], pkg);
                let coeffs = crate::props::c07::r1_secret_coeffs::<C>(&serde_json::to_string(&sec).unwrap()).unwrap();
                r2.insert(sim.ids[*o], round2::Package::new(share_from_scalar::<C>(&poly_eval::<C>(&coeffs, id_scalar::<C>(victim.identifier())))));
            }
            let ok = match refresh::refresh_dkg_part2::<C>(vsec, &r1) {
                Ok((s2, _)) => refresh::refresh_dkg_shares::<C>(&s2, &r1, &r2, cur_pk.clone(), victim.clone()).is_ok(),
                Err(_) => false,
            };
            if !ok {
                return Exec::Violation(viol("C10.control_failed", "honest distributed refresh (direct calls) rejected".into()), rep);
            }
        }
        // (b) other threshold, distributed: the Byzantine peer ran part 1 with t' != t
        for tprime in [t + 1, t.wrapping_sub(1)] {
            if tprime < 2 || tprime as usize > m {
                continue;
            }
            let Ok((vsec, _)) = part1(victim_node, m as u16, t, "thr") else { continue };
            let mut r1: BTreeMap<Identifier<C>, round1::Package<C>> = BTreeMap::new();
            for o in &others {
                let (tt, tag) = if *o == byz { (tprime, "thr-byz") } else { (t, "thr") };
                match part1(*o, m as u16, tt, tag) {
                    Ok((_, p)) => {
                        r1.insert(sim.ids[*o], p);
                    }
                    Err(e) => return Exec::Harness(format!("refresh_dkg_part1: {e:?}")),
                }
            }
            rep.evaluations += 1;
            match refresh::refresh_dkg_part2::<C>(vsec, &r1) {
                Err(_) => rep.probe("reject_threshold_dkg"),
                Ok((s2, _)) => {
                    // part 2 let it through: the final step must still refuse. The Byzantine peer's round-2 share
                    // is its polynomial evaluated at the victim; honest peers' likewise.
                    let mut r2: BTreeMap<Identifier<C>, round2::Package<C>> = BTreeMap::new();
                    for o in &others {
                        let (tt, tag) = if *o == byz { (tprime, "thr-byz") } else { (t, "thr") };
                        let (sec, _) = part1(*o, m as u16, tt, tag).unwrap();
                        let coeffs = crate::props::c07::r1_secret_coeffs::<C>(&serde_json::to_string(&sec).unwrap()).unwrap();
                        let v = poly_eval::<C>(&coeffs, id_scalar::<C>(victim.identifier()));
                        r2.insert(sim.ids[*o], round2::Package::new(share_from_scalar::<C>(&v)));
                    }
                    if refresh::refresh_dkg_shares::<C>(&s2, &r1, &r2, cur_pk.clone(), victim.clone()).is_ok() {
                        return Exec::Violation(viol("C10.threshold_change_accepted", format!("distributed refresh accepted a peer contribution made for threshold {tprime}, group threshold {t}")), rep);
                    }
                    rep.probe("reject_threshold_dkg");
                }
            }
        }
        // (b') the WHOLE distributed refresh run uses another threshold (everybody consistent with each other), against the
        // current and against a legacy (pre-3.0, no recorded threshold) public key package: the final step must refuse
        for tprime in [t + 1, t.wrapping_sub(1)] {
            if tprime < 2 || tprime as usize > m {
                continue;
            }
            let Ok((vsec, _)) = part1(victim_node, m as u16, tprime, "thr-all") else { continue };
            let mut r1: BTreeMap<Identifier<C>, round1::Package<C>> = BTreeMap::new();
            let mut r2: BTreeMap<Identifier<C>, round2::Package<C>> = BTreeMap::new();
            for o in &others {
                let (sec, pkg) = part1(*o, m as u16, tprime, "thr-all").unwrap();
                r1.insert(sim.ids[*o], pkg);
                let coeffs = crate::props::c07::r1_secret_coeffs::<C>(&serde_json::to_string(&sec).unwrap()).unwrap();
                r2.insert(sim.ids[*o], round2::Package::new(share_from_scalar::<C>(&poly_eval::<C>(&coeffs, id_scalar::<C>(victim.identifier())))));
            }
            if let Ok((s2, _)) = refresh::refresh_dkg_part2::<C>(vsec, &r1) {
                let legacy = PublicKeyPackage::<C>::new(cur_pk.verifying_shares().clone(), group_key, None);
                for (pkname, pkx) in [("current", cur_pk.clone()), ("legacy (no recorded threshold)", legacy)] {
                    rep.evaluations += 1;
                    if let Ok((nkp, npk)) = refresh::refresh_dkg_shares::<C>(&s2, &r1, &r2, pkx, victim.clone()) {
                        return Exec::Violation(
                            viol("C10.threshold_change_accepted", format!("a distributed refresh run with threshold {tprime} (group threshold {t}) completed against the {pkname} public key package; the refreshed packages record {} / {:?}", nkp.min_signers(), npk.min_signers())),
                            rep,
                        );
                    }
                }
                rep.probe("reject_threshold_dkg_whole_run");
            }
        }
        // (c) unknown participant, distributed: a round-1 entry from outside the group
        {
            let max = (m + 1) as u16;
            let rng = SimRng::good(stream(scen.seed, scen.run, "c10/reject/dkg/unknown/outsider"));
            let out1 = refresh::refresh_dkg_part1::<C, _>(outsider, max, t, rng);
            let v1 = part1(victim_node, max, t, "unknown");
            if let (Ok((osec, opkg)), Ok((vsec, _))) = (out1, v1) {
                let mut r1: BTreeMap<Identifier<C>, round1::Package<C>> = BTreeMap::new();
                let mut secs: BTreeMap<Identifier<C>, round1::SecretPackage<C>> = BTreeMap::new();
                for o in &others {
                    let (s, p) = part1(*o, max, t, "unknown").unwrap();
                    r1.insert(sim.ids[*o], p);
                    secs.insert(sim.ids[*o], s);
                }
                r1.insert(outsider, opkg);
                secs.insert(outsider, osec);
                rep.evaluations += 1;
                match refresh::refresh_dkg_part2::<C>(vsec, &r1) {
                    Err(_) => rep.probe("reject_unknown_dkg"),
                    Ok((s2, _)) => {
                        let mut r2: BTreeMap<Identifier<C>, round2::Package<C>> = BTreeMap::new();
                        for (id, sec) in &secs {
                            let coeffs = crate::props::c07::r1_secret_coeffs::<C>(&serde_json::to_string(sec).unwrap()).unwrap();
                            let v = poly_eval::<C>(&coeffs, id_scalar::<C>(victim.identifier()));
                            r2.insert(*id, round2::Package::new(share_from_scalar::<C>(&v)));
                        }
                        if refresh::refresh_dkg_shares::<C>(&s2, &r1, &r2, cur_pk.clone(), victim.clone()).is_ok() {
                            return Exec::Violation(viol("C10.unknown_participant_accepted", "distributed refresh completed with a round-1 contribution from outside the group".into()), rep);
                        }
                        rep.probe("reject_unknown_dkg");
                    }
                }
            }
        }
        // (c') unknown participant, distributed, REPLACING a member: the run is exactly as large as the refreshing set, one of the
        // members is absent and a stranger sits in its place (a removed participant coming back, or a newcomer)
        if others.len() >= 2 {
            let max = m as u16;
            let rng = SimRng::good(stream(scen.seed, scen.run, "c10/reject/dkg/replace/outsider"));
            let out1 = refresh::refresh_dkg_part1::<C, _>(outsider, max, t, rng);
            let v1 = part1(victim_node, max, t, "replace");
            if let (Ok((osec, opkg)), Ok((vsec, _))) = (out1, v1) {
                let mut r1: BTreeMap<Identifier<C>, round1::Package<C>> = BTreeMap::new();
                let mut secs: BTreeMap<Identifier<C>, round1::SecretPackage<C>> = BTreeMap::new();
                // every other member but the last one, plus the stranger
                for o in others.iter().take(others.len() - 1) {
                    let (s, p) = part1(*o, max, t, "replace").unwrap();
                    r1.insert(sim.ids[*o], p);
                    secs.insert(sim.ids[*o], s);
                }
                r1.insert(outsider, opkg);
                secs.insert(outsider, osec);
                rep.evaluations += 1;
                match refresh::refresh_dkg_part2::<C>(vsec, &r1) {
                    Err(_) => rep.probe("reject_unknown_dkg_replacing"),
                    Ok((s2, _)) => {
                        let mut r2: BTreeMap<Identifier<C>, round2::Package<C>> = BTreeMap::new();
                        for (id, sec) in &secs {
                            let coeffs = crate::props::c07::r1_secret_coeffs::<C>(&serde_json::to_string(sec).unwrap()).unwrap();
                            let v = poly_eval::<C>(&coeffs, id_scalar::<C>(victim.identifier()));
                            r2.insert(*id, round2::Package::new(share_from_scalar::<C>(&v)));
                        }
                        if let Ok((_, npk)) = refresh::refresh_dkg_shares::<C>(&s2, &r1, &r2, cur_pk.clone(), victim.clone()) {
                            return Exec::Violation(
                                viol("C10.unknown_participant_accepted", format!("distributed refresh completed although a stranger took the place of a member (run of {max}); the refreshed package lists {} participants", npk.verifying_shares().len())),
                                rep,
                            );
                        }
                        rep.probe("reject_unknown_dkg_replacing");
                    }
                }
            }
        }
        // (d) non-zero constant term, distributed: the Byzantine peer's polynomial has f(0) != 0
        {
            let Ok((vsec, _)) = part1(victim_node, m as u16, t, "nonzero") else { return Exec::Harness("part1".into()) };
            let mut r1: BTreeMap<Identifier<C>, round1::Package<C>> = BTreeMap::new();
            let mut r2: BTreeMap<Identifier<C>, round2::Package<C>> = BTreeMap::new();
            let vx = id_scalar::<C>(victim.identifier());
            let mut ok = true;
            for o in &others {
                if *o == byz {
                    // an ordinary key generation polynomial (non-zero secret), commitment stripped to the refresh format
                    let rng = SimRng::good(stream(scen.seed, scen.run, "c10/reject/dkg/nonzero/byz"));
                    match keys::dkg::part1::<C, _>(sim.ids[*o], m as u16, t, rng) {
                        Ok((sec, pkg)) => {
                            let Some(cm) = strip_first::<C>(pkg.commitment()) else {
                                ok = false;
                                break;
                            };
                            r1.insert(sim.ids[*o], round1::Package::new(cm, *pkg.proof_of_knowledge()));
                            let coeffs = crate::props::c07::r1_secret_coeffs::<C>(&serde_json::to_string(&sec).unwrap()).unwrap();
                            r2.insert(sim.ids[*o], round2::Package::new(share_from_scalar::<C>(&poly_eval::<C>(&coeffs, vx))));
                        }
                        Err(_) => ok = false,
                    }
                } else {
                    let (sec, pkg) = part1(*o, m as u16, t, "nonzero").unwrap();
                    r1.insert(sim.ids[*o], pkg);
                    let coeffs = crate::props::c07::r1_secret_coeffs::<C>(&serde_json::to_string(&sec).unwrap()).unwrap();
                    r2.insert(sim.ids[*o], round2::Package::new(share_from_scalar::<C>(&poly_eval::<C>(&coeffs, vx))));
                }
            }
            if ok {
                rep.evaluations += 1;
                match refresh::refresh_dkg_part2::<C>(vsec, &r1) {
                    Err(_) => rep.probe("reject_nonzero_dkg"),
                    Ok((s2, _)) => {
                        if refresh::refresh_dkg_shares::<C>(&s2, &r1, &r2, cur_pk.clone(), victim.clone()).is_ok() {
                            return Exec::Violation(viol("C10.nonzero_constant_term_accepted", "distributed refresh accepted a peer's round-2 share from a polynomial with non-zero constant term".into()), rep);
                        }
                        rep.probe("reject_nonzero_dkg");
                    }
                }
            }
        }
    }
    rep.probe_n("skipped_coincidences", skipped_coincidences);
    rep.nontrivial = !epochs.is_empty();
    rep.sample = Some(json!({"suite": scen.suite, "n": scen.n, "t": scen.t, "phases": scen.phases, "faults": scen.faults, "refreshes": epochs.len()}));
    Exec::Ok(rep)
}
