//! C08 — key generation aborts and names the sender on any malformed peer contribution.
//! World: an honest DKG run through the simulated network, snapshotted from the recorded history;
//! then EVERY (receiver, sender) pair x every Byzantine contribution kind x every field is injected
//! in turn against the snapshot (fault enumeration at the network seam).

use std::collections::BTreeMap;

use frost_core::keys::dkg::{self, round1, round2};
use frost_core::keys::{KeyPackage, PublicKeyPackage, VerifiableSecretSharingCommitment};
use frost_core::{self as frost, Identifier, Signature};
use serde_json::{Value, json};

use crate::dispatch;
use crate::engine::*;
use crate::genr::*;
use crate::prng::stream;
use crate::props::common::*;
use crate::scenario::*;
use crate::sim::Record;
use crate::suite::*;

pub fn prop() -> Prop {
    Prop {
        id: "C08",
        level: "fault_enumeration",
        runs: |t| match t {
            Tier::Quick => 1000,
            Tier::Thorough => 9000,
        },
        generate,
        exec,
        shrink: |s| generic_shrink(s),
        rule: "one evaluation = one part2/part3 call of a receiver given exactly one faulty contribution from one sender; per world every (receiver, sender) pair x every kind (proof response, proof commitment, proof for another identifier, proof for another commitment, each commitment coefficient, wrong lengths t-1/t+1/1/0/t+65536, share +1, share for another recipient, share from another sender, filing under own / unknown identifier, missing, surplus; round 1 and round 2) is enumerated; non-trivial = all trials of a world evaluated; distinct = (suite, n, t, ids, receiver, sender, kind) tuples hashed and counted",
        distinct_measure: "hash of (suite, n, t, id scheme, receiver, sender, fault kind)",
        assumptions: &["exactly one faulty contribution per trial, everything else honest", "no attribution is demanded for purely structural faults (count, filing, length)", "seeded sampling over worlds; enumeration over (pair, kind, field) within a world"],
        real: &["frost-core keys::dkg", "six ciphersuite crates"],
        stub: &["transport", "store", "glue", "random source", "Byzantine sender"],
        independent: &[],
        ref_sample: |_| 0,
        required_probes: &["route_suite_crate_entry_points", "route_frost_core_generics", "kind_proof_response", "kind_proof_commitment", "kind_proof_other_identifier", "kind_proof_other_commitment", "kind_proof_for_zero_key", "kind_coeff_0", "kind_coeff_last", "kind_len_t_minus_1", "kind_len_t_plus_1", "kind_len_0", "kind_len_t_plus_65536", "kind_share_plus_1", "kind_share_zero", "kind_share_other_recipient", "kind_r1_under_own_id", "kind_r1_under_unknown_id", "kind_r1_missing", "kind_r1_surplus", "kind_r2_under_own_id", "kind_r2_missing", "kind_both_missing", "kind_both_surplus", "receiver_last_sender_checked"],
        prepare: None,
    }
}

pub fn generate(seed: u64, run: u64, tier: Tier) -> Scenario {
    let suite = suite_for_run(run, 10);
    dispatch!(suite, gen_c(seed, run, tier))
}

fn gen_c<C: Suite>(seed: u64, run: u64, tier: Tier) -> Scenario {
    let mut p = stream(seed, run, "gen");
    let mut s = base_scenario("C08", C::NAME, seed, run);
    let slow = C::COST >= 9;
    let max_n = if slow { 3 } else if C::COST >= 3 { 4 } else { 5 };
    let (n, t) = gen_nt(&mut p, 2, max_n);
    s.n = n;
    s.t = t;
    s.id_scheme = (*p.pick(&ID_SCHEMES)).to_string();
    s.ids_hex = gen_ids::<C>(&mut p, &s.id_scheme, n as usize);
    s.wire = gen_wire(&mut p);
    s.phases.push(vec![Inst::Dkg]);
    s.sched = Sched::Random;
    // the oversized commitment (t + 65536 entries) costs ~1 s: once in a while in quick on the fast suites, more often in thorough
    let big = match tier {
        Tier::Quick => C::COST <= 1 && run % 30 == 0,
        Tier::Thorough => !slow && p.chance(1, 25),
    };
    s.extra = json!({"big_length": big});
    s
}

pub fn exec(scen: &Scenario) -> Exec {
    dispatch!(scen.suite.as_str(), exec_c(scen))
}

struct Snap<C: Suite> {
    r1_secret: Vec<round1::SecretPackage<C>>,
    r1_pkg: Vec<round1::Package<C>>,
    r2_secret: Vec<round2::SecretPackage<C>>,
    /// r2_out[j][i] = package from j for i
    r2_out: Vec<BTreeMap<Identifier<C>, round2::Package<C>>>,
}

fn sig_with<C: Suite>(sig: &Signature<C>, f: impl FnOnce(&mut Vec<u8>, usize)) -> Option<Signature<C>> {
    let mut b = sig.serialize().ok()?;
    let zl = sc_len::<C>();
    let rl = b.len() - zl;
    f(&mut b, rl);
    Signature::<C>::deserialize(&b).ok()
}

fn commitment_from<C: Suite>(entries: &[Vec<u8>]) -> Option<VerifiableSecretSharingCommitment<C>> {
    VerifiableSecretSharingCommitment::<C>::deserialize(entries.iter()).ok()
}

fn bump_element<C: Suite>(b: &[u8]) -> Option<Vec<u8>> {
    let e = el_from_bytes::<C>(b)?;
    el_bytes::<C>(&(e + base::<C>(one::<C>())))
}

type R1Map<C> = BTreeMap<Identifier<C>, round1::Package<C>>;
type R2Map<C> = BTreeMap<Identifier<C>, round2::Package<C>>;

enum Expect {
    /// the step must fail and name exactly the slot
    Named,
    /// the step must fail; culprits within the slot
    Fails,
}

enum Step {
    Part2,
    Part3,
    /// part2 has run on the honest map; part3 is handed another pair of maps (what the participant holds when it gets there)
    Part3Only,
}

/// A complete, internally valid contribution of an identifier outside the group (own polynomial, valid proof, the share it would
/// send to `to`).
fn outsider_contribution<C: Suite>(scen: &Scenario, outsider: Identifier<C>, n: u16, t: u16, to: Identifier<C>) -> Option<(round1::Package<C>, round2::Package<C>)> {
    let rng = crate::simrng::SimRng::good(stream(scen.seed, scen.run, "c08/outsider"));
    let (sec, pkg) = dkg::part1::<C, _>(outsider, n, t, rng).ok()?;
    let coeffs = crate::props::c07::r1_secret_coeffs::<C>(&serde_json::to_string(&sec).ok()?)?;
    let share = poly_eval::<C>(&coeffs, id_scalar::<C>(&to));
    Some((pkg, round2::Package::new(share_from_scalar::<C>(&share))))
}

fn exec_c<C: Suite>(scen: &Scenario) -> Exec {
    let mut rep = new_report(scen);
    set_route(scen.run, &mut rep);
    let sim = match run_honest::<C>(scen, &mut rep) {
        Ok(s) => s,
        Err(v) if v.oracle == "harness" => return Exec::Harness(v.detail),
        Err(v) => return Exec::Violation(Violation::new("C08", "C08.control_failed", v.detail), rep),
    };
    let n = scen.n as usize;
    let t = scen.t as usize;
    let ids: Vec<Identifier<C>> = sim.ids[..n].to_vec();
    // snapshot from the recorded history
    let mut r1s: Vec<Option<round1::SecretPackage<C>>> = vec![None; n];
    let mut r1p: Vec<Option<round1::Package<C>>> = vec![None; n];
    for r in &sim.history {
        if let Record::DkgPart1 { node, inst: 0, secret_json, pkg } = r {
            r1s[*node] = serde_json::from_str(secret_json).ok();
            r1p[*node] = Some(pkg.clone());
        }
    }
    if r1s.iter().any(|x| x.is_none()) || r1p.iter().any(|x| x.is_none()) {
        return Exec::Harness("snapshot incomplete".into());
    }
    let mut snap = Snap::<C> { r1_secret: r1s.into_iter().map(|x| x.unwrap()).collect(), r1_pkg: r1p.into_iter().map(|x| x.unwrap()).collect(), r2_secret: Vec::new(), r2_out: Vec::new() };
    let honest_r1 = |i: usize| -> R1Map<C> { (0..n).filter(|j| *j != i).map(|j| (ids[j], snap.r1_pkg[j].clone())).collect() };
    for i in 0..n {
        match dkg_part2::<C>(snap.r1_secret[i].clone(), &honest_r1(i)) {
            Ok((s, out)) => {
                snap.r2_secret.push(s);
                snap.r2_out.push(out);
            }
            Err(e) => return Exec::Violation(Violation::new("C08", "C08.control_failed", format!("honest part2 failed: {e:?}")), rep),
        }
    }
    let honest_r1 = |i: usize| -> R1Map<C> { (0..n).filter(|j| *j != i).map(|j| (ids[j], snap.r1_pkg[j].clone())).collect() };
    let honest_r2 = |i: usize| -> R2Map<C> { (0..n).filter(|j| *j != i).map(|j| (ids[j], snap.r2_out[j][&ids[i]].clone())).collect() };
    // control: no fault => success, and equal to what the simulated run produced
    for i in 0..n {
        match dkg_part3::<C>(&snap.r2_secret[i], &honest_r1(i), &honest_r2(i)) {
            Ok((kp, _pk)) => {
                let sim_kp = sim.history.iter().find_map(|r| match r {
                    Record::DkgDone { node, kp, .. } if *node == i => Some(kp.clone()),
                    _ => None,
                });
                if sim_kp.as_ref() != Some(&kp) {
                    return Exec::Harness("snapshot replay differs from the simulated run".into());
                }
            }
            Err(e) => return Exec::Violation(Violation::new("C08", "C08.control_failed", format!("honest part3 failed: {e:?}")), rep),
        }
    }
    // an identifier outside the group
    let mut op = stream(scen.seed, scen.run, "c08/outsider");
    let outsider = loop {
        let c = id_from_scalar::<C>(&sc_random_nonzero::<C>(&mut op)).unwrap();
        if !ids.contains(&c) {
            break c;
        }
    };
    // a valid round-1 package made BY the outsider identifier (for "surplus" and "unknown id" variants)
    let outsider_r1 = {
        let rng = crate::simrng::SimRng::good(stream(scen.seed, scen.run, "c08/outsider/part1"));
        match dkg::part1::<C, _>(outsider, scen.n, scen.t, rng) {
            Ok((_s, p)) => p,
            Err(e) => return Exec::Harness(format!("outsider part1: {e:?}")),
        }
    };
    let only: Option<(usize, usize, String)> = scen.extra.get("only").and_then(|o| o.as_array()).map(|a| (a[0].as_u64().unwrap() as usize, a[1].as_u64().unwrap() as usize, a[2].as_str().unwrap().to_string()));
    let big_length = scen.extra.get("big_length").and_then(|b| b.as_bool()).unwrap_or(false);
    let mut big_done = false;
    let mut trials = 0u64;

    for i in 0..n {
        let mut sorted_senders: Vec<usize> = (0..n).filter(|j| *j != i).collect();
        sorted_senders.sort_by_key(|j| ids[*j]);
        let last_sender = *sorted_senders.last().unwrap();
        for j in 0..n {
            if j == i {
                continue;
            }
            let jid = ids[j];
            let pkg_j = &snap.r1_pkg[j];
            let comm_ser: Vec<Vec<u8>> = match pkg_j.commitment().serialize() {
                Ok(v) => v,
                Err(e) => return Exec::Harness(format!("commitment serialize: {e:?}")),
            };
            let proof = *pkg_j.proof_of_knowledge();
            // another sender (for cross-sender substitutions), if any
            let k_other = (0..n).find(|k| *k != i && *k != j);
            // (kind, step, expectation, slot, round-1 map, round-2 map)
            let mut cases: Vec<(String, Step, Expect, Identifier<C>, R1Map<C>, R2Map<C>)> = Vec::new();
            let r1 = honest_r1(i);
            let r2 = honest_r2(i);
            let with_r1 = |p: round1::Package<C>| {
                let mut m = r1.clone();
                m.insert(jid, p);
                m
            };
            // --- proofs -----------------------------------------------------------------------
            if let Some(s2) = sig_with::<C>(&proof, |b, rl| {
                let z = sc_from_bytes::<C>(&b[rl..]).unwrap();
                b[rl..].copy_from_slice(&sc_bytes::<C>(&(z + one::<C>())));
            }) {
                cases.push(("proof_response".into(), Step::Part2, Expect::Named, jid, with_r1(round1::Package::new(pkg_j.commitment().clone(), s2)), r2.clone()));
            }
            {
                let alt = if C::IS_TR {
                    sig_with::<C>(&proof, |b, rl| {
                        let mut full = vec![0x02u8];
                        full.extend_from_slice(&b[..rl]);
                        let e2 = bump_element::<C>(&full).unwrap();
                        b[..rl].copy_from_slice(&e2[1..]);
                    })
                } else {
                    sig_with::<C>(&proof, |b, rl| {
                        let e2 = bump_element::<C>(&b[..rl]).unwrap();
                        b[..rl].copy_from_slice(&e2);
                    })
                };
                if let Some(s2) = alt {
                    cases.push(("proof_commitment".into(), Step::Part2, Expect::Named, jid, with_r1(round1::Package::new(pkg_j.commitment().clone(), s2)), r2.clone()));
                }
            }
            // a "proof" for the ZERO key: R = G*z with response z (what a refresh contribution, whose constant term is zero, honestly
            // carries) attached to j's real commitment - it proves nothing about j's constant term
            {
                let mut zp = stream(scen.seed, scen.run, &format!("c08/zero_key_proof/{i}/{j}"));
                let z = sc_random_nonzero::<C>(&mut zp);
                if let Some(rb) = el_bytes::<C>(&base::<C>(z)) {
                    let sb = proof.serialize().unwrap_or_default();
                    let rl = sb.len() - sc_len::<C>();
                    // the Taproot suite stores R x-only: take the even-Y representative's x (G*z or G*(-z), same x)
                    let mut bytes: Vec<u8> = if rb.len() == rl { rb.clone() } else { rb[rb.len() - rl..].to_vec() };
                    let zz = if rb.len() != rl && rb[0] == 0x03 { neg::<C>(z) } else { z };
                    bytes.extend_from_slice(&sc_bytes::<C>(&zz));
                    if let Ok(sig) = frost::Signature::<C>::deserialize(&bytes) {
                        cases.push(("proof_for_zero_key".into(), Step::Part2, Expect::Named, jid, with_r1(round1::Package::new(pkg_j.commitment().clone(), sig)), r2.clone()));
                    }
                }
            }
            if let Some(k) = k_other {
                // a proof that is valid, but for another identifier: k's whole package filed in j's slot
                cases.push(("proof_other_identifier".into(), Step::Part2, Expect::Named, jid, with_r1(snap.r1_pkg[k].clone()), r2.clone()));
                // j's commitment with k's proof, and k's commitment with j's proof
                cases.push(("proof_other_commitment".into(), Step::Part2, Expect::Named, jid, with_r1(round1::Package::new(pkg_j.commitment().clone(), *snap.r1_pkg[k].proof_of_knowledge())), r2.clone()));
                cases.push(("proof_other_commitment".into(), Step::Part2, Expect::Named, jid, with_r1(round1::Package::new(snap.r1_pkg[k].commitment().clone(), proof)), r2.clone()));
            } else {
                // n = 2: use the receiver's own package / the outsider's instead
                cases.push(("proof_other_identifier".into(), Step::Part2, Expect::Named, jid, with_r1(snap.r1_pkg[i].clone()), r2.clone()));
                cases.push(("proof_other_commitment".into(), Step::Part2, Expect::Named, jid, with_r1(round1::Package::new(pkg_j.commitment().clone(), *outsider_r1.proof_of_knowledge())), r2.clone()));
            }
            // --- every commitment coefficient ---------------------------------------------------
            for c in 0..t {
                let mut e = comm_ser.clone();
                if let Some(b2) = bump_element::<C>(&e[c]) {
                    e[c] = b2;
                    if let Some(cm) = commitment_from::<C>(&e) {
                        let name = if c == 0 { "coeff_0".to_string() } else if c + 1 == t { "coeff_last".to_string() } else { format!("coeff_{c}") };
                        let step = if c == 0 { Step::Part2 } else { Step::Part3 };
                        cases.push((name, step, Expect::Named, jid, with_r1(round1::Package::new(cm, proof)), r2.clone()));
                    }
                }
            }
            // --- Edwards suites: a non-constant coefficient plus the point of ORDER TWO (x, y) -> (-x, -y). The result is not in the
            // prime-order group, so its encoding must not decode at all (then there is no case to run); a decoder that lets it
            // through hands part3 a commitment whose error i*T2 vanishes for every receiver with an even identifier
            for c in 1..t {
                let mut e = comm_ser.clone();
                match plus_order_two(C::ID, &e[c]) {
                    Some(b2) => {
                        e[c] = b2;
                        match commitment_from::<C>(&e) {
                            Some(cm) => cases.push(("coeff_plus_order_two".into(), Step::Part3, Expect::Named, jid, with_r1(round1::Package::new(cm, proof)), r2.clone())),
                            None => rep.probe("order_two_variant_does_not_decode"),
                        }
                    }
                    None => {}
                }
            }
            // --- wrong lengths --------------------------------------------------------------------
            let mut lens: Vec<(String, Vec<Vec<u8>>)> = Vec::new();
            if t >= 2 {
                lens.push(("len_t_minus_1".into(), comm_ser[..t - 1].to_vec()));
            }
            let mut plus = comm_ser.clone();
            plus.push(comm_ser[t - 1].clone());
            lens.push(("len_t_plus_1".into(), plus));
            if t != 1 {
                lens.push(("len_1".into(), comm_ser[..1].to_vec()));
            }
            lens.push(("len_0".into(), Vec::new()));
            if big_length && !big_done && only.is_none() || only.as_ref().map(|o| o.2 == "len_t_plus_65536" && o.0 == i && o.1 == j).unwrap_or(false) {
                let mut big = comm_ser.clone();
                for _ in 0..65536 {
                    big.push(comm_ser[t - 1].clone());
                }
                lens.push(("len_t_plus_65536".into(), big));
                big_done = true;
            }
            for (name, entries) in lens {
                if let Some(cm) = commitment_from::<C>(&entries) {
                    cases.push((name, Step::Part2, Expect::Fails, jid, with_r1(round1::Package::new(cm, proof)), r2.clone()));
                }
            }
            // --- round-1 filing and counts --------------------------------------------------------
            {
                // under the receiver's own identifier (count preserved)
                let mut m = r1.clone();
                let p = m.remove(&jid).unwrap();
                m.insert(ids[i], p);
                cases.push(("r1_under_own_id".into(), Step::Part2, Expect::Fails, ids[i], m, r2.clone()));
                // under the receiver's own identifier, with the receiver's own (valid-for-it) package
                let mut m = r1.clone();
                m.remove(&jid);
                m.insert(ids[i], snap.r1_pkg[i].clone());
                cases.push(("r1_under_own_id".into(), Step::Part2, Expect::Fails, ids[i], m, r2.clone()));
                // under an unknown identifier: j's package (proof invalid there) and a package valid for that identifier
                let mut m = r1.clone();
                let p = m.remove(&jid).unwrap();
                m.insert(outsider, p);
                cases.push(("r1_under_unknown_id".into(), Step::Part2, Expect::Fails, outsider, m, r2.clone()));
                let mut m = r1.clone();
                m.remove(&jid);
                cases.push(("r1_missing".into(), Step::Part2, Expect::Fails, jid, m, r2.clone()));
                let mut m = r1.clone();
                m.insert(outsider, outsider_r1.clone());
                cases.push(("r1_surplus".into(), Step::Part2, Expect::Fails, outsider, m, r2.clone()));
            }
            // --- round 2 ---------------------------------------------------------------------------
            {
                let honest_share = share_scalar::<C>(r2[&jid].signing_share());
                let with_r2 = |p: round2::Package<C>| {
                    let mut m = r2.clone();
                    m.insert(jid, p);
                    m
                };
                cases.push(("share_plus_1".into(), Step::Part3, Expect::Named, jid, r1.clone(), with_r2(round2::Package::new(share_from_scalar::<C>(&(honest_share + one::<C>()))))));
                cases.push(("share_negated".into(), Step::Part3, Expect::Named, jid, r1.clone(), with_r2(round2::Package::new(share_from_scalar::<C>(&neg::<C>(honest_share))))));
                // structured values: zero (a wiped / default package), one, q - 1
                cases.push(("share_zero".into(), Step::Part3, Expect::Named, jid, r1.clone(), with_r2(round2::Package::new(share_from_scalar::<C>(&zero::<C>())))));
                cases.push(("share_one".into(), Step::Part3, Expect::Named, jid, r1.clone(), with_r2(round2::Package::new(share_from_scalar::<C>(&one::<C>())))));
                cases.push(("share_minus_one".into(), Step::Part3, Expect::Named, jid, r1.clone(), with_r2(round2::Package::new(share_from_scalar::<C>(&neg::<C>(one::<C>()))))));
                if let Some(k) = k_other {
                    // computed by j for another recipient k
                    cases.push(("share_other_recipient".into(), Step::Part3, Expect::Named, jid, r1.clone(), with_r2(snap.r2_out[j][&ids[k]].clone())));
                    // k's share for i, delivered in j's slot
                    cases.push(("share_other_sender".into(), Step::Part3, Expect::Named, jid, r1.clone(), with_r2(snap.r2_out[k][&ids[i]].clone())));
                } else {
                    // n = 2: j's own retained share f_j(j) delivered instead of f_j(i)
                    let own = snap.r2_secret[j].secret_share();
                    cases.push(("share_other_recipient".into(), Step::Part3, Expect::Named, jid, r1.clone(), with_r2(round2::Package::new(share_from_scalar::<C>(&own)))));
                }
                let mut m = r2.clone();
                let p = m.remove(&jid).unwrap();
                m.insert(ids[i], p);
                cases.push(("r2_under_own_id".into(), Step::Part3, Expect::Fails, ids[i], r1.clone(), m));
                let mut m = r2.clone();
                let p = m.remove(&jid).unwrap();
                m.insert(outsider, p);
                cases.push(("r2_under_unknown_id".into(), Step::Part3, Expect::Fails, outsider, r1.clone(), m));
                let mut m = r2.clone();
                m.remove(&jid);
                cases.push(("r2_missing".into(), Step::Part3, Expect::Fails, jid, r1.clone(), m));
                let mut m = r2.clone();
                m.insert(outsider, r2[&jid].clone());
                cases.push(("r2_surplus".into(), Step::Part3, Expect::Fails, outsider, r1.clone(), m));
                // a contribution missing / surplus CONSISTENTLY in both maps by the time part3 runs (part2 saw the honest map): the
                // statement lists a missing or surplus contribution without tying it to a step, and the two maps agreeing with
                // each other does not make a group of n-1 or n+1 the group this participant set out to join
                let mut m1 = r1.clone();
                m1.remove(&jid);
                let mut m2 = r2.clone();
                m2.remove(&jid);
                cases.push(("both_missing".into(), Step::Part3Only, Expect::Fails, jid, m1, m2));
                if let Some((opkg, oshare)) = outsider_contribution::<C>(scen, outsider, n as u16, t as u16, ids[i]) {
                    let mut m1 = r1.clone();
                    m1.insert(outsider, opkg);
                    let mut m2 = r2.clone();
                    m2.insert(outsider, oshare);
                    cases.push(("both_surplus".into(), Step::Part3Only, Expect::Fails, outsider, m1, m2));
                }
            }

            for (kind, step, expect, slot, m1, m2) in cases {
                if let Some((oi, oj, ok)) = &only {
                    if *oi != i || *oj != j || *ok != kind {
                        continue;
                    }
                }
                trials += 1;
                rep.evaluations += 1;
                rep.probe(&format!("kind_{kind}"));
                if j == last_sender && matches!(step, Step::Part3 | Step::Part3Only) {
                    rep.probe("receiver_last_sender_checked");
                }
                rep.extra_shapes.push(format!("{}|n{}t{}|{}|{i}|{j}|{kind}", scen.suite, scen.n, scen.t, scen.id_scheme));
                let narrow: Value = json!([i, j, kind]);
                let who = format!("receiver {i}, sender {j}, fault {kind}");
                let err: Option<frost::Error<C>> = match step {
                    Step::Part2 => match dkg_part2::<C>(snap.r1_secret[i].clone(), &m1) {
                        Ok(_) => None,
                        Err(e) => Some(e),
                    },
                    Step::Part3Only => match dkg_part3::<C>(&snap.r2_secret[i], &m1, &m2) {
                        Ok(_) => None,
                        Err(e) => Some(e),
                    },
                    Step::Part3 => {
                        // the documented contract: the same round-1 map goes to part2 and part3.
                        // part2 does not consume the faulty field in these cases and must not be the one to fail
                        // (it may, legitimately, for coefficient faults only if it consumed them - it does not).
                        let second: Result<(round2::SecretPackage<C>, R2Map<C>), frost::Error<C>> = dkg_part2::<C>(snap.r1_secret[i].clone(), &m1);
                        match second {
                            Err(e) => Some(e), // failing earlier is still a failure "instead of producing key material"
                            Ok((s2, _)) => match dkg_part3::<C>(&s2, &m1, &m2) {
                                Ok((kp, pk)) => {
                                    let _: (KeyPackage<C>, PublicKeyPackage<C>) = (kp, pk);
                                    None
                                }
                                Err(e) => Some(e),
                            },
                        }
                    }
                };
                match err {
                    None => {
                        return Exec::Violation(Violation::new("C08", "C08.faulty_contribution_accepted", format!("{who}: the step that consumes the field returned key material instead of an error")).narrowed(narrow), rep);
                    }
                    Some(e) => {
                        let c = e.culprits();
                        // the receiver is never the offender: something filed under its OWN identifier is refused without the error
                        // pointing at the receiver itself
                        if c.contains(&ids[i]) {
                            return Exec::Violation(Violation::new("C08", "C08.wrong_participant_blamed", format!("{who}: error {e:?} names the RECEIVER itself")).narrowed(narrow), rep);
                        }
                        if !c.iter().all(|x| *x == slot) {
                            return Exec::Violation(Violation::new("C08", "C08.wrong_participant_blamed", format!("{who}: error {e:?} names someone other than the offending slot")).narrowed(narrow), rep);
                        }
                        if matches!(expect, Expect::Named) && c != vec![slot] {
                            return Exec::Violation(Violation::new("C08", "C08.culprit_not_named", format!("{who}: error {e:?} does not name exactly the offending sender")).narrowed(narrow), rep);
                        }
                    }
                }
            }
        }
    }
    rep.probe_n("trials", trials);
    rep.nontrivial = trials > 0;
    rep.sample = Some(json!({"suite": scen.suite, "n": scen.n, "t": scen.t, "ids": scen.id_scheme, "trials": trials, "big_length": big_done}));
    Exec::Ok(rep)
}


/// Encoding of P + T2 for a compressed Edwards point P = (x, y), T2 = (0, -1) the point of order two: (-x, -y), i.e. y' = p - y and
/// the sign bit of x flipped. `None` for the other suites (no element of order two can be encoded there) and for y = 0.
fn plus_order_two(suite_id: &str, enc: &[u8]) -> Option<Vec<u8>> {
    let up = suite_id.to_uppercase();
    let (p, sign): (Vec<u8>, u8) = if up.contains("ED25519") && enc.len() == 32 {
        let mut p = vec![0xffu8; 32];
        p[0] = 0xed;
        p[31] = 0x7f;
        (p, enc[31] >> 7)
    } else if up.contains("ED448") && enc.len() == 57 {
        let mut p = vec![0xffu8; 56];
        p[28] = 0xfe;
        (p, enc[56] >> 7)
    } else {
        return None;
    };
    let mut y = enc[..p.len()].to_vec();
    if p.len() == 32 {
        y[31] &= 0x7f;
    }
    if y.iter().all(|b| *b == 0) {
        return None;
    }
    let mut out = vec![0u8; p.len()];
    let mut borrow = 0i16;
    for k in 0..p.len() {
        let mut d = p[k] as i16 - y[k] as i16 - borrow;
        if d < 0 {
            d += 256;
            borrow = 1;
        } else {
            borrow = 0;
        }
        out[k] = d as u8;
    }
    if borrow != 0 {
        return None;
    }
    let s2 = (sign ^ 1) << 7;
    if p.len() == 32 {
        out[31] |= s2;
    } else {
        out.push(s2);
    }
    Some(out)
}
