//! C20 — secret material is wiped on drop and on request and never shown in debug output.
//! World: a deployment (key generation, signing) run through the simulator; at node teardown every
//! secret-bearing value the node holds is dropped THROUGH AN OBSERVER: the value is moved into a
//! harness-owned slot, `drop_in_place` runs, then the slot is read back (inline storage) while the
//! allocator seam scans every heap block released during the drop. The event log renders every
//! such value with {:?} and {:#?}.

use std::mem::MaybeUninit;

use frost_core::keys::dkg::{self, round1, round2};
use frost_core::keys::{KeyPackage, SecretShare, SigningShare};
use frost_core::round1::{Nonce, SigningNonces};
use frost_core::{self as frost, Identifier, Scalar, SigningKey};
use serde_json::json;
use zeroize::Zeroize;

use crate::alloc::{observe_begin, observe_end};
use crate::dispatch;
use crate::engine::*;
use crate::genr::*;
use crate::prng::stream;
use crate::props::common::*;
use crate::scenario::*;
use crate::sim::Record;
use crate::suite::*;
use crate::wire::dec;

pub fn prop() -> Prop {
    Prop {
        id: "C20",
        level: "other",
        runs: |t| match t {
            Tier::Quick => 2400,
            Tier::Thorough => 30000,
        },
        generate,
        exec,
        shrink: generic_shrink,
        rule: "one evaluation = one observed teardown (drop_in_place in a harness-owned slot + allocator scan of the heap blocks released meanwhile), one zeroize() call re-read through the getters, or one Debug rendering searched for every encoding of every secret scalar of the value (hex in both cases and both byte orders, decimal byte list, in-memory image) plus a non-interference rendering (same public parts, other secrets); types: SigningKey, SigningShare, SecretShare, KeyPackage, SigningNonces, Nonce, dkg::round1::SecretPackage, dkg::round2::SecretPackage, dkg::round2::Package; controls (ManuallyDrop, Copy type) must still show the secret; non-trivial = all types observed; distinct = (suite, type, observation kind) x distinct values hashed and counted",
        distinct_measure: "hash of (suite, type, observation, secret)",
        assumptions: &["the observation sees what the drop glue writes in this build (dev profile, opt-level 1 for the harness, 3 for dependencies); dead-store elimination in another build is outside what it can certify", "copies made by moves before the value reached its slot are not part of 'the storage it occupied'", "bare SigningShare / Nonce are Copy types without drop glue (documented in the book): for them only zeroize() and Debug are checked"],
        real: &["Drop / Zeroize / ZeroizeOnDrop / Debug implementations of frost-core and the six ciphersuite crates"],
        stub: &["transport", "store", "glue", "random source", "allocator wrapper", "teardown observer"],
        independent: &[],
        ref_sample: |_| 0,
        required_probes: &["drop_map_returned_by_part2", "drop_map_returned_by_dealer", "drop_SigningKey", "drop_SecretShare", "drop_KeyPackage", "drop_SigningNonces", "drop_dkg_round1_SecretPackage", "drop_dkg_round2_SecretPackage", "drop_dkg_round2_Package", "heap_block_scanned", "control_manually_drop_keeps_secret", "control_copy_type_keeps_secret", "zeroize_KeyPackage", "zeroize_SecretShare", "zeroize_SigningNonces", "zeroize_SigningShare", "zeroize_Nonce", "zeroize_dkg_round1_SecretPackage", "zeroize_dkg_round2_SecretPackage", "zeroize_dkg_round2_Package", "debug_checked", "non_interference_checked", "refresh_round1_secret_included"],
        prepare: None,
    }
}

pub fn generate(seed: u64, run: u64, _tier: Tier) -> Scenario {
    let suite = SUITES[(run % 6) as usize];
    dispatch!(suite, gen_c(seed, run))
}

fn gen_c<C: Suite>(seed: u64, run: u64) -> Scenario {
    let mut p = stream(seed, run, "gen");
    let mut s = base_scenario("C20", C::NAME, seed, run);
    let slow = C::COST >= 9;
    let (n, t) = gen_nt(&mut p, 2, if slow { 3 } else { 4 });
    s.n = n;
    s.t = t;
    s.id_scheme = (*p.pick(&ID_SCHEMES)).to_string();
    s.ids_hex = gen_ids::<C>(&mut p, &s.id_scheme, n as usize);
    s.wire = gen_wire(&mut p);
    s.phases.push(vec![if run % 2 == 0 { Inst::Dkg } else { Inst::DealerKeygen { split_key: true } }]);
    let pool: Vec<usize> = (0..n as usize).collect();
    s.phases.push(vec![Inst::Sign { signers: gen_signers(&mut p, &pool, t as usize), msg_hex: hexs(&gen_message(&mut p)), mode: SignMode::Plain }]);
    s.sched = Sched::Random;
    s
}

pub fn exec(scen: &Scenario) -> Exec {
    dispatch!(scen.suite.as_str(), exec_c(scen))
}

/// The in-memory image of a scalar value (what a memory dump of a struct holding it shows).
fn image<C: Suite>(s: &Scalar<C>) -> Vec<u8> {
    let n = std::mem::size_of::<Scalar<C>>();
    let p = s as *const Scalar<C> as *const u8;
    unsafe { std::slice::from_raw_parts(p, n) }.to_vec()
}

fn find(hay: &[u8], needle: &[u8]) -> bool {
    !needle.is_empty() && hay.len() >= needle.len() && hay.windows(needle.len()).any(|w| w == needle)
}

struct DropObs {
    inline_before: bool,
    inline_after: bool,
    heap_hits: u32,
    heap_blocks: u32,
}

/// Move `value` into a harness-owned slot, run its drop glue there, and look at what is left.
fn observe_drop<T>(value: T, patterns: &[Vec<u8>]) -> DropObs {
    let len = patterns[0].len();
    let flat: Vec<u8> = patterns.iter().flat_map(|p| p.iter().cloned()).collect();
    let mut slot = MaybeUninit::<T>::new(value);
    let size = std::mem::size_of::<T>();
    let read = |slot: &MaybeUninit<T>| -> Vec<u8> {
        let p = slot.as_ptr() as *const u8;
        (0..size).map(|i| unsafe { std::ptr::read_volatile(p.add(i)) }).collect()
    };
    let before = read(&slot);
    let inline_before = patterns.iter().any(|p| find(&before, p));
    observe_begin(&flat, patterns.len(), len);
    unsafe { std::ptr::drop_in_place(slot.as_mut_ptr()) };
    let (heap_hits, heap_blocks) = observe_end();
    let after = read(&slot);
    let inline_after = patterns.iter().any(|p| find(&after, p));
    DropObs { inline_before, inline_after, heap_hits, heap_blocks }
}

/// Every textual encoding of a secret scalar that must not appear in a Debug rendering.
fn encodings(ser: &[u8], img: &[u8]) -> Vec<(String, String)> {
    let mut out = Vec::new();
    for (name, b) in [("serialized bytes", ser.to_vec()), ("reversed serialized bytes", ser.iter().rev().cloned().collect::<Vec<u8>>()), ("in-memory image", img.to_vec())] {
        let h = hex::encode(&b);
        out.push((format!("lower-case hex of the {name}"), h.clone()));
        out.push((format!("upper-case hex of the {name}"), h.to_uppercase()));
        // decimal byte list as derived Debug prints arrays / vectors: a run of 6 consecutive bytes is enough
        for w in [0usize, b.len() / 2] {
            if b.len() >= w + 6 {
                let list: Vec<String> = b[w..w + 6].iter().map(|x| x.to_string()).collect();
                out.push((format!("decimal byte list of the {name}"), list.join(", ")));
                out.push((format!("decimal byte list (pretty) of the {name}"), list.join(",\n")));
            }
        }
    }
    out
}

fn debug_leak(rendering: &str, secrets: &[(Vec<u8>, Vec<u8>)]) -> Option<String> {
    let squeezed: String = rendering.split_whitespace().collect::<Vec<_>>().join("");
    for (ser, img) in secrets {
        for (what, enc) in encodings(ser, img) {
            // ignore degenerate needles (e.g. a scalar with a long zero run)
            if enc.len() < 12 {
                continue;
            }
            let needle_squeezed: String = enc.split_whitespace().collect::<Vec<_>>().join("");
            if rendering.contains(&enc) || squeezed.contains(&needle_squeezed) {
                return Some(what);
            }
        }
    }
    None
}

fn exec_c<C: Suite>(scen: &Scenario) -> Exec {
    let mut rep = new_report(scen);
    let sim = match run_honest::<C>(scen, &mut rep) {
        Ok(s) => s,
        Err(v) if v.oracle == "harness" => return Exec::Harness(v.detail),
        Err(v) => return Exec::Violation(Violation::new("C20", "C20.control_failed", v.detail), rep),
    };
    let viol = |o: &str, d: String| Violation::new("C20", o, d);
    let zero_ser = sc_bytes::<C>(&zero::<C>());
    let sc_of = |b: &[u8]| sc_from_bytes::<C>(b).unwrap();
    let mut vp = stream(scen.seed, scen.run, "c20/values");

    // ---- collect the secret-bearing values the nodes hold at teardown ----------------------------------------
    let kps = current_kps(&sim);
    let mut key_packages: Vec<KeyPackage<C>> = kps.values().cloned().collect();
    let mut secret_shares: Vec<SecretShare<C>> = Vec::new();
    let mut nonces: Vec<SigningNonces<C>> = Vec::new();
    let mut r1_secrets: Vec<round1::SecretPackage<C>> = Vec::new();
    let mut r1_pkgs: Vec<(usize, round1::Package<C>)> = Vec::new();
    let mut r2_pkgs: Vec<round2::Package<C>> = Vec::new();
    let mut signing_keys: Vec<SigningKey<C>> = Vec::new();
    for r in &sim.history {
        match r {
            Record::DealerOut { shares, key, .. } => {
                secret_shares.extend(shares.values().cloned());
                if let Some(k) = key {
                    signing_keys.push(SigningKey::<C>::from_scalar(*k).unwrap());
                }
            }
            Record::Commit { nonces: nn, .. } => nonces.push(nn.clone()),
            Record::DkgPart1 { node, secret_json, pkg, .. } => {
                if let Ok(s) = serde_json::from_str::<round1::SecretPackage<C>>(secret_json) {
                    r1_secrets.push(s);
                }
                r1_pkgs.push((*node, pkg.clone()));
            }
            _ => {}
        }
    }
    for ((_, kind, _, _), b) in &sim.sent {
        if *kind == Kind::DkgR2 {
            if let Ok(p) = dec::<round2::Package<C>>(scen.wire, b) {
                r2_pkgs.push(p);
            }
        }
    }
    // worlds with dealer keys have no DKG state: make some with direct calls (honest, fresh)
    if r1_secrets.is_empty() {
        let n = scen.n;
        for j in 0..n as usize {
            let rng = crate::simrng::SimRng::good(stream(scen.seed, scen.run, &format!("c20/dkg/{j}")));
            if let Ok((s, p)) = dkg::part1::<C, _>(sim.ids[j], n, scen.t, rng) {
                r1_secrets.push(s);
                r1_pkgs.push((j, p));
            }
        }
    }
    // the distributed refresh stores the same package type with a DIFFERENT shape (commitment one entry shorter than the
    // coefficient list, zero constant term): a participant holds these between refresh rounds too
    let mut refresh_r2: Vec<round2::SecretPackage<C>> = Vec::new();
    {
        let n = scen.n;
        let mut secs = Vec::new();
        let mut pkgs = std::collections::BTreeMap::new();
        for j in 0..n as usize {
            let rng = crate::simrng::SimRng::good(stream(scen.seed, scen.run, &format!("c20/refresh/{j}")));
            if let Ok((s, p)) = frost::keys::refresh::refresh_dkg_part1::<C, _>(sim.ids[j], n, scen.t, rng) {
                secs.push(s);
                pkgs.insert(sim.ids[j], p);
            }
        }
        if secs.len() == n as usize {
            let mut m = pkgs.clone();
            m.remove(&sim.ids[0]);
            if let Ok((s2, _)) = frost::keys::refresh::refresh_dkg_part2::<C>(secs[0].clone(), &m) {
                refresh_r2.push(s2);
            }
            rep.probe("refresh_round1_secret_included");
            // first in the list so that truncation below keeps it
            r1_secrets.insert(0, secs[0].clone());
            if let Some(last) = secs.last() {
                r1_secrets.insert(1, last.clone());
            }
        }
    }
    let mut r2_secrets: Vec<round2::SecretPackage<C>> = Vec::new();
    {
        let n = scen.n as usize;
        if r1_secrets.len() >= n && r1_pkgs.len() >= n {
            let map: std::collections::BTreeMap<Identifier<C>, round1::Package<C>> = r1_pkgs.iter().take(n).filter(|(j, _)| *j != 0).map(|(j, p)| (sim.ids[*j], p.clone())).collect();
            let own = r1_secrets.iter().find(|s| *s.identifier() == sim.ids[0]).cloned();
            if let Some(own) = own {
                if let Ok((s2, out)) = dkg::part2::<C>(own, &map) {
                    r2_secrets.push(s2);
                    if r2_pkgs.is_empty() {
                        r2_pkgs.extend(out.values().cloned());
                    }
                }
            }
        }
    }
    if secret_shares.is_empty() {
        // DKG world: build a dealer share from a key package's material (well-formed, verifiable or not does not matter here)
        let mut rng = crate::simrng::SimRng::good(stream(scen.seed, scen.run, "c20/dealer"));
        if let Ok((sh, _)) = frost::keys::generate_with_dealer::<C, _>(scen.n, scen.t, frost::keys::IdentifierList::Default, &mut rng) {
            secret_shares.extend(sh.values().cloned());
        }
    }
    if signing_keys.is_empty() {
        signing_keys.push(SigningKey::<C>::new(&mut crate::simrng::SimRng::good(stream(scen.seed, scen.run, "c20/sk"))));
    }
    if r2_secrets.is_empty() || r2_pkgs.is_empty() || nonces.is_empty() || key_packages.is_empty() {
        return Exec::Harness("missing secret-bearing values".into());
    }
    key_packages.truncate(3);
    secret_shares.truncate(3);
    nonces.truncate(3);
    r1_secrets.truncate(4);
    r2_secrets.extend(refresh_r2);
    r2_pkgs.truncate(3);

    // ---- generic checks ------------------------------------------------------------------------------------------
    macro_rules! drop_check {
        ($tname:expr, $value:expr, $secrets:expr, $heap:expr) => {{
            let secrets: Vec<Scalar<C>> = $secrets;
            let pats: Vec<Vec<u8>> = secrets.iter().map(|s| image::<C>(s)).filter(|p| p.iter().filter(|b| **b != 0).count() >= 8).collect();
            if !pats.is_empty() {
                let tname: &str = $tname;
                // control 1: the same value under ManuallyDrop keeps its secret
                {
                    let c = std::mem::ManuallyDrop::new($value.clone());
                    let o = observe_drop(c, &pats);
                    rep.evaluations += 1;
                    if !o.inline_before && !$heap {
                        return Exec::Harness(format!("{tname}: secret image not found in the live value"));
                    }
                    if !$heap && !o.inline_after {
                        return Exec::Harness(format!("{tname}: ManuallyDrop control lost its secret: the observer is broken"));
                    }
                    rep.probe("control_manually_drop_keeps_secret");
                    // ManuallyDrop never runs the drop glue: release the clone properly afterwards is impossible here; it leaks (tiny)
                }
                let o = observe_drop($value.clone(), &pats);
                rep.evaluations += 1;
                rep.probe(&format!("drop_{}", tname.replace("::", "_")));
                if o.heap_blocks > 0 {
                    rep.probe("heap_block_scanned");
                }
                if !$heap && !o.inline_before {
                    return Exec::Harness(format!("{tname}: secret image not found in the live value"));
                }
                if o.inline_after {
                    return Exec::Violation(viol("C20.secret_left_in_storage_after_drop", format!("{tname} [{}]: after drop_in_place the storage the value occupied still contains the in-memory image of one of its secret scalars", C::NAME)), rep);
                }
                if o.heap_hits > 0 {
                    return Exec::Violation(viol("C20.secret_left_in_heap_block_after_drop", format!("{tname} [{}]: a heap block released while dropping the value still contained a secret scalar ({} of {} blocks)", C::NAME, o.heap_hits, o.heap_blocks)), rep);
                }
                rep.extra_shapes.push(format!("{}|{tname}|drop|{}", C::NAME, hexs(&pats[0][..6])));
            }
        }};
    }
    macro_rules! debug_check {
        ($tname:expr, $value:expr, $secrets:expr) => {{
            let secrets: Vec<Scalar<C>> = $secrets;
            let pairs: Vec<(Vec<u8>, Vec<u8>)> = secrets.iter().map(|s| (sc_bytes::<C>(s), image::<C>(s))).collect();
            for rendering in [format!("{:?}", $value), format!("{:#?}", $value)] {
                rep.evaluations += 1;
                rep.probe("debug_checked");
                if let Some(what) = debug_leak(&rendering, &pairs) {
                    return Exec::Violation(viol("C20.secret_in_debug_output", format!("{} [{}]: the Debug rendering contains the {what} of a secret scalar: {}", $tname, C::NAME, &rendering[..rendering.len().min(400)])), rep);
                }
            }
        }};
    }
    macro_rules! same_debug {
        ($tname:expr, $a:expr, $b:expr) => {{
            rep.evaluations += 1;
            rep.probe("non_interference_checked");
            if format!("{:?}", $a) != format!("{:?}", $b) || format!("{:#?}", $a) != format!("{:#?}", $b) {
                return Exec::Violation(viol("C20.debug_output_depends_on_secret", format!("{} [{}]: two values that differ only in their secret scalars render differently", $tname, C::NAME)), rep);
            }
        }};
    }

    // SigningKey
    for sk in &signing_keys {
        let s = sc_of(&sk.serialize());
        drop_check!("SigningKey", sk, vec![s], false);
        debug_check!("SigningKey", sk, vec![s]);
        let other = SigningKey::<C>::from_scalar(sc_random_nonzero::<C>(&mut vp)).unwrap();
        same_debug!("SigningKey", sk, &other);
    }
    // SigningShare (Copy: no drop glue; control that the observer sees a secret that is NOT wiped)
    {
        let sh: SigningShare<C> = *key_packages[0].signing_share();
        let s = share_scalar::<C>(&sh);
        let pats = vec![image::<C>(&s)];
        let o = observe_drop(sh, &pats);
        if !o.inline_before || !o.inline_after {
            return Exec::Harness("Copy-type control: the observer does not see an un-wiped secret".into());
        }
        rep.probe("control_copy_type_keeps_secret");
        let mut z = sh;
        z.zeroize();
        rep.evaluations += 1;
        rep.probe("zeroize_SigningShare");
        if z.serialize() != zero_ser {
            return Exec::Violation(viol("C20.zeroize_left_secret", format!("SigningShare [{}]: after zeroize() the share is not zero", C::NAME)), rep);
        }
        debug_check!("SigningShare", &sh, vec![s]);
        let other = share_from_scalar::<C>(&sc_random_nonzero::<C>(&mut vp));
        same_debug!("SigningShare", &sh, &other);
        // Nonce
        let nn: Nonce<C> = *nonces[0].hiding();
        let mut zn = nn;
        zn.zeroize();
        rep.probe("zeroize_Nonce");
        if zn.serialize() != zero_ser {
            return Exec::Violation(viol("C20.zeroize_left_secret", format!("Nonce [{}]: after zeroize() the nonce is not zero", C::NAME)), rep);
        }
    }
    // KeyPackage
    for kp in &key_packages {
        let s = share_scalar::<C>(kp.signing_share());
        drop_check!("KeyPackage", kp, vec![s], false);
        debug_check!("KeyPackage", kp, vec![s]);
        let other = KeyPackage::<C>::new(*kp.identifier(), share_from_scalar::<C>(&sc_random_nonzero::<C>(&mut vp)), *kp.verifying_share(), *kp.verifying_key(), *kp.min_signers());
        same_debug!("KeyPackage", kp, &other);
        let mut z = kp.clone();
        z.zeroize();
        rep.evaluations += 1;
        rep.probe("zeroize_KeyPackage");
        if z.signing_share().serialize() != zero_ser {
            return Exec::Violation(viol("C20.zeroize_left_secret", format!("KeyPackage [{}]: after zeroize() signing_share() is not zero", C::NAME)), rep);
        }
    }
    // SecretShare
    for sh in &secret_shares {
        let s = share_scalar::<C>(sh.signing_share());
        drop_check!("SecretShare", sh, vec![s], false);
        debug_check!("SecretShare", sh, vec![s]);
        let other = SecretShare::<C>::new(*sh.identifier(), share_from_scalar::<C>(&sc_random_nonzero::<C>(&mut vp)), sh.commitment().clone());
        same_debug!("SecretShare", sh, &other);
        let mut z = sh.clone();
        z.zeroize();
        rep.evaluations += 1;
        rep.probe("zeroize_SecretShare");
        if z.signing_share().serialize() != zero_ser {
            return Exec::Violation(viol("C20.zeroize_left_secret", format!("SecretShare [{}]: after zeroize() signing_share() is not zero", C::NAME)), rep);
        }
    }
    // SigningNonces
    for nn in &nonces {
        let h = sc_of(&nn.hiding().serialize());
        let b = sc_of(&nn.binding().serialize());
        drop_check!("SigningNonces", nn, vec![h, b], false);
        debug_check!("SigningNonces", nn, vec![h, b]);
        let mut z = nn.clone();
        z.zeroize();
        rep.evaluations += 1;
        rep.probe("zeroize_SigningNonces");
        if z.hiding().serialize() != zero_ser || z.binding().serialize() != zero_ser {
            return Exec::Violation(viol("C20.zeroize_left_secret", format!("SigningNonces [{}]: after zeroize() a nonce is not zero", C::NAME)), rep);
        }
    }
    // dkg::round1::SecretPackage (secrets live on the heap: Vec of coefficients)
    for sp in &r1_secrets {
        let coeffs = crate::props::c07::r1_secret_coeffs::<C>(&serde_json::to_string(sp).unwrap_or_default()).unwrap_or_default();
        let nz: Vec<Scalar<C>> = coeffs.iter().filter(|c| **c != zero::<C>()).cloned().collect();
        if nz.is_empty() {
            continue;
        }
        // control: the heap really holds the secrets while the value lives (clone, leak via ManuallyDrop, look at serialisation instead)
        drop_check!("dkg::round1::SecretPackage", sp, nz.clone(), true);
        debug_check!("dkg::round1::SecretPackage", sp, nz.clone());
        let other_coeffs: Vec<Scalar<C>> = (0..coeffs.len()).map(|_| sc_random_nonzero::<C>(&mut vp)).collect();
        let other = round1::SecretPackage::<C>::new(*sp.identifier(), other_coeffs, sp.commitment().clone(), *sp.min_signers(), *sp.max_signers());
        same_debug!("dkg::round1::SecretPackage", sp, &other);
        let mut z = sp.clone();
        z.zeroize();
        rep.evaluations += 1;
        rep.probe("zeroize_dkg_round1_SecretPackage");
        let left = crate::props::c07::r1_secret_coeffs::<C>(&serde_json::to_string(&z).unwrap_or_default()).unwrap_or_default();
        if left.iter().any(|c| *c != zero::<C>()) {
            return Exec::Violation(viol("C20.zeroize_left_secret", format!("dkg::round1::SecretPackage [{}]: after zeroize() a coefficient is not zero", C::NAME)), rep);
        }
    }
    // dkg::round2::SecretPackage
    for sp in &r2_secrets {
        let s = sp.secret_share();
        drop_check!("dkg::round2::SecretPackage", sp, vec![s], false);
        debug_check!("dkg::round2::SecretPackage", sp, vec![s]);
        let other = round2::SecretPackage::<C>::new(*sp.identifier(), sp.commitment().clone(), sc_random_nonzero::<C>(&mut vp), *sp.min_signers(), *sp.max_signers());
        same_debug!("dkg::round2::SecretPackage", sp, &other);
        let mut z = sp.clone();
        z.zeroize();
        rep.evaluations += 1;
        rep.probe("zeroize_dkg_round2_SecretPackage");
        if z.secret_share() != zero::<C>() {
            return Exec::Violation(viol("C20.zeroize_left_secret", format!("dkg::round2::SecretPackage [{}]: after zeroize() secret_share() is not zero", C::NAME)), rep);
        }
    }
    // the MAPS the library itself builds and hands out - part2's round-two packages for the peers, the dealer's shares: the user
    // sends the entries and drops the map; whatever the map's blocks held when they are released must be wiped (a handful of
    // entries: a B-tree that never split; moves inside a splitting tree are beyond what drop glue can reach)
    {
        let m = (scen.n as usize).clamp(3, 6) as u16;
        let tt = scen.t.min(m).max(2);
        let mut secs = Vec::new();
        let mut r1: std::collections::BTreeMap<frost::Identifier<C>, frost::keys::dkg::round1::Package<C>> = std::collections::BTreeMap::new();
        let mids: Vec<frost::Identifier<C>> = (1..=m).map(|i| id_from_scalar::<C>(&sc_from_u64::<C>(i as u64 * 3)).unwrap()).collect();
        let mut okk = true;
        for (j, id) in mids.iter().enumerate() {
            let rng = crate::simrng::SimRng::good(stream(scen.seed, scen.run, &format!("c20/maps/part1/{j}")));
            match frost::keys::dkg::part1::<C, _>(*id, m, tt, rng) {
                Ok((sec, pkg)) => {
                    secs.push(sec);
                    r1.insert(*id, pkg);
                }
                Err(_) => okk = false,
            }
        }
        if okk {
            // the lowest, a middle and the highest participant (which entry a tree vacates depends on the position)
            for who in [0usize, m as usize / 2, m as usize - 1] {
                let mut others = r1.clone();
                others.remove(&mids[who]);
                if let Ok((s2, out)) = frost::keys::dkg::part2::<C>(secs[who].clone(), &others) {
                    let mut secrets: Vec<Scalar<C>> = out.values().map(|p| share_scalar::<C>(p.signing_share())).collect();
                    secrets.push(s2.secret_share());
                    let pats: Vec<Vec<u8>> = secrets.iter().map(|s| image::<C>(s)).filter(|p| p.iter().filter(|b| **b != 0).count() >= 8).collect();
                    if !pats.is_empty() {
                        let o = observe_drop(out, &pats);
                        rep.evaluations += 1;
                        rep.probe("drop_map_returned_by_part2");
                        if o.heap_hits > 0 || o.inline_after {
                            return Exec::Violation(
                                viol("C20.secret_left_in_heap_block_after_drop", format!("map of round-two packages returned by dkg::part2 to participant #{who} of {m} [{}]: a block released while dropping it still contained a share the participant computed ({} of {} blocks)", C::NAME, o.heap_hits, o.heap_blocks)),
                                rep,
                            );
                        }
                    }
                }
            }
        }
        let mut rng = crate::simrng::SimRng::good(stream(scen.seed, scen.run, "c20/maps/dealer"));
        if let Ok((shares, _)) = frost::keys::generate_with_dealer::<C, _>(m, tt, frost::keys::IdentifierList::Custom(&mids), &mut rng) {
            let secrets: Vec<Scalar<C>> = shares.values().map(|s| share_scalar::<C>(s.signing_share())).collect();
            let pats: Vec<Vec<u8>> = secrets.iter().map(|s| image::<C>(s)).filter(|p| p.iter().filter(|b| **b != 0).count() >= 8).collect();
            if !pats.is_empty() {
                let o = observe_drop(shares, &pats);
                rep.evaluations += 1;
                rep.probe("drop_map_returned_by_dealer");
                if o.heap_hits > 0 || o.inline_after {
                    return Exec::Violation(viol("C20.secret_left_in_heap_block_after_drop", format!("map of shares returned by generate_with_dealer ({m} participants) [{}]: a block released while dropping it still contained a share ({} of {} blocks)", C::NAME, o.heap_hits, o.heap_blocks)), rep);
                }
            }
        }
    }
    // dkg::round2::Package
    for pkg in &r2_pkgs {
        let s = share_scalar::<C>(pkg.signing_share());
        drop_check!("dkg::round2::Package", pkg, vec![s], false);
        debug_check!("dkg::round2::Package", pkg, vec![s]);
        let other = round2::Package::<C>::new(share_from_scalar::<C>(&sc_random_nonzero::<C>(&mut vp)));
        same_debug!("dkg::round2::Package", pkg, &other);
        let mut z = pkg.clone();
        z.zeroize();
        rep.evaluations += 1;
        rep.probe("zeroize_dkg_round2_Package");
        if z.signing_share().serialize() != zero_ser {
            return Exec::Violation(viol("C20.zeroize_left_secret", format!("dkg::round2::Package [{}]: after zeroize() signing_share() is not zero", C::NAME)), rep);
        }
    }
    // heap control: a Vec of scalar images dropped WITHOUT wiping must be seen by the allocator seam
    {
        let s = share_scalar::<C>(key_packages[0].signing_share());
        let img = image::<C>(&s);
        let v: Vec<Vec<u8>> = vec![img.clone()];
        let o = observe_drop(v, &[img]);
        if o.heap_hits == 0 {
            return Exec::Harness("allocator seam control: an un-wiped heap block was not seen".into());
        }
    }
    rep.nontrivial = true;
    rep.sample = Some(json!({"suite": scen.suite, "values": {"SigningKey": signing_keys.len(), "KeyPackage": key_packages.len(), "SecretShare": secret_shares.len(), "SigningNonces": nonces.len(), "dkg::round1::SecretPackage": r1_secrets.len(), "dkg::round2::SecretPackage": r2_secrets.len(), "dkg::round2::Package": r2_pkgs.len()}, "example_debug": format!("{:?}", key_packages[0]).chars().take(160).collect::<String>()}));
    Exec::Ok(rep)
}
