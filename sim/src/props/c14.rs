//! C14 — untrusted bytes and untrusted protocol messages never cause a panic.
//! World: a deployment run through the simulator (honest local state everywhere). Faults at high
//! rate on every envelope kind and every stored slot: bit flips, byte substitution, insertion,
//! deletion, truncation, extension, splicing of two envelopes, length-prefix / count inflation,
//! foreign headers, cross-suite misdelivery, JSON structure damage; plus adversarial WELL-TYPED
//! arguments to every protocol entry point (empty / oversized / duplicated / inconsistent maps,
//! thresholds 0, 1, 65535, None, empty and unequal-length commitment vectors, unknown and own
//! identifiers, empty helper lists, empty and huge messages, empty batch).
//! Oracle: every call runs under catch_unwind in a build with overflow checks and debug
//! assertions on; any panic is a violation.

use std::cell::RefCell;
use std::collections::BTreeMap;
use std::panic::{AssertUnwindSafe, catch_unwind};

use frost_core::keys::dkg::{self, round1, round2};
use frost_core::keys::repairable::{self, Delta, Sigma};
use frost_core::keys::{self, refresh, CoefficientCommitment, IdentifierList, KeyPackage, PublicKeyPackage, SecretShare, SigningShare, VerifiableSecretSharingCommitment, VerifyingShare};
use frost_core::round1::{Nonce, NonceCommitment, SigningCommitments, SigningNonces};
use frost_core::round2::SignatureShare;
use frost_core::{self as frost, CheaterDetection, Identifier, Signature, SigningKey, SigningPackage, VerifyingKey};
use frost_rerandomized::{RandomizedParams, Randomizer};
use serde_json::{Value, json};

use crate::dispatch;
use crate::engine::*;
use crate::genr::*;
use crate::prng::{Prng, stream};
use crate::props::common::*;
use crate::scenario::*;
use crate::sim::{Record, Sim};
use crate::simrng::SimRng;
use crate::suite::*;
use crate::wire::{Fmt, Wire, dec, enc, unframe};

thread_local! {
    pub static LAST_PANIC: RefCell<String> = const { RefCell::new(String::new()) };
}

pub fn prop() -> Prop {
    Prop {
        id: "C14",
        level: "exploration",
        runs: |t| match t {
            Tier::Quick => 96,
            Tier::Thorough => 1600,
        },
        generate,
        exec,
        shrink: generic_shrink,
        rule: "one evaluation = one decoder call on a mutated envelope / stored slot (binary and JSON, every wire type, structure-aware mutations of the valid encodings seen in the simulated run) or one protocol entry-point call with adversarial well-typed peer material and honest local state, each under catch_unwind with overflow checks and debug assertions on; non-trivial = both parts executed; distinct = (suite, decoder or entry point, mutation kind) hashed and counted",
        distinct_measure: "hash of (suite, decoder / entry point, mutation or argument kind)",
        assumptions: &["the caller's own secret state is honestly generated (as the property states)", "a search for a counter-example: a clean batch is evidence, not proof", "allocation bombs would abort the process under ulimit -v and be reported as a harness failure of the run, distinguished from a panic"],
        real: &["every decoder and protocol entry point of frost-core, frost-rerandomized and the six ciphersuite crates"],
        stub: &["transport", "store", "glue", "random source", "corrupting / Byzantine network"],
        independent: &[],
        ref_sample: |_| 0,
        required_probes: &["decoder_bin", "decoder_json", "mut_flip", "mut_insert", "mut_delete", "mut_truncate", "mut_splice", "mut_inflate", "mut_cross_suite", "mutated_still_decodes", "call_sign", "call_aggregate", "call_verify_signature_share", "call_key_package_try_from", "call_dkg_part2", "call_dkg_part3", "call_refresh_share", "call_refresh_dkg", "call_compute_refreshing_shares", "call_repair", "call_reconstruct", "call_batch", "call_rerandomized", "call_split", "call_misc", "targeted_zero_sum_dkg", "targeted_oversized_share", "targeted_refresh_with_mismatched_package"],
        prepare: None,
    }
}

pub fn generate(seed: u64, run: u64, _tier: Tier) -> Scenario {
    let suite = SUITES[(run % 6) as usize];
    dispatch!(suite, gen_c(seed, run))
}

fn gen_c<C: Suite>(seed: u64, run: u64) -> Scenario {
    let mut p = stream(seed, run, "gen");
    let mut s = base_scenario("C14", C::NAME, seed, run);
    let slow = C::COST >= 9;
    let n: u16 = if slow { 3 } else { p.range(3, 5) as u16 };
    let t: u16 = p.range(2, (n - 1) as u64) as u16;
    s.n = n;
    s.t = t;
    s.id_scheme = (*p.pick(&ID_SCHEMES)).to_string();
    s.ids_hex = gen_ids::<C>(&mut p, &s.id_scheme, n as usize);
    s.wire = gen_wire(&mut p);
    let pool: Vec<usize> = (0..n as usize).collect();
    s.phases.push(vec![if run % 2 == 0 { Inst::Dkg } else { Inst::DealerKeygen { split_key: false } }]);
    s.phases.push(vec![
        Inst::Sign { signers: gen_signers(&mut p, &pool, t as usize), msg_hex: hexs(&gen_message(&mut p)), mode: SignMode::Rerand },
        Inst::Sign { signers: gen_signers(&mut p, &pool, t as usize), msg_hex: hexs(&gen_message(&mut p)), mode: if C::IS_TR { SignMode::Tweak(Some(hexs(&p.bytes(32)))) } else { SignMode::Plain } },
    ]);
    s.phases.push(vec![if run % 4 < 2 { Inst::RefreshDkg { remaining: pool.clone() } } else { Inst::RefreshDealer { remaining: pool.clone() } }]);
    let target = p.below(n as u64) as usize;
    let others: Vec<usize> = pool.iter().filter(|x| **x != target).cloned().collect();
    let mut helpers: Vec<usize> = p.subset(others.len(), t as usize).into_iter().map(|i| others[i]).collect();
    p.shuffle(&mut helpers);
    s.phases.push(vec![Inst::Repair { target, helpers }]);
    s.sched = Sched::Random;
    s
}

pub fn exec(scen: &Scenario) -> Exec {
    dispatch!(scen.suite.as_str(), exec_c(scen))
}

fn guarded<R>(f: impl FnOnce() -> R) -> Result<R, String> {
    LAST_PANIC.with(|l| l.borrow_mut().clear());
    match catch_unwind(AssertUnwindSafe(f)) {
        Ok(r) => Ok(r),
        Err(p) => {
            let msg = if let Some(s) = p.downcast_ref::<&str>() {
                s.to_string()
            } else if let Some(s) = p.downcast_ref::<String>() {
                s.clone()
            } else {
                "panic".into()
            };
            let loc = LAST_PANIC.with(|l| l.borrow().clone());
            Err(if loc.is_empty() { msg } else { loc })
        }
    }
}

const MUTS: [&str; 9] = ["flip", "substitute", "insert", "delete", "truncate", "extend", "splice", "inflate", "ff_run"];

fn mutate(p: &mut Prng, base: &[u8], other: &[u8], kind: &str) -> Vec<u8> {
    let mut b = base.to_vec();
    if b.is_empty() {
        return p.bytes(3);
    }
    match kind {
        "flip" => {
            for _ in 0..p.range(1, 3) {
                let i = p.below(b.len() as u64 * 8) as usize;
                b[i / 8] ^= 1 << (i % 8);
            }
        }
        "substitute" => {
            let i = p.below(b.len() as u64) as usize;
            b[i] = *p.pick(&[0u8, 1, 0x7f, 0x80, 0xfe, 0xff, (p.clone().next_u64() & 0xff) as u8]);
        }
        "insert" => {
            let i = p.below(b.len() as u64 + 1) as usize;
            let n = p.range(1, 4) as usize;
            for _ in 0..n {
                b.insert(i, (p.next_u64() & 0xff) as u8);
            }
        }
        "delete" => {
            let i = p.below(b.len() as u64) as usize;
            let n = (p.range(1, 4) as usize).min(b.len() - i);
            b.drain(i..i + n);
        }
        "truncate" => {
            let n = p.below(b.len() as u64) as usize;
            b.truncate(n);
        }
        "extend" => {
            let n = p.range(1, 40) as usize;
            b.extend(p.bytes(n));
        }
        "splice" => {
            let i = p.below(b.len() as u64) as usize;
            let j = p.below(other.len().max(1) as u64) as usize;
            b.truncate(i);
            b.extend_from_slice(&other[j.min(other.len())..]);
        }
        "inflate" => {
            // length prefixes / counts: small bytes become huge varints
            let small: Vec<usize> = b.iter().enumerate().filter(|(_, x)| **x > 0 && **x < 0x40).map(|(i, _)| i).collect();
            if let Some(i) = small.get(p.below(small.len().max(1) as u64) as usize).copied() {
                match p.below(3) {
                    0 => b[i] = 0xff,
                    1 => {
                        b[i] = 0xff;
                        b.insert(i + 1, 0xff);
                        b.insert(i + 2, 0x7f);
                    }
                    _ => {
                        b.splice(i..i + 1, [0xff, 0xff, 0xff, 0xff, 0x0f]);
                    }
                }
            }
        }
        _ => {
            let i = p.below(b.len() as u64) as usize;
            let n = (p.range(1, 12) as usize).min(b.len() - i);
            for x in &mut b[i..i + n] {
                *x = 0xff;
            }
        }
    }
    b
}

fn mutate_json(p: &mut Prng, base: &[u8]) -> Vec<u8> {
    let Ok(mut v) = serde_json::from_slice::<Value>(base) else { return base.to_vec() };
    fn paths(v: &Value, cur: Vec<String>, out: &mut Vec<Vec<String>>) {
        out.push(cur.clone());
        match v {
            Value::Object(m) => {
                for (k, x) in m {
                    let mut c = cur.clone();
                    c.push(k.clone());
                    paths(x, c, out);
                }
            }
            Value::Array(a) => {
                for (i, x) in a.iter().enumerate() {
                    let mut c = cur.clone();
                    c.push(i.to_string());
                    paths(x, c, out);
                }
            }
            _ => {}
        }
    }
    let mut all = Vec::new();
    paths(&v, vec![], &mut all);
    let mut path = p.pick(&all).clone();
    // header fields are the gate every message passes: bias some mutations onto them
    if p.chance(1, 6) {
        if let Some(hp) = all.iter().find(|x| x.last().map(|l| l == "ciphersuite").unwrap_or(false)) {
            path = hp.clone();
        }
    }
    let non_ascii = |p: &mut Prng| -> String {
        // long strings of multi-byte characters at every alignment (truncation / slicing at a byte offset is a classic)
        let unit = *p.pick(&["\u{0444}", "\u{6f22}", "\u{1F980}", "\u{00e9}", "FROST-\u{0436}"]);
        let mut s = "x".repeat(p.below(4) as usize);
        let n = p.range(1, 120) as usize;
        for _ in 0..n {
            s.push_str(unit);
        }
        s
    };
    let repl = match p.below(14) {
        12 | 13 => json!(non_ascii(p)),
        0 => Value::Null,
        1 => json!(0),
        2 => json!(-1),
        3 => json!(65536),
        4 => json!(18446744073709551615u64),
        5 => json!(""),
        6 => json!("zz"),
        7 => json!([]),
        8 => json!({}),
        9 => json!("00".repeat(p.range(1, 80) as usize)),
        10 => json!(1.5),
        _ => json!([[[[[[[[1]]]]]]]]),
    };
    let mut cur = &mut v;
    for k in &path {
        cur = match cur {
            Value::Object(m) => m.get_mut(k).unwrap(),
            Value::Array(a) => a.get_mut(k.parse::<usize>().unwrap()).unwrap(),
            _ => break,
        };
    }
    match p.below(4) {
        0 if cur.is_object() => {
            cur.as_object_mut().unwrap().insert("extra".into(), repl);
        }
        1 if cur.is_object() => {
            let keys: Vec<String> = cur.as_object().unwrap().keys().cloned().collect();
            if let Some(k) = keys.get(p.below(keys.len().max(1) as u64) as usize) {
                cur.as_object_mut().unwrap().remove(k);
            }
        }
        2 if cur.is_string() => {
            // hex strings: odd length, upper case, non-hex, one char changed
            let s = cur.as_str().unwrap().to_string();
            let t = match p.below(4) {
                0 => s[..s.len().saturating_sub(1)].to_string(),
                1 => s.to_uppercase(),
                2 => format!("{s}g"),
                _ => {
                    let mut c: Vec<char> = s.chars().collect();
                    if !c.is_empty() {
                        let i = p.below(c.len() as u64) as usize;
                        c[i] = *p.pick(&['0', 'f', 'F', 'x', ' ']);
                    }
                    c.into_iter().collect()
                }
            };
            *cur = json!(t);
        }
        _ => *cur = repl,
    }
    let mut out = v.to_string().into_bytes();
    if p.chance(1, 10) {
        let n = p.below(out.len() as u64) as usize;
        out.truncate(n);
    }
    out
}

type DecFn = Box<dyn Fn(Fmt, &[u8]) -> bool>;

fn decoder<T: Wire + 'static>() -> (&'static str, DecFn) {
    (T::TYPE, Box::new(|fmt, b| dec::<T>(fmt, b).is_ok()))
}

struct Ctx<C: Suite> {
    kps: Vec<KeyPackage<C>>,
    pk: PublicKeyPackage<C>,
    ids: Vec<Identifier<C>>,
    outsider: Identifier<C>,
    t: u16,
    n: u16,
    r1_secret: Option<round1::SecretPackage<C>>,
    r1_pkgs: BTreeMap<Identifier<C>, round1::Package<C>>,
    r2_secret: Option<round2::SecretPackage<C>>,
    r2_pkgs: BTreeMap<Identifier<C>, round2::Package<C>>,
    session: Option<(SigningPackage<C>, BTreeMap<Identifier<C>, SignatureShare<C>>)>,
    /// values decoded from MUTATED bytes (well-typed adversarial material)
    adv_pkg: Vec<SigningPackage<C>>,
    adv_pk: Vec<PublicKeyPackage<C>>,
    adv_share: Vec<SecretShare<C>>,
    adv_r1: Vec<round1::Package<C>>,
    adv_r2: Vec<round2::Package<C>>,
    adv_comm: Vec<SigningCommitments<C>>,
    adv_kp: Vec<KeyPackage<C>>,
}

fn exec_c<C: Suite>(scen: &Scenario) -> Exec {
    let mut rep = new_report(scen);
    let sim: Sim<C> = match run_honest::<C>(scen, &mut rep) {
        Ok(s) => s,
        Err(v) if v.oracle == "harness" => return Exec::Harness(v.detail),
        Err(v) => {
            let o = if v.oracle.contains("panicked") { "C14.panic_on_honest_path" } else { "C14.control_failed" };
            return Exec::Violation(Violation::new("C14", o, v.detail), rep);
        }
    };
    let quick_budget: u64 = if C::COST >= 9 { 5_000 } else if C::COST >= 3 { 12_000 } else { 18_000 };
    let budget = scen.extra.get("decoder_budget").and_then(|v| v.as_u64()).unwrap_or(quick_budget);
    // ---- corpus: every envelope and every stored slot of the run, by type, in both formats ----------------
    let decoders: Vec<(&'static str, DecFn)> = vec![
        decoder::<SecretShare<C>>(),
        decoder::<KeyPackage<C>>(),
        decoder::<PublicKeyPackage<C>>(),
        decoder::<SigningNonces<C>>(),
        decoder::<SigningCommitments<C>>(),
        decoder::<SigningPackage<C>>(),
        decoder::<SignatureShare<C>>(),
        decoder::<round1::Package<C>>(),
        decoder::<round1::SecretPackage<C>>(),
        decoder::<round2::Package<C>>(),
        decoder::<round2::SecretPackage<C>>(),
        decoder::<Delta<C>>(),
        decoder::<Sigma<C>>(),
        decoder::<Identifier<C>>(),
        decoder::<SigningShare<C>>(),
        decoder::<VerifyingShare<C>>(),
        decoder::<VerifyingKey<C>>(),
        decoder::<Signature<C>>(),
        decoder::<Nonce<C>>(),
        decoder::<NonceCommitment<C>>(),
        decoder::<CoefficientCommitment<C>>(),
        decoder::<Randomizer<C>>(),
        ("SigningKey", Box::new(|_f, b| SigningKey::<C>::deserialize(b).is_ok())),
        ("VSSCommitment::deserialize_whole", Box::new(|_f, b| VerifiableSecretSharingCommitment::<C>::deserialize_whole(b).is_ok())),
        ("VSSCommitment(json)", Box::new(|_f, b| serde_json::from_slice::<VerifiableSecretSharingCommitment<C>>(b).is_ok())),
    ];
    let mut corpus: BTreeMap<&'static str, Vec<(Fmt, Vec<u8>)>> = BTreeMap::new();
    {
        let mut add = |name: &'static str, fmt: Fmt, b: Vec<u8>| {
            let v = corpus.entry(name).or_default();
            if v.len() < 6 && !v.iter().any(|(f, x)| *f == fmt && *x == b) {
                v.push((fmt, b));
            }
        };
        fn both<T: Wire>(v: &T, add: &mut dyn FnMut(&'static str, Fmt, Vec<u8>)) {
            for f in [Fmt::Bin, Fmt::Json] {
                if let Ok(b) = enc(f, v) {
                    add(T::TYPE, f, b);
                }
            }
        }
        for r in &sim.history {
            match r {
                Record::DealerOut { shares, pk, .. } => {
                    for sh in shares.values().take(1) {
                        both(sh, &mut add);
                        both(sh.identifier(), &mut add);
                        both(sh.signing_share(), &mut add);
                        if let Ok(w) = sh.commitment().serialize_whole() {
                            add("VSSCommitment::deserialize_whole", Fmt::Bin, w);
                        }
                        if let Ok(j) = serde_json::to_vec(sh.commitment()) {
                            add("VSSCommitment(json)", Fmt::Json, j);
                        }
                    }
                    both(pk, &mut add);
                    both(pk.verifying_key(), &mut add);
                }
                Record::KeyPackage { kp, .. } | Record::Repaired { kp, .. } | Record::DkgDone { kp, .. } => {
                    both(kp, &mut add);
                    both(kp.verifying_share(), &mut add);
                    both(kp.identifier(), &mut add);
                    add("SigningKey", Fmt::Bin, kp.signing_share().serialize());
                }
                Record::Refreshed { new_kp, new_pk, .. } => {
                    both(new_kp, &mut add);
                    if let Some(pk) = new_pk {
                        both(pk, &mut add);
                    }
                }
                Record::DkgPart1 { pkg, secret_json, .. } => {
                    both(pkg, &mut add);
                    both(pkg.proof_of_knowledge(), &mut add);
                    if let Ok(s) = serde_json::from_str::<round1::SecretPackage<C>>(secret_json) {
                        both(&s, &mut add);
                    }
                    if let Ok(w) = pkg.commitment().serialize_whole() {
                        add("VSSCommitment::deserialize_whole", Fmt::Bin, w);
                    }
                    for c in pkg.commitment().serialize().unwrap_or_default().into_iter().take(1) {
                        if let Ok(cc) = CoefficientCommitment::<C>::deserialize(&c) {
                            both(&cc, &mut add);
                        }
                    }
                }
                Record::Commit { nonces, commitments, .. } => {
                    both(nonces, &mut add);
                    both(commitments, &mut add);
                    both(nonces.hiding(), &mut add);
                    both(commitments.hiding(), &mut add);
                }
                Record::Share { share, .. } => both(share, &mut add),
                Record::Session { package, result, params, .. } => {
                    both(package, &mut add);
                    if let Ok(sig) = result {
                        both(sig, &mut add);
                    }
                    if let Some(p) = params {
                        both(p.randomizer(), &mut add);
                    }
                }
                Record::RepairDeltas { deltas, .. } => {
                    for d in deltas.values().take(1) {
                        both(d, &mut add);
                    }
                }
                _ => {}
            }
        }
        for ((_, kind, _, _), b) in &sim.sent {
            match kind {
                Kind::DkgR2 => {
                    if let Ok(p) = dec::<round2::Package<C>>(scen.wire, b) {
                        both(&p, &mut add);
                    }
                }
                Kind::RepairSigma => {
                    if let Ok(p) = dec::<Sigma<C>>(scen.wire, b) {
                        both(&p, &mut add);
                    }
                }
                _ => {}
            }
        }
        // stored slots as they are on the simulated disk
        for st in &sim.stores {
            for (k, b) in st {
                if k.ends_with("/r2s") {
                    add("dkg::round2::SecretPackage", scen.wire, b.clone());
                }
            }
        }
    }
    // a same-size payload from another suite (cross-suite misdelivery)
    fn foreign<D: Suite>(seed: u64, run: u64) -> Vec<Vec<u8>> {
        let mut rng = SimRng::good(stream(seed, run, "c14/foreign"));
        let mut out = Vec::new();
        if let Ok((shares, pk)) = keys::generate_with_dealer::<D, _>(3, 2, IdentifierList::Default, &mut rng) {
            if let Some(sh) = shares.values().next() {
                out.extend(sh.serialize().ok());
                out.extend(serde_json::to_vec(sh).ok());
                if let Ok(kp) = KeyPackage::<D>::try_from(sh.clone()) {
                    out.extend(kp.serialize().ok());
                    let (_, c) = frost::round1::commit::<D, _>(kp.signing_share(), &mut rng);
                    out.extend(c.serialize().ok());
                    out.extend(SigningPackage::<D>::new(BTreeMap::from([(*kp.identifier(), c)]), b"x").serialize().ok());
                }
            }
            out.extend(pk.serialize().ok());
        }
        out
    }
    let other_suite = SUITES[((scen.run + 1 + scen.run / 6) % 6) as usize];
    let foreign_payloads: Vec<Vec<u8>> = if other_suite == C::NAME { vec![] } else { dispatch!(other_suite, foreign(scen.seed, scen.run)) };

    let viol = |what: String, input: &[u8], msg: String| Violation::new("C14", "C14.panic", format!("{what}: PANIC {msg}; input ({} bytes) = {}", input.len(), hexs(&input[..input.len().min(600)])));

    // ---- part A: decoders under structure-aware mutations ----------------------------------------------------
    let mut p = stream(scen.seed, scen.run, "c14/mutations");
    let names: Vec<&'static str> = corpus.keys().cloned().collect();
    let mut adv_bytes: BTreeMap<&'static str, Vec<(Fmt, Vec<u8>)>> = BTreeMap::new();
    let mut decodes = 0u64;
    let all_flat: Vec<Vec<u8>> = corpus.values().flatten().map(|(_, b)| b.clone()).collect();
    while decodes < budget {
        let name = *p.pick(&names);
        let Some((_, df)) = decoders.iter().find(|(n, _)| *n == name) else { continue };
        let entries = &corpus[name];
        let (fmt, base) = p.pick(entries).clone();
        let mutated = if !foreign_payloads.is_empty() && p.chance(1, 25) {
            rep.probe("mut_cross_suite");
            p.pick(&foreign_payloads).clone()
        } else if fmt == Fmt::Json && p.chance(1, 2) {
            rep.probe("mut_json_structure");
            mutate_json(&mut p, &base)
        } else {
            let kind = *p.pick(&MUTS);
            rep.probe(&format!("mut_{kind}"));
            let other = p.pick(&all_flat).clone();
            let mut m = mutate(&mut p, &base, &other, kind);
            if p.chance(1, 6) {
                let k2 = *p.pick(&MUTS);
                m = mutate(&mut p, &m, &other, k2);
            }
            m
        };
        decodes += 1;
        rep.probe(if fmt == Fmt::Json { "decoder_json" } else { "decoder_bin" });
        // the other format's decoder sees it too (a JSON decoder fed binary and vice versa)
        let fmts = if p.chance(1, 8) { vec![fmt, if fmt == Fmt::Json { Fmt::Bin } else { Fmt::Json }] } else { vec![fmt] };
        for f in fmts {
            match guarded(|| df(f, &mutated)) {
                Err(msg) => {
                    rep.evaluations += decodes;
                    return Exec::Violation(viol(format!("decoding {name} ({f:?})"), &mutated, msg), rep);
                }
                Ok(true) => {
                    if mutated != base {
                        rep.probe("mutated_still_decodes");
                        let v = adv_bytes.entry(name).or_default();
                        if v.len() < 40 {
                            v.push((f, mutated.clone()));
                        }
                    }
                }
                Ok(false) => {}
            }
        }
    }
    rep.evaluations += decodes;
    rep.extra_shapes.extend(names.iter().map(|n| format!("{}|dec|{n}", scen.suite)));

    // ---- part B: protocol entry points with adversarial well-typed arguments --------------------------------------
    let kps_map = current_kps(&sim);
    let kps: Vec<KeyPackage<C>> = kps_map.values().cloned().collect();
    let Some(pk) = sim.hub.as_ref().and_then(|h| h.pk.clone()) else { return Exec::Harness("no pk".into()) };
    let mut cx = Ctx::<C> {
        kps,
        pk,
        ids: sim.ids.clone(),
        outsider: id_from_scalar::<C>(&sc_random_nonzero::<C>(&mut p)).unwrap(),
        t: scen.t,
        n: scen.n,
        r1_secret: None,
        r1_pkgs: BTreeMap::new(),
        r2_secret: None,
        r2_pkgs: BTreeMap::new(),
        session: None,
        adv_pkg: vec![],
        adv_pk: vec![],
        adv_share: vec![],
        adv_r1: vec![],
        adv_r2: vec![],
        adv_comm: vec![],
        adv_kp: vec![],
    };
    // honest DKG state of participant 0 in a fresh run (own secret state honestly generated)
    {
        let n = scen.n;
        let mut secs = Vec::new();
        for j in 0..n as usize {
            let rng = SimRng::good(stream(scen.seed, scen.run, &format!("c14/dkg/{j}")));
            match dkg::part1::<C, _>(sim.ids[j], n, scen.t, rng) {
                Ok((s, pkg)) => {
                    if j > 0 {
                        cx.r1_pkgs.insert(sim.ids[j], pkg);
                    }
                    secs.push(s);
                }
                Err(e) => return Exec::Harness(format!("part1: {e:?}")),
            }
        }
        cx.r1_secret = Some(secs[0].clone());
        if let Ok((s2, _)) = dkg::part2::<C>(secs[0].clone(), &cx.r1_pkgs) {
            cx.r2_secret = Some(s2);
        }
        // round-2 packages addressed to participant 0
        for j in 1..n as usize {
            let mut m: BTreeMap<Identifier<C>, round1::Package<C>> = cx.r1_pkgs.clone();
            m.remove(&sim.ids[j]);
            // j needs participant 0's package: rebuild all packages
            let _ = m;
        }
    }
    for r in &sim.history {
        if let Record::Session { package, shares, .. } = r {
            if cx.session.is_none() {
                cx.session = Some((package.clone(), shares.clone()));
            }
        }
    }
    // well-typed adversarial values: whatever still decoded after mutation
    for (name, list) in &adv_bytes {
        for (f, b) in list {
            match *name {
                "SigningPackage" => cx.adv_pkg.extend(dec::<SigningPackage<C>>(*f, b).ok()),
                "PublicKeyPackage" => cx.adv_pk.extend(dec::<PublicKeyPackage<C>>(*f, b).ok()),
                "SecretShare" => cx.adv_share.extend(dec::<SecretShare<C>>(*f, b).ok()),
                "dkg::round1::Package" => cx.adv_r1.extend(dec::<round1::Package<C>>(*f, b).ok()),
                "dkg::round2::Package" => cx.adv_r2.extend(dec::<round2::Package<C>>(*f, b).ok()),
                "SigningCommitments" => cx.adv_comm.extend(dec::<SigningCommitments<C>>(*f, b).ok()),
                "KeyPackage" => cx.adv_kp.extend(dec::<KeyPackage<C>>(*f, b).ok()),
                _ => {}
            }
        }
    }
    let calls = if C::COST >= 9 { 40 } else { 150 };
    for round in 0..calls {
        for (ci, (cname, probe)) in CALLS.iter().enumerate() {
            let mut cp = stream(scen.seed, scen.run, &format!("c14/call/{cname}/{round}"));
            rep.evaluations += 1;
            rep.probe(probe);
            let mut desc = String::new();
            let r = guarded(|| adversarial_call::<C>(ci, &cx, &mut cp, scen, &mut desc));
            if let Err(msg) = r {
                return Exec::Violation(Violation::new("C14", "C14.panic", format!("{cname} with adversarial arguments [{desc}]: PANIC {msg}")).narrowed(json!([cname, round])), rep);
            }
            if round == 0 {
                rep.extra_shapes.push(format!("{}|call|{cname}", scen.suite));
            }
        }
    }
    // ---- part C: targeted adversarial constructions (cheap ones every run, the oversized one now and then) -----------------
    // (1) zero-sum key generation: one peer's round-1 contribution handed to part3 cancels everybody else's constant terms
    //     (its round-2 share is consistent with it: the sender needs no discrete log for that). The group key becomes the
    //     identity; every later step must return a value or an error.
    if let (Some(s2), true) = (&cx.r2_secret, cx.r1_pkgs.len() >= 1) {
        let own_c0 = s2.commitment().serialize().ok().and_then(|v| v.first().and_then(|b| el_from_bytes::<C>(b)));
        let sender = *cx.r1_pkgs.keys().next().unwrap();
        let mut others_sum = own_c0;
        for (id, pkg) in &cx.r1_pkgs {
            if *id == sender {
                continue;
            }
            let c0 = pkg.commitment().serialize().ok().and_then(|v| v.first().and_then(|b| el_from_bytes::<C>(b)));
            others_sum = match (others_sum, c0) {
                (Some(a), Some(b)) => Some(a + b),
                _ => None,
            };
        }
        if let Some(sum) = others_sum {
            let t = scen.t as usize;
            let x = id_scalar::<C>(&cx.ids[0]);
            let c0p = base::<C>(zero::<C>()) - sum; // -(sum of the others)
            let share = sc_random_nonzero::<C>(&mut p);
            let rs: Vec<frost::Scalar<C>> = (2..t).map(|_| sc_random_nonzero::<C>(&mut p)).collect();
            let mut acc = share;
            let mut xp = x * x;
            for r in &rs {
                acc = acc - *r * xp;
                xp = xp * x;
            }
            if let Ok(xinv) = <F<C> as frost_core::Field>::invert(&x) {
                let c1 = (base::<C>(acc) - c0p) * xinv;
                let mut entries: Vec<Option<Vec<u8>>> = vec![el_bytes::<C>(&c0p), el_bytes::<C>(&c1)];
                entries.extend(rs.iter().map(|r| el_bytes::<C>(&base::<C>(*r))));
                if t >= 2 && entries.iter().all(|e| e.is_some()) {
                    let entries: Vec<Vec<u8>> = entries.into_iter().map(|e| e.unwrap()).collect();
                    if let Ok(cm) = VerifiableSecretSharingCommitment::<C>::deserialize(entries.iter()) {
                        let honest = cx.r1_pkgs[&sender].clone();
                        let mut m1 = cx.r1_pkgs.clone();
                        m1.insert(sender, round1::Package::new(cm.clone(), *honest.proof_of_knowledge()));
                        // round-2 shares: the crafted one for the sender, and for everybody else what an honest run would send
                        // is not available here (participant 0's honest shares from the others): craft consistent ones the same way
                        // is impossible without their secrets, so only the two-participant world reaches the sum. Use n = 2 semantics:
                        let mut m2: BTreeMap<Identifier<C>, round2::Package<C>> = BTreeMap::new();
                        m2.insert(sender, round2::Package::new(share_from_scalar::<C>(&share)));
                        let mut complete = m1.len() == 1;
                        if !complete {
                            // other senders: take their real round-2 shares for participant 0 from the fresh honest run made above
                            if let Some(hon) = honest_r2_for_zero::<C>(scen, &cx) {
                                for (id, pkg) in hon {
                                    if id != sender {
                                        m2.insert(id, pkg);
                                    }
                                }
                                complete = m2.len() == m1.len();
                            }
                        }
                        if complete {
                            rep.evaluations += 1;
                            rep.probe("targeted_zero_sum_dkg");
                            let r = guarded(|| {
                                if let Ok((kp, pk)) = dkg::part3::<C>(s2, &m1, &m2) {
                                    let _ = pk.serialize();
                                    let _ = kp.serialize();
                                    let _ = serde_json::to_string(&pk);
                                    let _ = format!("{pk:?}");
                                    let sk = SigningKey::<C>::new(&mut SimRng::good(stream(1, 1, "c14/zs")));
                                    let sig = sk.sign(SimRng::good(stream(1, 2, "c14/zs")), b"m");
                                    let _ = pk.verifying_key().verify(b"m", &sig);
                                    let _ = frost::batch::Item::<C>::new(*pk.verifying_key(), sig, b"m").map(|i| i.verify_single());
                                    if C::IS_TR {
                                        let _ = C::tweak_pk(pk.clone(), None);
                                        let _ = C::tweak_kp(kp.clone(), Some(b"root"));
                                    }
                                }
                                let commitments: BTreeMap<Identifier<C>, &VerifiableSecretSharingCommitment<C>> = m1.iter().map(|(id, pk)| (*id, pk.commitment())).chain(std::iter::once((cx.ids[0], s2.commitment()))).collect();
                                if let Ok(pk) = PublicKeyPackage::<C>::from_dkg_commitments(&commitments) {
                                    let _ = pk.serialize();
                                    if C::IS_TR {
                                        let _ = C::tweak_pk(pk, None);
                                    }
                                }
                            });
                            if let Err(msg) = r {
                                return Exec::Violation(Violation::new("C14", "C14.panic", format!("dkg::part3 / from_dkg_commitments with a round-1 contribution that cancels all other constant terms (group key = identity): PANIC {msg}")), rep);
                            }
                        }
                    }
                }
            }
        }
    }
    // (3) distributed refresh with honest material, but a public key package that does not match the participant set: lacking the
    //     caller's OWN entry (a participant enrolled by share repair holds exactly such a package), lacking a peer, legacy, empty
    {
        let members: Vec<usize> = (0..cx.kps.len().min(scen.n as usize)).collect();
        let m = members.len();
        if m >= 2 {
            let mut secs = Vec::new();
            let mut pkgs: BTreeMap<Identifier<C>, round1::Package<C>> = BTreeMap::new();
            for j in &members {
                let rng = SimRng::good(stream(scen.seed, scen.run, &format!("c14/refresh/{j}")));
                if let Ok((sec, pkg)) = refresh::refresh_dkg_part1::<C, _>(*cx.kps[*j].identifier(), m as u16, scen.t, rng) {
                    pkgs.insert(*cx.kps[*j].identifier(), pkg);
                    secs.push(sec);
                }
            }
            if secs.len() == m {
                let me_id = *cx.kps[0].identifier();
                let mut r1 = pkgs.clone();
                r1.remove(&me_id);
                if let Ok((s2, _)) = refresh::refresh_dkg_part2::<C>(secs[0].clone(), &r1) {
                    // honest round-2 shares for the caller
                    let mut r2: BTreeMap<Identifier<C>, round2::Package<C>> = BTreeMap::new();
                    for j in 1..m {
                        let mut mj = pkgs.clone();
                        mj.remove(cx.kps[j].identifier());
                        if let Ok((_, out)) = refresh::refresh_dkg_part2::<C>(secs[j].clone(), &mj) {
                            if let Some(pk) = out.get(&me_id) {
                                r2.insert(*cx.kps[j].identifier(), pk.clone());
                            }
                        }
                    }
                    let full = cx.pk.verifying_shares().clone();
                    let mut variants: Vec<(&str, BTreeMap<Identifier<C>, VerifyingShare<C>>, Option<u16>)> = Vec::new();
                    let mut no_own = full.clone();
                    no_own.remove(&me_id);
                    variants.push(("lacking the caller's own entry", no_own, cx.pk.min_signers()));
                    let mut no_peer = full.clone();
                    no_peer.remove(cx.kps[1].identifier());
                    variants.push(("lacking a peer's entry", no_peer, cx.pk.min_signers()));
                    variants.push(("legacy (no recorded threshold)", full.clone(), None));
                    variants.push(("empty", BTreeMap::new(), cx.pk.min_signers()));
                    variants.push(("honest", full.clone(), cx.pk.min_signers()));
                    for (vname, vs, thr) in variants {
                        let pkx = PublicKeyPackage::<C>::new(vs, *cx.pk.verifying_key(), thr);
                        rep.evaluations += 1;
                        rep.probe("targeted_refresh_with_mismatched_package");
                        let r = guarded(|| {
                            let _ = refresh::refresh_dkg_shares::<C>(&s2, &r1, &r2, pkx.clone(), cx.kps[0].clone());
                        });
                        if let Err(msg) = r {
                            return Exec::Violation(Violation::new("C14", "C14.panic", format!("refresh_dkg_shares with honest contributions and a public key package {vname}: PANIC {msg}")), rep);
                        }
                    }
                }
            }
        }
    }
    // (2) an oversized but CONSISTENT dealer share: 65536 + t commitment entries whose polynomial the share lies on
    let oversized = scen.extra.get("oversized").and_then(|v| v.as_bool()).unwrap_or(C::COST <= 1 && scen.run % 24 == 0);
    if oversized {
        let id = cx.ids[0];
        let x = id_scalar::<C>(&id);
        let total = 65536 + scen.t as usize;
        let distinct: Vec<frost::Scalar<C>> = (0..8).map(|_| sc_random_nonzero::<C>(&mut p)).collect();
        let dcomm: Vec<Vec<u8>> = distinct.iter().map(|c| el_bytes::<C>(&base::<C>(*c)).unwrap()).collect();
        let mut share = zero::<C>();
        let mut xp = one::<C>();
        let mut entries: Vec<&Vec<u8>> = Vec::with_capacity(total);
        for k in 0..total {
            share = share + distinct[k % 8] * xp;
            xp = xp * x;
            entries.push(&dcomm[k % 8]);
        }
        if let Ok(cm) = VerifiableSecretSharingCommitment::<C>::deserialize(entries.iter()) {
            rep.evaluations += 1;
            rep.probe("targeted_oversized_share");
            let sh = SecretShare::<C>::new(id, share_from_scalar::<C>(&share), cm.clone());
            let r = guarded(|| {
                let through_wire = enc(Fmt::Bin, &sh).and_then(|b| dec::<SecretShare<C>>(Fmt::Bin, &b));
                if let Ok(s2) = through_wire {
                    let _ = s2.verify();
                    let _ = KeyPackage::<C>::try_from(s2);
                }
                let ids: std::collections::BTreeSet<Identifier<C>> = cx.ids.iter().take(2).cloned().collect();
                let _ = PublicKeyPackage::<C>::from_commitment(&ids, &cm);
                let _ = refresh::refresh_share::<C>(sh.clone(), &cx.kps[0]);
            });
            if let Err(msg) = r {
                return Exec::Violation(Violation::new("C14", "C14.panic", format!("a consistent dealer share with {total} commitment entries (KeyPackage::try_from / from_commitment / refresh_share): PANIC {msg}")), rep);
            }
        }
    }
    // (3) degenerate but CONSISTENT material: commitment vectors of length 0 and 1 together with exactly the share that lies on
    // them (the zero scalar for the empty vector: the empty sum is the identity = G*0) - through the dealer-share entry points
    // and, after an honest part2, through part3 in one sender's slot
    {
        let id = cx.ids[0];
        let c1 = sc_random_nonzero::<C>(&mut p);
        let variants: Vec<(&str, Vec<Vec<u8>>, frost::Scalar<C>)> = vec![("an empty commitment and the zero share", vec![], zero::<C>()), ("a one-entry commitment and its constant share", vec![el_bytes::<C>(&base::<C>(c1)).unwrap()], c1)];
        for (what, entries, share) in variants {
            let Ok(cm) = VerifiableSecretSharingCommitment::<C>::deserialize(entries.iter()) else { continue };
            rep.evaluations += 1;
            rep.probe("targeted_degenerate_consistent_share");
            let sh = SecretShare::<C>::new(id, share_from_scalar::<C>(&share), cm.clone());
            let r = guarded(|| {
                let _ = sh.verify();
                let _ = KeyPackage::<C>::try_from(sh.clone());
                for f in [Fmt::Bin, Fmt::Json] {
                    if let Ok(s2) = enc(f, &sh).and_then(|b| dec::<SecretShare<C>>(f, &b)) {
                        let _ = KeyPackage::<C>::try_from(s2);
                    }
                }
                let _ = refresh::refresh_share::<C>(sh.clone(), &cx.kps[0]);
                let ids: std::collections::BTreeSet<Identifier<C>> = cx.ids.iter().take(2).cloned().collect();
                let _ = PublicKeyPackage::<C>::from_commitment(&ids, &cm);
            });
            if let Err(msg) = r {
                return Exec::Violation(Violation::new("C14", "C14.panic", format!("a dealer share made of {what} (verify / KeyPackage::try_from / refresh_share / from_commitment): PANIC {msg}")), rep);
            }
        }
        // part3 after an honest part2: one sender's round-one package replaced by (empty commitment, that sender's real proof) and its
        // round-two share by the zero scalar
        let n = (scen.n as usize).clamp(2, 4);
        let tt = scen.t.min(n as u16).max(2);
        let dids: Vec<Identifier<C>> = cx.ids.iter().take(n).cloned().collect();
        if dids.len() == n {
            let mut secs = Vec::new();
            let mut r1: BTreeMap<Identifier<C>, dkg::round1::Package<C>> = BTreeMap::new();
            for (k, id) in dids.iter().enumerate() {
                let rng = SimRng::good(stream(scen.seed, scen.run, &format!("c14/degenerate/part1/{k}")));
                if let Ok((sec, pkg)) = dkg::part1::<C, _>(*id, n as u16, tt, rng) {
                    secs.push(sec);
                    r1.insert(*id, pkg);
                }
            }
            if secs.len() == n {
                let mut others = r1.clone();
                others.remove(&dids[0]);
                if let Ok((s2, _)) = dkg::part2::<C>(secs[0].clone(), &others) {
                    // the shares the others would send to participant 0
                    let mut r2: BTreeMap<Identifier<C>, dkg::round2::Package<C>> = BTreeMap::new();
                    for k in 1..n {
                        let mut o = r1.clone();
                        o.remove(&dids[k]);
                        if let Ok((_, out)) = dkg::part2::<C>(secs[k].clone(), &o) {
                            if let Some(pk0) = out.get(&dids[0]) {
                                r2.insert(dids[k], pk0.clone());
                            }
                        }
                    }
                    if r2.len() == n - 1 {
                        if let Ok(empty) = VerifiableSecretSharingCommitment::<C>::deserialize(Vec::<Vec<u8>>::new().iter()) {
                            let bad_sender = dids[1];
                            let mut o1 = others.clone();
                            o1.insert(bad_sender, dkg::round1::Package::new(empty, *r1[&bad_sender].proof_of_knowledge()));
                            let mut o2 = r2.clone();
                            o2.insert(bad_sender, dkg::round2::Package::new(share_from_scalar::<C>(&zero::<C>())));
                            rep.evaluations += 1;
                            rep.probe("targeted_degenerate_part3");
                            if let Err(msg) = guarded(|| {
                                let _ = dkg::part3::<C>(&s2, &o1, &o2);
                            }) {
                                return Exec::Violation(Violation::new("C14", "C14.panic", format!("dkg::part3 given, in one sender's slots, an empty commitment and the zero share (part2 had seen the honest package): PANIC {msg}")), rep);
                            }
                        }
                    }
                }
            }
        }
    }
    rep.probe_n("decoder_inputs", decodes);
    rep.nontrivial = true;
    rep.sample = Some(json!({"suite": scen.suite, "n": scen.n, "t": scen.t, "decoder_inputs": decodes, "decoders": names, "entry_point_calls": calls * CALLS.len(), "mutated_values_that_still_decoded": adv_bytes.values().map(|v| v.len()).sum::<usize>()}));
    Exec::Ok(rep)
}

const CALLS: [(&str, &str); 20] = [
    ("sign", "call_sign"),
    ("aggregate", "call_aggregate"),
    ("verify_signature_share", "call_verify_signature_share"),
    ("KeyPackage::try_from", "call_key_package_try_from"),
    ("dkg::part2", "call_dkg_part2"),
    ("dkg::part3", "call_dkg_part3"),
    ("refresh_share", "call_refresh_share"),
    ("refresh_dkg", "call_refresh_dkg"),
    ("compute_refreshing_shares", "call_compute_refreshing_shares"),
    ("repair", "call_repair"),
    ("reconstruct", "call_reconstruct"),
    ("batch", "call_batch"),
    ("rerandomized", "call_rerandomized"),
    ("split", "call_split"),
    ("from_commitments", "call_misc"),
    ("identifier", "call_misc"),
    ("taproot_tweak", "call_misc"),
    ("dkg::part1", "call_misc"),
    ("verify", "call_misc"),
    ("preprocess", "call_misc"),
];

fn adv_threshold(p: &mut Prng) -> Option<u16> {
    *p.pick(&[None, Some(0u16), Some(1), Some(2), Some(3), Some(255), Some(256), Some(65535)])
}

fn adv_message(p: &mut Prng) -> Vec<u8> {
    match p.below(6) {
        0 => vec![],
        1 => vec![0u8; 1 << 16],
        2 => p.bytes(1),
        _ => {
            let n = p.range(1, 200) as usize;
            p.bytes(n)
        }
    }
}

fn adv_commitments<C: Suite>(cx: &Ctx<C>, p: &mut Prng, own: &Identifier<C>, own_c: Option<SigningCommitments<C>>) -> BTreeMap<Identifier<C>, SigningCommitments<C>> {
    let mut m = BTreeMap::new();
    let pool: Vec<SigningCommitments<C>> = cx.session.as_ref().map(|s| s.0.signing_commitments().values().cloned().collect()).unwrap_or_default();
    let mut pool = pool;
    pool.extend(cx.adv_comm.iter().cloned());
    if pool.is_empty() {
        return m;
    }
    let count = match p.below(6) {
        0 => 0,
        1 => 1,
        2 => cx.t as usize,
        3 => cx.n as usize + 3,
        _ => p.range(0, 8) as usize,
    };
    for k in 0..count {
        let id = match p.below(4) {
            0 => cx.outsider,
            1 => *own,
            _ => match Identifier::<C>::try_from((k as u16 % 9) + 1) {
                Ok(i) => *p.pick(&[i, cx.ids[k % cx.ids.len()]]),
                Err(_) => cx.ids[k % cx.ids.len()],
            },
        };
        m.insert(id, *p.pick(&pool));
    }
    if let Some(c) = own_c {
        if p.chance(2, 3) {
            m.insert(*own, c);
        }
    }
    m
}

fn adv_pk<C: Suite>(cx: &Ctx<C>, p: &mut Prng) -> PublicKeyPackage<C> {
    if !cx.adv_pk.is_empty() && p.chance(1, 3) {
        return p.pick(&cx.adv_pk).clone();
    }
    let mut vs = cx.pk.verifying_shares().clone();
    match p.below(6) {
        0 => vs.clear(),
        1 => {
            let first = *vs.keys().next().unwrap();
            vs.remove(&first);
        }
        2 => {
            let v = *vs.values().next().unwrap();
            vs.insert(cx.outsider, v);
        }
        3 => {
            let v = *vs.values().next().unwrap();
            for val in vs.values_mut() {
                *val = v;
            }
        }
        _ => {}
    }
    let vk = if p.chance(1, 4) { vkey_from_element::<C>(&base::<C>(sc_random_nonzero::<C>(p))).unwrap() } else { *cx.pk.verifying_key() };
    PublicKeyPackage::<C>::new(vs, vk, adv_threshold(p))
}

fn adv_vss<C: Suite>(cx: &Ctx<C>, p: &mut Prng) -> VerifiableSecretSharingCommitment<C> {
    let gen_b = el_bytes::<C>(&base::<C>(one::<C>())).unwrap();
    let pool: Vec<Vec<u8>> = cx.r1_pkgs.values().flat_map(|pk| pk.commitment().serialize().unwrap_or_default()).chain([gen_b]).collect();
    let len = match p.below(7) {
        0 => 0,
        1 => 1,
        2 => cx.t as usize,
        3 => cx.t as usize + 1,
        4 => cx.t as usize - 1,
        5 => 300,
        _ => p.range(0, 12) as usize,
    };
    let entries: Vec<&Vec<u8>> = (0..len).map(|_| p.pick(&pool)).collect();
    VerifiableSecretSharingCommitment::<C>::deserialize(entries.iter()).expect("valid elements")
}

fn adv_r1_map<C: Suite>(cx: &Ctx<C>, p: &mut Prng, own: &Identifier<C>) -> BTreeMap<Identifier<C>, round1::Package<C>> {
    let mut m = cx.r1_pkgs.clone();
    let honest: Vec<round1::Package<C>> = cx.r1_pkgs.values().cloned().collect();
    let any_pkg = |p: &mut Prng| -> round1::Package<C> {
        if !cx.adv_r1.is_empty() && p.chance(1, 3) {
            p.pick(&cx.adv_r1).clone()
        } else if p.chance(1, 2) {
            let h = p.pick(&honest);
            round1::Package::new(adv_vss::<C>(cx, p), *h.proof_of_knowledge())
        } else {
            p.pick(&honest).clone()
        }
    };
    match p.below(8) {
        0 => m.clear(),
        1 => {
            let k = *m.keys().next().unwrap();
            m.remove(&k);
            m.insert(*own, any_pkg(p));
        }
        2 => {
            let k = *m.keys().next().unwrap();
            m.remove(&k);
            m.insert(cx.outsider, any_pkg(p));
        }
        3 => {
            m.insert(cx.outsider, any_pkg(p));
        }
        4 => {
            let k = *m.keys().last().unwrap();
            m.remove(&k);
        }
        _ => {
            let keys: Vec<_> = m.keys().cloned().collect();
            let k = *p.pick(&keys);
            m.insert(k, any_pkg(p));
        }
    }
    m
}

fn adversarial_call<C: Suite>(ci: usize, cx: &Ctx<C>, p: &mut Prng, scen: &Scenario, desc: &mut String) {
    let me = p.pick(&cx.kps).clone();
    let mk_rng = |p: &mut Prng, tag: &str| SimRng::good(stream(scen.seed, scen.run, &format!("c14/rng/{tag}/{}", p.next_u64())));
    match CALLS[ci].0 {
        "sign" => {
            let mut rng = mk_rng(p, "sign");
            let (nonces, comm) = frost::round1::commit::<C, _>(me.signing_share(), &mut rng);
            let pkg = if !cx.adv_pkg.is_empty() && p.chance(1, 3) { p.pick(&cx.adv_pkg).clone() } else { SigningPackage::<C>::new(adv_commitments::<C>(cx, p, me.identifier(), Some(comm)), &adv_message(p)) };
            *desc = format!("package with {} commitments, message of {} bytes", pkg.signing_commitments().len(), pkg.message().len());
            let kp = if p.chance(1, 4) { KeyPackage::<C>::new(*me.identifier(), *me.signing_share(), *me.verifying_share(), *me.verifying_key(), adv_threshold(p).unwrap_or(0)) } else { me.clone() };
            let _ = frost::round2::sign::<C>(&pkg, &nonces, &kp);
            let _ = frost_rerandomized::sign_with_randomizer_seed::<C>(&pkg, &nonces, &kp, &adv_message(p));
            if C::IS_TR {
                let root = adv_message(p);
                let _ = C::sign_with_tweak(&pkg, &nonces, &kp, if p.chance(1, 4) { None } else { Some(&root[..root.len().min(100)]) });
            }
        }
        "aggregate" => {
            let Some((pkg0, shares0)) = &cx.session else { return };
            let pkg = if !cx.adv_pkg.is_empty() && p.chance(1, 3) { p.pick(&cx.adv_pkg).clone() } else if p.chance(1, 2) { pkg0.clone() } else { SigningPackage::<C>::new(adv_commitments::<C>(cx, p, me.identifier(), None), &adv_message(p)) };
            let mut shares = shares0.clone();
            match p.below(7) {
                0 => shares.clear(),
                1 => {
                    shares.insert(cx.outsider, *shares0.values().next().unwrap());
                }
                2 => {
                    let k = *shares.keys().next().unwrap();
                    shares.remove(&k);
                }
                3 => {
                    for v in shares.values_mut() {
                        *v = sigshare_from_scalar::<C>(&zero::<C>());
                    }
                }
                4 => {
                    shares = pkg.signing_commitments().keys().map(|k| (*k, sigshare_from_scalar::<C>(&sc_random::<C>(p)))).collect();
                }
                _ => {}
            }
            let pk = adv_pk::<C>(cx, p);
            *desc = format!("package with {} commitments, {} shares, pk with {} verifying shares and threshold {:?}", pkg.signing_commitments().len(), shares.len(), pk.verifying_shares().len(), pk.min_signers());
            let _ = frost::aggregate::<C>(&pkg, &shares, &pk);
            for m in [CheaterDetection::Disabled, CheaterDetection::FirstCheater, CheaterDetection::AllCheaters] {
                let _ = frost::aggregate_custom::<C>(&pkg, &shares, &pk, m);
            }
            if C::IS_TR {
                let root = adv_message(p);
                let _ = C::aggregate_with_tweak(&pkg, &shares, &pk, Some(&root[..root.len().min(64)]));
            }
        }
        "verify_signature_share" => {
            let Some((pkg0, shares0)) = &cx.session else { return };
            let pkg = if !cx.adv_pkg.is_empty() && p.chance(1, 2) { p.pick(&cx.adv_pkg).clone() } else if p.chance(1, 2) { pkg0.clone() } else { SigningPackage::<C>::new(adv_commitments::<C>(cx, p, me.identifier(), None), &adv_message(p)) };
            let id = *p.pick(&[cx.outsider, *me.identifier(), *shares0.keys().next().unwrap()]);
            let vs = *cx.pk.verifying_shares().values().next().unwrap();
            *desc = format!("package with {} commitments", pkg.signing_commitments().len());
            let _ = frost::verify_signature_share::<C>(id, &vs, shares0.values().next().unwrap(), &pkg, cx.pk.verifying_key());
        }
        "KeyPackage::try_from" => {
            let sh = if !cx.adv_share.is_empty() && p.chance(1, 2) { p.pick(&cx.adv_share).clone() } else { SecretShare::<C>::new(*p.pick(&[cx.outsider, *me.identifier()]), *me.signing_share(), adv_vss::<C>(cx, p)) };
            *desc = format!("share with {} commitment entries", sh.commitment().serialize().map(|v| v.len()).unwrap_or(0));
            let _ = sh.verify();
            let _ = KeyPackage::<C>::try_from(sh);
        }
        "dkg::part2" => {
            let Some(sec) = &cx.r1_secret else { return };
            let m = adv_r1_map::<C>(cx, p, &cx.ids[0]);
            *desc = format!("round-1 map with {} entries, commitment lengths {:?}", m.len(), m.values().map(|x| x.commitment().serialize().map(|v| v.len()).unwrap_or(0)).collect::<Vec<_>>());
            let _ = dkg::part2::<C>(sec.clone(), &m);
        }
        "dkg::part3" => {
            let Some(s2) = &cx.r2_secret else { return };
            let m1 = if p.chance(1, 2) { cx.r1_pkgs.clone() } else { adv_r1_map::<C>(cx, p, &cx.ids[0]) };
            let mut m2: BTreeMap<Identifier<C>, round2::Package<C>> = BTreeMap::new();
            let keys: Vec<Identifier<C>> = match p.below(5) {
                0 => vec![],
                1 => m1.keys().cloned().chain([cx.outsider]).collect(),
                2 => m1.keys().cloned().chain([cx.ids[0]]).collect(),
                3 => m1.keys().skip(1).cloned().chain([cx.outsider]).collect(),
                _ => m1.keys().cloned().collect(),
            };
            for k in keys {
                let pkg = if !cx.adv_r2.is_empty() && p.chance(1, 3) { p.pick(&cx.adv_r2).clone() } else { round2::Package::new(share_from_scalar::<C>(&sc_random::<C>(p))) };
                m2.insert(k, pkg);
            }
            *desc = format!("round-1 map {} entries (lengths {:?}), round-2 map {} entries", m1.len(), m1.values().map(|x| x.commitment().serialize().map(|v| v.len()).unwrap_or(0)).collect::<Vec<_>>(), m2.len());
            let _ = dkg::part3::<C>(s2, &m1, &m2);
        }
        "refresh_share" => {
            let sh = if !cx.adv_share.is_empty() && p.chance(1, 2) { p.pick(&cx.adv_share).clone() } else { SecretShare::<C>::new(*p.pick(&[cx.outsider, *me.identifier()]), share_from_scalar::<C>(&sc_random::<C>(p)), adv_vss::<C>(cx, p)) };
            *desc = format!("refreshing share with {} commitment entries", sh.commitment().serialize().map(|v| v.len()).unwrap_or(0));
            let _ = refresh::refresh_share::<C>(sh, &me);
        }
        "refresh_dkg" => {
            let rng = mk_rng(p, "refresh1");
            let members = cx.kps.len() as u16;
            let Ok((sec, _pkg)) = refresh::refresh_dkg_part1::<C, _>(*me.identifier(), members.max(2), cx.t, rng) else { return };
            let mut m1 = adv_r1_map::<C>(cx, p, me.identifier());
            if p.chance(1, 2) {
                m1.remove(me.identifier());
            }
            *desc = format!("round-1 map with {} entries, commitment lengths {:?}", m1.len(), m1.values().map(|x| x.commitment().serialize().map(|v| v.len()).unwrap_or(0)).collect::<Vec<_>>());
            if let Ok((s2, _)) = refresh::refresh_dkg_part2::<C>(sec, &m1) {
                let m2: BTreeMap<Identifier<C>, round2::Package<C>> = m1.keys().map(|k| (*k, round2::Package::new(share_from_scalar::<C>(&sc_random::<C>(p))))).collect();
                let _ = refresh::refresh_dkg_shares::<C>(&s2, &m1, &m2, adv_pk::<C>(cx, p), me.clone());
            }
        }
        "compute_refreshing_shares" => {
            let mut rng = mk_rng(p, "crs");
            let idl: Vec<Identifier<C>> = match p.below(6) {
                0 => vec![],
                1 => vec![*me.identifier()],
                2 => vec![*me.identifier(), *me.identifier()],
                3 => cx.ids.iter().cloned().chain([cx.outsider]).collect(),
                4 => vec![cx.outsider; 3],
                _ => cx.ids.clone(),
            };
            let pk = adv_pk::<C>(cx, p);
            *desc = format!("{} identifiers, pk with {} verifying shares and threshold {:?}", idl.len(), pk.verifying_shares().len(), pk.min_signers());
            let _ = refresh::compute_refreshing_shares::<C, _>(pk, &idl, &mut rng);
        }
        "repair" => {
            let mut rng = mk_rng(p, "repair");
            let helpers: Vec<Identifier<C>> = match p.below(7) {
                0 => vec![],
                1 => vec![*me.identifier()],
                2 => vec![*me.identifier(); cx.t as usize + 1],
                3 => cx.ids.iter().cloned().chain([cx.outsider]).collect(),
                4 => vec![cx.outsider; cx.t as usize],
                _ => cx.ids.clone(),
            };
            let target = *p.pick(&[cx.outsider, *me.identifier(), cx.ids[0], *cx.ids.last().unwrap()]);
            *desc = format!("{} helpers, target in helpers: {}", helpers.len(), helpers.contains(&target));
            let _ = repairable::repair_share_part1::<C, _>(&helpers, &me, &mut rng, target);
            let deltas: Vec<Delta<C>> = (0..p.below(4)).map(|_| Delta::<C>::deserialize(&sc_bytes::<C>(&sc_random::<C>(p))).unwrap()).collect();
            let _ = repairable::repair_share_part2::<C>(&deltas);
            let sigmas: Vec<Sigma<C>> = (0..p.below(4)).map(|_| Sigma::<C>::deserialize(&sc_bytes::<C>(&sc_random::<C>(p))).unwrap()).collect();
            let _ = repairable::repair_share_part3::<C>(&sigmas, target, &adv_pk::<C>(cx, p));
        }
        "reconstruct" => {
            let list: Vec<KeyPackage<C>> = match p.below(5) {
                0 => vec![],
                1 => vec![me.clone(), me.clone()],
                2 => cx.kps.iter().map(|k| KeyPackage::<C>::new(*k.identifier(), *k.signing_share(), *k.verifying_share(), *k.verifying_key(), adv_threshold(p).unwrap_or(0))).collect(),
                3 => cx.adv_kp.clone(),
                _ => cx.kps.clone(),
            };
            *desc = format!("{} key packages", list.len());
            let _ = keys::reconstruct::<C>(&list);
        }
        "batch" => {
            let v = frost::batch::Verifier::<C>::new();
            let _ = v.verify(mk_rng(p, "batch0"));
            let mut v = frost::batch::Verifier::<C>::new();
            let sk = SigningKey::<C>::new(&mut mk_rng(p, "batchk"));
            let vk = VerifyingKey::<C>::from(&sk);
            for _ in 0..p.below(5) {
                let msg = adv_message(p);
                let msg = &msg[..msg.len().min(300)];
                let sig = sk.sign(mk_rng(p, "batchs"), msg);
                let mut sb = sig.serialize().unwrap_or_default();
                if p.chance(1, 2) && !sb.is_empty() {
                    let i = p.below(sb.len() as u64) as usize;
                    sb[i] ^= 1 << p.below(8);
                }
                if let Ok(s2) = Signature::<C>::deserialize(&sb) {
                    if let Ok(item) = frost::batch::Item::<C>::new(vk, s2, msg) {
                        let _ = item.clone().verify_single();
                        v.queue(item);
                    }
                }
            }
            *desc = "batch with tampered items".into();
            let _ = v.verify(mk_rng(p, "batchv"));
        }
        "rerandomized" => {
            let Some((pkg0, shares0)) = &cx.session else { return };
            let comms = adv_commitments::<C>(cx, p, me.identifier(), None);
            *desc = format!("{} commitments", comms.len());
            let _ = RandomizedParams::<C>::new_from_commitments(cx.pk.verifying_key(), &comms, mk_rng(p, "rr"));
            let seed = adv_message(p);
            let seed = &seed[..seed.len().min(200)];
            if let Ok(params) = RandomizedParams::<C>::regenerate_from_seed_and_commitments(cx.pk.verifying_key(), seed, &comms) {
                let _ = frost_rerandomized::aggregate::<C>(pkg0, shares0, &adv_pk::<C>(cx, p), &params);
            }
            let rz = Randomizer::<C>::from_scalar(if p.chance(1, 3) { zero::<C>() } else { sc_random::<C>(p) });
            let params = RandomizedParams::<C>::from_randomizer(cx.pk.verifying_key(), rz);
            let _ = frost_rerandomized::aggregate_custom::<C>(pkg0, shares0, &adv_pk::<C>(cx, p), CheaterDetection::AllCheaters, &params);
        }
        "split" => {
            let mut rng = mk_rng(p, "split");
            let sk = SigningKey::<C>::new(&mut rng);
            let (n, t) = *p.pick(&[(0u16, 0u16), (1, 1), (2, 1), (2, 3), (3, 0), (65535, 65535), (3, 65535), (2, 2)]);
            let custom: Vec<Identifier<C>> = match p.below(4) {
                0 => vec![],
                1 => vec![cx.ids[0]; n.min(6) as usize],
                _ => cx.ids.iter().cycle().take(n.min(6) as usize).cloned().collect(),
            };
            *desc = format!("n = {n}, t = {t}, {} custom identifiers", custom.len());
            if (n, t) != (65535, 65535) {
                let _ = keys::split::<C, _>(&sk, n, t, IdentifierList::Custom(&custom), &mut rng);
            }
            if n < 100 {
                let _ = keys::generate_with_dealer::<C, _>(n, t, IdentifierList::Default, &mut rng);
            }
        }
        "from_commitments" => {
            let vss = adv_vss::<C>(cx, p);
            let ids: std::collections::BTreeSet<Identifier<C>> = match p.below(3) {
                0 => Default::default(),
                _ => cx.ids.iter().cloned().collect(),
            };
            *desc = format!("{} identifiers, commitment with {} entries", ids.len(), vss.serialize().map(|v| v.len()).unwrap_or(0));
            let _ = PublicKeyPackage::<C>::from_commitment(&ids, &vss);
            let others: Vec<VerifiableSecretSharingCommitment<C>> = (0..p.below(4)).map(|_| adv_vss::<C>(cx, p)).collect();
            let m: BTreeMap<Identifier<C>, &VerifiableSecretSharingCommitment<C>> = others.iter().enumerate().map(|(i, c)| (cx.ids[i % cx.ids.len()], c)).collect();
            let _ = PublicKeyPackage::<C>::from_dkg_commitments(&m);
            let pk = adv_pk::<C>(cx, p);
            let _ = pk.max_signers();
            let _ = pk.serialize();
            let _ = serde_json::to_string(&pk);
        }
        "identifier" => {
            *desc = "derive / try_from".into();
            let m = adv_message(p);
            let _ = Identifier::<C>::derive(&m[..m.len().min(4096)]);
            let _ = Identifier::<C>::try_from(*p.pick(&[0u16, 1, 255, 256, 65535]));
            let a = cx.ids[0];
            let _ = a.cmp(&cx.outsider);
            let _ = format!("{a:?}");
        }
        "taproot_tweak" => {
            if C::IS_TR {
                let root = adv_message(p);
                let root = &root[..root.len().min(1000)];
                *desc = format!("merkle root of {} bytes", root.len());
                let _ = C::tweak_pk(adv_pk::<C>(cx, p), if p.chance(1, 4) { None } else { Some(root) });
                let _ = C::tweak_kp(me.clone(), Some(root));
            }
        }
        "dkg::part1" => {
            let (n, t) = *p.pick(&[(0u16, 0u16), (1, 1), (2, 1), (2, 3), (3, 0), (3, 65535), (2, 2)]);
            *desc = format!("n = {n}, t = {t}");
            let _ = dkg::part1::<C, _>(cx.outsider, n, t, mk_rng(p, "p1"));
            let _ = refresh::refresh_dkg_part1::<C, _>(cx.outsider, n, t, mk_rng(p, "rp1"));
        }
        "verify" => {
            let Some((pkg0, _)) = &cx.session else { return };
            let sk = SigningKey::<C>::new(&mut mk_rng(p, "vk"));
            let sig = sk.sign(mk_rng(p, "vs"), pkg0.message());
            let msg = adv_message(p);
            *desc = format!("message of {} bytes", msg.len());
            let _ = cx.pk.verifying_key().verify(&msg, &sig);
            let _ = format!("{sig:?}");
        }
        _ => {
            let mut rng = mk_rng(p, "pre");
            let k = *p.pick(&[0u8, 1, 2, 1, 0, 3, 2, 255]);
            *desc = format!("preprocess({k})");
            let (a, b) = frost::round1::preprocess::<C, _>(k, me.signing_share(), &mut rng);
            let _ = (a.len(), b.len());
            for n in a.iter().take(2) {
                let _ = format!("{n:?}");
            }
        }
    }
}

/// The round-2 packages an honest run (the fresh one made for part B) sends to participant 0.
fn honest_r2_for_zero<C: Suite>(scen: &Scenario, cx: &Ctx<C>) -> Option<BTreeMap<Identifier<C>, round2::Package<C>>> {
    let n = scen.n as usize;
    let mut secs = Vec::new();
    let mut pkgs: BTreeMap<Identifier<C>, round1::Package<C>> = BTreeMap::new();
    for j in 0..n {
        let rng = SimRng::good(stream(scen.seed, scen.run, &format!("c14/dkg/{j}")));
        let (s, p) = dkg::part1::<C, _>(cx.ids[j], scen.n, scen.t, rng).ok()?;
        secs.push(s);
        pkgs.insert(cx.ids[j], p);
    }
    let mut out = BTreeMap::new();
    for j in 1..n {
        let mut m = pkgs.clone();
        m.remove(&cx.ids[j]);
        let (_, r2) = dkg::part2::<C>(secs[j].clone(), &m).ok()?;
        out.insert(cx.ids[j], r2.get(&cx.ids[0])?.clone());
    }
    Some(out)
}
