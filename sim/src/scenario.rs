//! Scenario = explicit data. The generator draws it from the seed, the executor runs it, the
//! minimiser edits it, a replay file is exactly one of these plus the oracle that fired.

use serde::{Deserialize, Serialize};
use serde_json::Value;

use crate::wire::Fmt;

#[derive(Clone, Copy, Debug, PartialEq, Eq, PartialOrd, Ord, Serialize, Deserialize, Hash)]
pub enum Kind {
    DealerShare,
    PubKeys,
    DkgR1,
    DkgR2,
    CommitReq,
    Commitments,
    SignReq,
    SigShare,
    RefreshShare,
    RepairReq,
    RepairInit,
    RepairDelta,
    RepairSigma,
}

#[derive(Clone, Debug, PartialEq, Eq, Serialize, Deserialize)]
pub enum SignMode {
    Plain,
    /// Re-randomised session: coordinator draws a seed with `new_from_commitments`.
    Rerand,
    /// Taproot only: sign_with_tweak / aggregate_with_tweak; `None` = key-path-only tweak.
    Tweak(Option<String>),
}

#[derive(Clone, Debug, PartialEq, Eq, Serialize, Deserialize)]
pub enum Inst {
    /// Trusted dealer; `split_key`: split a harness-chosen key (so f(0) is known) instead of
    /// `generate_with_dealer`.
    DealerKeygen { split_key: bool },
    Dkg,
    Sign { signers: Vec<usize>, msg_hex: String, mode: SignMode },
    RefreshDealer { remaining: Vec<usize> },
    RefreshDkg { remaining: Vec<usize> },
    /// `target`: participant node index (an existing one whose share is treated as lost, or a spare
    /// node with a fresh identifier); `helpers` in the order of the helper *list* given to part 1.
    Repair { target: usize, helpers: Vec<usize> },
}

#[derive(Clone, Debug, PartialEq, Eq, Serialize, Deserialize)]
pub struct MsgRef {
    pub inst: u32,
    pub kind: Kind,
    pub from: usize,
    pub to: usize,
}

#[derive(Clone, Debug, PartialEq, Eq, Serialize, Deserialize)]
pub enum Fault {
    /// First transmission is lost; the sender's retransmit timer re-sends it later.
    Drop(MsgRef),
    /// Delivered twice.
    Dup(MsgRef),
    /// Held back for `steps` simulated steps.
    Hold(MsgRef, u32),
    /// Node crashes right after handling the referenced message (volatile state lost), restarts
    /// from its durable store `down_for` steps later.
    Crash { node: usize, after: MsgRef, down_for: u32 },
    /// Node crashes right after its local start action of `inst`.
    CrashAfterStart { node: usize, inst: u32, down_for: u32 },
    /// Links to and from `nodes` deliver nothing for `steps` steps after the referenced delivery.
    Partition { nodes: Vec<usize>, after: MsgRef, steps: u32 },
}

impl Fault {
    pub fn kind_name(&self) -> &'static str {
        match self {
            Fault::Drop(_) => "drop",
            Fault::Dup(_) => "duplicate",
            Fault::Hold(..) => "hold",
            Fault::Crash { .. } => "crash_restart",
            Fault::CrashAfterStart { .. } => "crash_restart",
            Fault::Partition { .. } => "partition_heal",
        }
    }
}

#[derive(Clone, Copy, Debug, PartialEq, Eq, Serialize, Deserialize)]
pub enum Sched {
    Fifo,
    Random,
    /// newest first
    Lifo,
}

#[derive(Clone, Debug, Serialize, Deserialize)]
pub struct Scenario {
    pub format: u32,
    pub property: String,
    #[serde(default)]
    pub oracle: String,
    #[serde(default)]
    pub detail: String,
    pub seed: u64,
    pub run: u64,
    pub suite: String,
    pub n: u16,
    pub t: u16,
    /// extra participant nodes that take no part in key generation (repair targets with a new identifier)
    #[serde(default)]
    pub spares: u16,
    /// identifier of every participant node (n + spares entries), hex of the scalar encoding
    pub ids_hex: Vec<String>,
    pub id_scheme: String,
    pub wire: Fmt,
    /// phases run one after another; the instances inside a phase run concurrently
    pub phases: Vec<Vec<Inst>>,
    pub faults: Vec<Fault>,
    pub sched: Sched,
    /// property-specific parameters (Byzantine plan, RNG modes, ...)
    #[serde(default)]
    pub extra: Value,
    #[serde(default)]
    pub event_log_digest: String,
    #[serde(default)]
    pub minimised_from: Value,
}

impl Scenario {
    pub fn inst_count(&self) -> usize {
        self.phases.iter().map(|p| p.len()).sum()
    }
    pub fn inst(&self, id: u32) -> Option<&Inst> {
        self.phases.iter().flatten().nth(id as usize)
    }
    pub fn phase_range(&self, phase: usize) -> std::ops::Range<u32> {
        let start: usize = self.phases[..phase].iter().map(|p| p.len()).sum();
        (start as u32)..((start + self.phases[phase].len()) as u32)
    }
    pub fn np(&self) -> usize {
        (self.n + self.spares) as usize
    }
    pub fn hub(&self) -> usize {
        self.np()
    }
    pub fn shape_key(&self) -> String {
        let kinds: Vec<String> = self
            .phases
            .iter()
            .map(|p| {
                p.iter()
                    .map(|i| match i {
                        Inst::DealerKeygen { split_key } => format!("D{}", *split_key as u8),
                        Inst::Dkg => "K".into(),
                        Inst::Sign { signers, mode, .. } => format!(
                            "S{}{}",
                            signers.len(),
                            match mode {
                                SignMode::Plain => "p",
                                SignMode::Rerand => "r",
                                SignMode::Tweak(_) => "t",
                            }
                        ),
                        Inst::RefreshDealer { remaining } => format!("Rd{}", remaining.len()),
                        Inst::RefreshDkg { remaining } => format!("Rk{}", remaining.len()),
                        Inst::Repair { helpers, .. } => format!("P{}", helpers.len()),
                    })
                    .collect::<Vec<_>>()
                    .join("+")
            })
            .collect();
        let mut fk: Vec<&str> = self.faults.iter().map(|f| f.kind_name()).collect();
        fk.sort();
        fk.dedup();
        format!(
            "{}|n{}t{}|{}|{:?}|{}|{}|{:?}",
            self.suite,
            self.n,
            self.t,
            self.id_scheme,
            self.wire,
            kinds.join(";"),
            fk.join(","),
            self.sched
        )
    }
}

#[derive(Clone, Debug)]
pub struct Violation {
    pub property: String,
    pub oracle: String,
    pub detail: String,
    /// optional: value for `extra.only` that restricts a sweep to the single failing trial
    pub narrow: Option<Value>,
}

impl Violation {
    pub fn narrowed(mut self, only: Value) -> Self {
        self.narrow = Some(only);
        self
    }
    pub fn new(property: &str, oracle: &str, detail: impl Into<String>) -> Self {
        Violation { property: property.into(), oracle: oracle.into(), detail: detail.into(), narrow: None }
    }
}
