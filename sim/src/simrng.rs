//! The random-source seam: a recording, replayable *byte stream* handed to every randomised
//! library entry point (`R: CryptoRng`). `fill_bytes(32)` twice and `fill_bytes(64)` once see the
//! same bytes. Every request is recorded as (offset, len).

use crate::prng::Prng;
use core::convert::Infallible;
use rand_core::{TryCryptoRng, TryRng};

#[derive(Clone, Debug)]
pub enum RngMode {
    /// PRNG stream (the normal case).
    Good(Prng),
    /// Every byte equals `b`.
    Constant(u8),
    /// A PRNG-generated block of `period` bytes repeated forever.
    Repeating(Vec<u8>),
    /// 64-bit little-endian counter stream starting at `start`.
    Counter(u64),
    /// Replays a recorded stream; past its end continues with the fallback PRNG.
    Replay(Vec<u8>, Prng),
    /// Replays a recorded stream except that bytes in `[off, off+len)` are xored with 0xA5
    /// (and past the end continues with the fallback PRNG).
    ReplayPerturbed { stream: Vec<u8>, off: usize, len: usize, fallback: Prng },
}

#[derive(Clone, Debug)]
pub struct SimRng {
    mode: RngMode,
    pos: usize,
    /// (offset, len) of every request, in order.
    pub draws: Vec<(usize, usize)>,
    /// Every byte handed out, in order.
    pub out: Vec<u8>,
}

impl SimRng {
    pub fn new(mode: RngMode) -> Self {
        SimRng { mode, pos: 0, draws: Vec::new(), out: Vec::new() }
    }
    pub fn good(p: Prng) -> Self {
        Self::new(RngMode::Good(p))
    }
    pub fn replay(stream: Vec<u8>, fallback: Prng) -> Self {
        Self::new(RngMode::Replay(stream, fallback))
    }
    pub fn total(&self) -> usize {
        self.pos
    }
    fn byte(&mut self) -> u8 {
        let p = self.pos;
        let b = match &mut self.mode {
            RngMode::Good(prng) => {
                // byte-granular so that request sizes do not matter
                (prng.next_u64() & 0xff) as u8
            }
            RngMode::Constant(b) => *b,
            RngMode::Repeating(block) => block[p % block.len()],
            RngMode::Counter(start) => {
                let word = start.wrapping_add((p / 8) as u64);
                word.to_le_bytes()[p % 8]
            }
            RngMode::Replay(stream, fb) => {
                if p < stream.len() {
                    stream[p]
                } else {
                    (fb.next_u64() & 0xff) as u8
                }
            }
            RngMode::ReplayPerturbed { stream, off, len, fallback } => {
                let base = if p < stream.len() { stream[p] } else { (fallback.next_u64() & 0xff) as u8 };
                if p >= *off && p < *off + *len { base ^ 0xA5 } else { base }
            }
        };
        self.pos += 1;
        self.out.push(b);
        b
    }
    fn take(&mut self, dst: &mut [u8]) {
        self.draws.push((self.pos, dst.len()));
        for d in dst.iter_mut() {
            *d = self.byte();
        }
    }
}

impl TryRng for SimRng {
    type Error = Infallible;
    fn try_next_u32(&mut self) -> Result<u32, Infallible> {
        let mut b = [0u8; 4];
        self.take(&mut b);
        Ok(u32::from_le_bytes(b))
    }
    fn try_next_u64(&mut self) -> Result<u64, Infallible> {
        let mut b = [0u8; 8];
        self.take(&mut b);
        Ok(u64::from_le_bytes(b))
    }
    fn try_fill_bytes(&mut self, dst: &mut [u8]) -> Result<(), Infallible> {
        self.take(dst);
        Ok(())
    }
}

impl TryCryptoRng for SimRng {}
