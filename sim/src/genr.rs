//! Swarm-style scenario generation: sizes, identifier schemes, messages, honest-path fault plans.

use frost_core::Identifier;

use crate::prng::{stream, Prng};
use crate::scenario::*;
use crate::suite::*;
use crate::wire::Fmt;

#[derive(Clone, Copy, Debug, PartialEq, Eq)]
pub enum Tier {
    Quick,
    Thorough,
}

impl Tier {
    pub fn name(&self) -> &'static str {
        match self {
            Tier::Quick => "quick",
            Tier::Thorough => "thorough",
        }
    }
}

/// (n, t) with 2 <= t <= n <= max_n, biased to the corners.
pub fn gen_nt(p: &mut Prng, min_n: u16, max_n: u16) -> (u16, u16) {
    let n = p.range(min_n.max(2) as u64, max_n as u64) as u16;
    let t = match p.below(6) {
        0 => 2,
        1 => n,
        2 => (n - 1).max(2),
        3 => n.div_ceil(2).max(2),
        _ => p.range(2, n as u64) as u16,
    };
    (n, t.min(n).max(2))
}

pub const ID_SCHEMES: [&str; 6] = ["default", "sparse", "u16ext", "derived", "scalar", "mixed"];

fn id_hex<C: Suite>(id: &Identifier<C>) -> String {
    hexs(&id.serialize())
}

/// The identifier for a u16, computed by the harness's own arithmetic (RFC 9591: the integer as a scalar) and NOT through
/// `Identifier::try_from(u16)`: the worlds must not inherit a defect of the conversion they help to check (C02 compares the
/// library's conversion with the reference for a sweep of values).
fn u16_id<C: Suite>(v: u16) -> Identifier<C> {
    id_from_scalar::<C>(&sc_from_u64::<C>(v as u64)).expect("nonzero")
}

/// `count` distinct identifiers under the named scheme, in node order.
pub fn gen_ids<C: Suite>(p: &mut Prng, scheme: &str, count: usize) -> Vec<String> {
    let mut out: Vec<Identifier<C>> = Vec::new();
    let mut push = |id: Identifier<C>, out: &mut Vec<Identifier<C>>| {
        if !out.contains(&id) {
            out.push(id);
        }
    };
    match scheme {
        "default" => {
            for i in 1..=count {
                out.push(u16_id::<C>(i as u16));
            }
        }
        "sparse" => {
            while out.len() < count {
                let v = p.range(1, 2000) as u16;
                push(u16_id::<C>(v), &mut out);
            }
        }
        "u16ext" => {
            let mut pool: Vec<u16> = vec![255, 256, 257, 65534, 65535, 1, 2, 32767, 32768, 511, 512, 4095, 4096, 127, 128, 129];
            p.shuffle(&mut pool);
            for v in pool {
                if out.len() < count {
                    push(u16_id::<C>(v), &mut out);
                }
            }
            while out.len() < count {
                let v = p.range(1, 65535) as u16;
                push(u16_id::<C>(v), &mut out);
            }
        }
        "derived" => {
            while out.len() < count {
                let len = p.range(0, 40) as usize;
                let b = p.bytes(len);
                if let Ok(id) = Identifier::<C>::derive(&b) {
                    push(id, &mut out);
                }
            }
        }
        "scalar" => {
            // arbitrary canonical scalars incl. q-1, q-2, powers of two, byte-order-sensitive values
            let mut specials: Vec<Scalar2<C>> = vec![
                neg::<C>(one::<C>()),
                neg::<C>(sc_from_u64::<C>(2)),
                sc_from_u64::<C>(1 << 16),
                sc_from_u64::<C>(0x0100_0000_0000_0002),
                sc_from_u64::<C>(0x0200_0000_0000_0001),
                sc_from_u64::<C>(u64::MAX),
            ];
            p.shuffle(&mut specials);
            for s in specials.into_iter().take(count.min(3)) {
                if let Some(id) = id_from_scalar::<C>(&s) {
                    push(id, &mut out);
                }
            }
            while out.len() < count {
                let s = sc_random_nonzero::<C>(p);
                if let Some(id) = id_from_scalar::<C>(&s) {
                    push(id, &mut out);
                }
            }
        }
        _ => {
            // mixed
            while out.len() < count {
                let id = match p.below(4) {
                    0 => u16_id::<C>(p.range(1, 12) as u16),
                    1 => u16_id::<C>(*p.pick(&[255u16, 256, 257, 65534, 65535])),
                    2 => Identifier::<C>::derive(&p.bytes(8)).expect("derive"),
                    _ => id_from_scalar::<C>(&sc_random_nonzero::<C>(p)).expect("nonzero"),
                };
                push(id, &mut out);
            }
        }
    }
    if scheme != "default" {
        p.shuffle(&mut out);
    }
    out.iter().map(|i| id_hex(i)).collect()
}

type Scalar2<C> = frost_core::Scalar<C>;

pub fn gen_message(p: &mut Prng) -> Vec<u8> {
    // 32 bytes (a digest) is what real deployments sign most of the time
    let len = match p.below(11) {
        9 | 10 => 32,
        0 => 0,
        1 => 1,
        2 => 63,
        3 => 64,
        4 => 65,
        5 => 127,
        6 => 128,
        7 => 1024,
        _ => p.range(2, 300) as usize,
    };
    p.bytes(len)
}

pub fn gen_wire(p: &mut Prng) -> Fmt {
    if p.chance(1, 3) { Fmt::Json } else { Fmt::Bin }
}

/// Signer subset of participant nodes `pool`, size in t..=|pool|, several shapes.
pub fn gen_signers(p: &mut Prng, pool: &[usize], t: usize) -> Vec<usize> {
    let m = pool.len();
    let k = match p.below(5) {
        0 => t,
        1 => m,
        2 => (t + 1).min(m),
        _ => p.range(t as u64, m as u64) as usize,
    };
    let mut s: Vec<usize> = match p.below(5) {
        0 => pool[..k].to_vec(),
        1 => pool[m - k..].to_vec(),
        _ => p.subset(m, k).into_iter().map(|i| pool[i]).collect(),
    };
    // the order in which the coordinator contacts signers is part of the schedule
    p.shuffle(&mut s);
    s
}

/// Every logical message an instance is expected to produce on the honest path.
pub fn expected_msgs(scen: &Scenario, inst: u32) -> Vec<MsgRef> {
    let hub = scen.hub();
    let n = scen.n as usize;
    let mut v = Vec::new();
    let mut m = |kind: Kind, from: usize, to: usize| v.push(MsgRef { inst, kind, from, to });
    match scen.inst(inst).unwrap() {
        Inst::DealerKeygen { .. } => {
            for p in 0..n {
                m(Kind::DealerShare, hub, p);
                m(Kind::PubKeys, hub, p);
            }
        }
        Inst::Dkg => {
            for i in 0..n {
                for j in 0..n {
                    if i != j {
                        m(Kind::DkgR1, i, j);
                        m(Kind::DkgR2, i, j);
                    }
                }
                m(Kind::PubKeys, i, hub);
            }
        }
        Inst::RefreshDkg { remaining } => {
            for i in remaining {
                for j in remaining {
                    if i != j {
                        m(Kind::DkgR1, *i, *j);
                        m(Kind::DkgR2, *i, *j);
                    }
                }
                m(Kind::PubKeys, *i, hub);
            }
        }
        Inst::Sign { signers, .. } => {
            for s in signers {
                m(Kind::CommitReq, hub, *s);
                m(Kind::Commitments, *s, hub);
                m(Kind::SignReq, hub, *s);
                m(Kind::SigShare, *s, hub);
            }
        }
        Inst::RefreshDealer { remaining } => {
            for p in remaining {
                m(Kind::RefreshShare, hub, *p);
                m(Kind::PubKeys, hub, *p);
            }
        }
        Inst::Repair { target, helpers } => {
            m(Kind::RepairInit, hub, *target);
            if *target >= n {
                m(Kind::PubKeys, *target, hub);
                for p in 0..n {
                    m(Kind::PubKeys, hub, p);
                }
            }
            for h in helpers {
                m(Kind::RepairReq, hub, *h);
                for h2 in helpers {
                    m(Kind::RepairDelta, *h, *h2);
                }
                m(Kind::RepairSigma, *h, *target);
            }
        }
    }
    v
}

/// Honest-path fault plan: drops (with retransmit), duplicates, hold-backs, partitions, crash/restart.
/// `mask` enables fault kinds (swarm testing): bit0 drop, bit1 dup, bit2 hold, bit3 crash, bit4 partition.
pub fn gen_honest_faults(p: &mut Prng, scen: &Scenario, budget: usize, mask: u32) -> Vec<Fault> {
    let mut faults = Vec::new();
    if mask == 0 || budget == 0 {
        return faults;
    }
    let mut all: Vec<MsgRef> = Vec::new();
    for inst in 0..scen.inst_count() as u32 {
        all.extend(expected_msgs(scen, inst));
    }
    if all.is_empty() {
        return faults;
    }
    let kinds: Vec<u32> = (0..5).filter(|b| mask & (1 << b) != 0).collect();
    let mut used: Vec<(u32, MsgRef)> = Vec::new();
    for _ in 0..budget {
        let k = *p.pick(&kinds);
        let m = p.pick(&all).clone();
        if used.iter().any(|(uk, um)| *uk == k && *um == m) {
            continue;
        }
        used.push((k, m.clone()));
        match k {
            0 => faults.push(Fault::Drop(m)),
            1 => faults.push(Fault::Dup(m)),
            2 => faults.push(Fault::Hold(m, p.range(1, 60) as u32)),
            3 => {
                // crash the receiver right after it handled the message (in-flight state exists)
                faults.push(Fault::Crash { node: m.to, after: m, down_for: p.range(1, 40) as u32 });
            }
            _ => {
                let total = scen.np() + 1;
                let k = p.range(1, (total as u64 - 1).max(1)) as usize;
                let nodes = p.subset(total, k);
                faults.push(Fault::Partition { nodes, after: m, steps: p.range(3, 60) as u32 });
            }
        }
    }
    faults
}

pub fn base_scenario(property: &str, suite: &str, seed: u64, run: u64) -> Scenario {
    Scenario {
        format: 1,
        property: property.into(),
        oracle: String::new(),
        detail: String::new(),
        seed,
        run,
        suite: suite.into(),
        n: 0,
        t: 0,
        spares: 0,
        ids_hex: vec![],
        id_scheme: "default".into(),
        wire: Fmt::Bin,
        phases: vec![],
        faults: vec![],
        sched: Sched::Random,
        extra: serde_json::Value::Null,
        event_log_digest: String::new(),
        minimised_from: serde_json::Value::Null,
    }
}

/// Suite for a run: round-robin with ed448 (about 10x slower) appearing once per `ed448_every` cycles.
pub fn suite_for_run(run: u64, ed448_every: u64) -> &'static str {
    let fast = ["ristretto255", "ed25519", "secp256k1", "secp256k1-tr", "p256"];
    let cycle = 5 * ed448_every + 1;
    let r = run % cycle;
    if r == cycle - 1 { "ed448" } else { fast[(r % 5) as usize] }
}

/// Now and then a wider world (9..=20 participants) for dealer-keyed scenarios: batching / chunking corners only show
/// beyond 8 participants or signers. Returns None most of the time and always for the slow suites.
pub fn maybe_wide<C: Suite>(p: &mut Prng, one_in: u64) -> Option<(u16, u16)> {
    if C::COST >= 9 || !p.chance(1, one_in) {
        return None;
    }
    let n = p.range(9, if C::COST >= 3 { 13 } else { 20 }) as u16;
    let t = match p.below(3) {
        0 => n,
        1 => p.range(9, n as u64) as u16,
        _ => p.range(2, n as u64) as u16,
    };
    Some((n, t))
}

fn default_ids_hex_c<C: Suite>(count: usize) -> Vec<String> {
    let mut p = Prng::from_seed(0);
    gen_ids::<C>(&mut p, "default", count)
}

/// Default identifiers 1..=count in the named suite's encoding (used by the minimiser).
pub fn default_ids_hex(suite: &str, count: usize) -> Vec<String> {
    crate::dispatch!(suite, default_ids_hex_c(count))
}

/// Random-source fault "cloned generator state" (two machines restored from one snapshot): with probability 1/`one_in`, one
/// participant of the world draws exactly what another one draws for the whole run (`extra.rng_alias`; see `Sim::rng`).
pub fn maybe_rng_alias(s: &mut Scenario, seed: u64, run: u64, one_in: u64) {
    let mut ap = stream(seed, run, "gen/rng_alias");
    if s.n >= 2 && ap.chance(1, one_in) {
        let pair = ap.subset(s.n as usize, 2);
        if !s.extra.is_object() {
            s.extra = serde_json::json!({});
        }
        s.extra["rng_alias"] = serde_json::json!({pair[1].to_string(): pair[0]});
    }
}
