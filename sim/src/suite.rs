//! Ciphersuite dispatch and the harness-side algebra (public `Field`/`Group` traits only: shares the
//! curve arithmetic with the system under test, none of frost-core's protocol logic).

use std::collections::BTreeMap;

use frost_core::keys::dkg;
use frost_core::keys::repairable::{Delta, Sigma};
use frost_core::{self as frost, Ciphersuite, Element, Field, Group, Identifier, Scalar};
use frost_rerandomized::RandomizedCiphersuite;

use crate::prng::Prng;
use crate::simrng::SimRng;

pub const SUITES: [&str; 6] = ["ristretto255", "ed25519", "secp256k1", "secp256k1-tr", "p256", "ed448"];

pub trait Suite: RandomizedCiphersuite {
    const NAME: &'static str;
    const IS_TR: bool = false;
    /// Relative cost of one scalar multiplication (ristretto255 = 1); used to size per-suite budgets.
    const COST: u32 = 1;
    /// Independent third-party verifier of the *ordinary* single-signer scheme, if one is linked.
    fn third_party_verify(_vk: &[u8], _msg: &[u8], _sig: &[u8]) -> Option<bool> {
        None
    }
    /// Map applied by distributed key generation after summing (Taproot: even-Y + key-path tweak).
    /// Input: sum of constant-term commitments and a share on the summed polynomial. Output: the
    /// group key element and the share as the library must output them. Computed *independently* of
    /// frost-secp256k1-tr for the Taproot suite (k256 + sha2 directly).
    fn dkg_post_map(sum_c0: Element<Self>, share: Scalar<Self>) -> (Element<Self>, Scalar<Self>) {
        (sum_c0, share)
    }
    /// Taproot-only entry points (the other suites never call them).
    fn sign_with_tweak(
        _pkg: &frost::SigningPackage<Self>,
        _nonces: &frost::round1::SigningNonces<Self>,
        _kp: &frost::keys::KeyPackage<Self>,
        _root: Option<&[u8]>,
    ) -> Result<frost::round2::SignatureShare<Self>, frost::Error<Self>> {
        panic!("sign_with_tweak on a non-Taproot suite")
    }
    /// Taproot only: (verifying key, valid signature, mirrored signature) made by the harness's own BIP-340 signer.
    fn harness_bip340_pair(_p: &mut crate::prng::Prng, _msg: &[u8]) -> Option<(frost::VerifyingKey<Self>, frost::Signature<Self>, frost::Signature<Self>)> {
        None
    }
    fn aggregate_with_tweak(
        _pkg: &frost::SigningPackage<Self>,
        _shares: &std::collections::BTreeMap<Identifier<Self>, frost::round2::SignatureShare<Self>>,
        _pk: &frost::keys::PublicKeyPackage<Self>,
        _root: Option<&[u8]>,
    ) -> Result<frost::Signature<Self>, frost::Error<Self>> {
        panic!("aggregate_with_tweak on a non-Taproot suite")
    }
    fn tweak_pk(_pk: frost::keys::PublicKeyPackage<Self>, _root: Option<&[u8]>) -> frost::keys::PublicKeyPackage<Self> {
        panic!("tweak on a non-Taproot suite")
    }
    fn tweak_kp(_kp: frost::keys::KeyPackage<Self>, _root: Option<&[u8]>) -> frost::keys::KeyPackage<Self> {
        panic!("tweak on a non-Taproot suite")
    }
    /// The public key package as the library normalises it before computing binding factors (Taproot: even Y).
    fn normalised_pk(pk: frost::keys::PublicKeyPackage<Self>) -> frost::keys::PublicKeyPackage<Self> {
        pk
    }

    // ---- the ciphersuite crate's own entry points (thin wrappers over frost-core): the simulated nodes call THESE, as an
    // application written against e.g. `frost_ed25519` would; the sweeps call frost-core directly, so both routes are exercised
    fn w_generate_with_dealer(max: u16, min: u16, ids: frost::keys::IdentifierList<Self>, rng: &mut SimRng) -> Result<(BTreeMap<Identifier<Self>, frost::keys::SecretShare<Self>>, frost::keys::PublicKeyPackage<Self>), frost::Error<Self>>;
    fn w_split(key: &frost::SigningKey<Self>, max: u16, min: u16, ids: frost::keys::IdentifierList<Self>, rng: &mut SimRng) -> Result<(BTreeMap<Identifier<Self>, frost::keys::SecretShare<Self>>, frost::keys::PublicKeyPackage<Self>), frost::Error<Self>>;
    fn w_dkg_part1(id: Identifier<Self>, max: u16, min: u16, rng: &mut SimRng) -> Result<(dkg::round1::SecretPackage<Self>, dkg::round1::Package<Self>), frost::Error<Self>>;
    #[allow(clippy::type_complexity)]
    fn w_dkg_part2(secret: dkg::round1::SecretPackage<Self>, r1: &BTreeMap<Identifier<Self>, dkg::round1::Package<Self>>) -> Result<(dkg::round2::SecretPackage<Self>, BTreeMap<Identifier<Self>, dkg::round2::Package<Self>>), frost::Error<Self>>;
    fn w_dkg_part3(s2: &dkg::round2::SecretPackage<Self>, r1: &BTreeMap<Identifier<Self>, dkg::round1::Package<Self>>, r2: &BTreeMap<Identifier<Self>, dkg::round2::Package<Self>>) -> Result<(frost::keys::KeyPackage<Self>, frost::keys::PublicKeyPackage<Self>), frost::Error<Self>>;
    fn w_compute_refreshing_shares(pk: frost::keys::PublicKeyPackage<Self>, ids: &[Identifier<Self>], rng: &mut SimRng) -> Result<(Vec<frost::keys::SecretShare<Self>>, frost::keys::PublicKeyPackage<Self>), frost::Error<Self>>;
    fn w_refresh_share(share: frost::keys::SecretShare<Self>, kp: &frost::keys::KeyPackage<Self>) -> Result<frost::keys::KeyPackage<Self>, frost::Error<Self>>;
    fn w_refresh_dkg_part1(id: Identifier<Self>, max: u16, min: u16, rng: &mut SimRng) -> Result<(dkg::round1::SecretPackage<Self>, dkg::round1::Package<Self>), frost::Error<Self>>;
    #[allow(clippy::type_complexity)]
    fn w_refresh_dkg_part2(secret: dkg::round1::SecretPackage<Self>, r1: &BTreeMap<Identifier<Self>, dkg::round1::Package<Self>>) -> Result<(dkg::round2::SecretPackage<Self>, BTreeMap<Identifier<Self>, dkg::round2::Package<Self>>), frost::Error<Self>>;
    fn w_refresh_dkg_shares(
        s2: &dkg::round2::SecretPackage<Self>,
        r1: &BTreeMap<Identifier<Self>, dkg::round1::Package<Self>>,
        r2: &BTreeMap<Identifier<Self>, dkg::round2::Package<Self>>,
        old_pk: frost::keys::PublicKeyPackage<Self>,
        old_kp: frost::keys::KeyPackage<Self>,
    ) -> Result<(frost::keys::KeyPackage<Self>, frost::keys::PublicKeyPackage<Self>), frost::Error<Self>>;
    fn w_repair1(helpers: &[Identifier<Self>], kp: &frost::keys::KeyPackage<Self>, rng: &mut SimRng, participant: Identifier<Self>) -> Result<BTreeMap<Identifier<Self>, Delta<Self>>, frost::Error<Self>>;
    fn w_repair2(deltas: &[Delta<Self>]) -> Sigma<Self>;
    fn w_repair3(sigmas: &[Sigma<Self>], id: Identifier<Self>, pk: &frost::keys::PublicKeyPackage<Self>) -> Result<frost::keys::KeyPackage<Self>, frost::Error<Self>>;
    fn w_commit(share: &frost::keys::SigningShare<Self>, rng: &mut SimRng) -> (frost::round1::SigningNonces<Self>, frost::round1::SigningCommitments<Self>);
    fn w_sign(pkg: &frost::SigningPackage<Self>, nonces: &frost::round1::SigningNonces<Self>, kp: &frost::keys::KeyPackage<Self>) -> Result<frost::round2::SignatureShare<Self>, frost::Error<Self>>;
    fn w_aggregate(pkg: &frost::SigningPackage<Self>, shares: &BTreeMap<Identifier<Self>, frost::round2::SignatureShare<Self>>, pk: &frost::keys::PublicKeyPackage<Self>) -> Result<frost::Signature<Self>, frost::Error<Self>>;
    fn w_aggregate_custom(pkg: &frost::SigningPackage<Self>, shares: &BTreeMap<Identifier<Self>, frost::round2::SignatureShare<Self>>, pk: &frost::keys::PublicKeyPackage<Self>, mode: frost::CheaterDetection) -> Result<frost::Signature<Self>, frost::Error<Self>>;
    fn w_reconstruct(kps: &[frost::keys::KeyPackage<Self>]) -> Result<frost::SigningKey<Self>, frost::Error<Self>>;
    /// Re-randomised entry points: only frost-ristretto255 compiles wrappers of its own (`rerandomized` module); the other
    /// suites use frost-rerandomized's generic functions.
    fn w_rr_sign(pkg: &frost::SigningPackage<Self>, nonces: &frost::round1::SigningNonces<Self>, kp: &frost::keys::KeyPackage<Self>, seed: &[u8]) -> Result<frost::round2::SignatureShare<Self>, frost::Error<Self>> {
        frost_rerandomized::sign_with_randomizer_seed(pkg, nonces, kp, seed)
    }
    fn w_rr_aggregate(
        pkg: &frost::SigningPackage<Self>,
        shares: &BTreeMap<Identifier<Self>, frost::round2::SignatureShare<Self>>,
        pk: &frost::keys::PublicKeyPackage<Self>,
        params: &frost_rerandomized::RandomizedParams<Self>,
    ) -> Result<frost::Signature<Self>, frost::Error<Self>> {
        frost_rerandomized::aggregate(pkg, shares, pk, params)
    }
}

/// `aggregate_custom` apart: the Taproot crate has no wrapper of its own for it (frost-core's is used there).
macro_rules! suite_agg_custom {
    ($f:path) => {
        fn w_aggregate_custom(pkg: &frost::SigningPackage<Self>, shares: &BTreeMap<Identifier<Self>, frost::round2::SignatureShare<Self>>, pk: &frost::keys::PublicKeyPackage<Self>, mode: frost::CheaterDetection) -> Result<frost::Signature<Self>, frost::Error<Self>> {
            $f(pkg, shares, pk, mode)
        }
    };
}

/// Generates the `w_*` methods by delegating to the ciphersuite crate's wrapper functions.
macro_rules! suite_wrappers {
    ($k:ident, $ty:ty) => {
        fn w_generate_with_dealer(max: u16, min: u16, ids: frost::keys::IdentifierList<Self>, rng: &mut SimRng) -> Result<(BTreeMap<Identifier<Self>, frost::keys::SecretShare<Self>>, frost::keys::PublicKeyPackage<Self>), frost::Error<Self>> {
            $k::keys::generate_with_dealer(max, min, ids, &mut *rng)
        }
        fn w_split(key: &frost::SigningKey<Self>, max: u16, min: u16, ids: frost::keys::IdentifierList<Self>, rng: &mut SimRng) -> Result<(BTreeMap<Identifier<Self>, frost::keys::SecretShare<Self>>, frost::keys::PublicKeyPackage<Self>), frost::Error<Self>> {
            $k::keys::split(key, max, min, ids, rng)
        }
        fn w_dkg_part1(id: Identifier<Self>, max: u16, min: u16, rng: &mut SimRng) -> Result<(dkg::round1::SecretPackage<Self>, dkg::round1::Package<Self>), frost::Error<Self>> {
            $k::keys::dkg::part1(id, max, min, &mut *rng)
        }
        fn w_dkg_part2(secret: dkg::round1::SecretPackage<Self>, r1: &BTreeMap<Identifier<Self>, dkg::round1::Package<Self>>) -> Result<(dkg::round2::SecretPackage<Self>, BTreeMap<Identifier<Self>, dkg::round2::Package<Self>>), frost::Error<Self>> {
            $k::keys::dkg::part2(secret, r1)
        }
        fn w_dkg_part3(s2: &dkg::round2::SecretPackage<Self>, r1: &BTreeMap<Identifier<Self>, dkg::round1::Package<Self>>, r2: &BTreeMap<Identifier<Self>, dkg::round2::Package<Self>>) -> Result<(frost::keys::KeyPackage<Self>, frost::keys::PublicKeyPackage<Self>), frost::Error<Self>> {
            $k::keys::dkg::part3(s2, r1, r2)
        }
        fn w_compute_refreshing_shares(pk: frost::keys::PublicKeyPackage<Self>, ids: &[Identifier<Self>], rng: &mut SimRng) -> Result<(Vec<frost::keys::SecretShare<Self>>, frost::keys::PublicKeyPackage<Self>), frost::Error<Self>> {
            $k::keys::refresh::compute_refreshing_shares(pk, ids, rng)
        }
        fn w_refresh_share(share: frost::keys::SecretShare<Self>, kp: &frost::keys::KeyPackage<Self>) -> Result<frost::keys::KeyPackage<Self>, frost::Error<Self>> {
            $k::keys::refresh::refresh_share(share, kp)
        }
        fn w_refresh_dkg_part1(id: Identifier<Self>, max: u16, min: u16, rng: &mut SimRng) -> Result<(dkg::round1::SecretPackage<Self>, dkg::round1::Package<Self>), frost::Error<Self>> {
            $k::keys::refresh::refresh_dkg_part1(id, max, min, &mut *rng)
        }
        fn w_refresh_dkg_part2(secret: dkg::round1::SecretPackage<Self>, r1: &BTreeMap<Identifier<Self>, dkg::round1::Package<Self>>) -> Result<(dkg::round2::SecretPackage<Self>, BTreeMap<Identifier<Self>, dkg::round2::Package<Self>>), frost::Error<Self>> {
            $k::keys::refresh::refresh_dkg_part2(secret, r1)
        }
        fn w_refresh_dkg_shares(
            s2: &dkg::round2::SecretPackage<Self>,
            r1: &BTreeMap<Identifier<Self>, dkg::round1::Package<Self>>,
            r2: &BTreeMap<Identifier<Self>, dkg::round2::Package<Self>>,
            old_pk: frost::keys::PublicKeyPackage<Self>,
            old_kp: frost::keys::KeyPackage<Self>,
        ) -> Result<(frost::keys::KeyPackage<Self>, frost::keys::PublicKeyPackage<Self>), frost::Error<Self>> {
            $k::keys::refresh::refresh_dkg_shares(s2, r1, r2, old_pk, old_kp)
        }
        fn w_repair1(helpers: &[Identifier<Self>], kp: &frost::keys::KeyPackage<Self>, rng: &mut SimRng, participant: Identifier<Self>) -> Result<BTreeMap<Identifier<Self>, Delta<Self>>, frost::Error<Self>> {
            $k::keys::repairable::repair_share_part1::<$ty, _>(helpers, kp, rng, participant)
        }
        fn w_repair2(deltas: &[Delta<Self>]) -> Sigma<Self> {
            $k::keys::repairable::repair_share_part2(deltas)
        }
        fn w_repair3(sigmas: &[Sigma<Self>], id: Identifier<Self>, pk: &frost::keys::PublicKeyPackage<Self>) -> Result<frost::keys::KeyPackage<Self>, frost::Error<Self>> {
            $k::keys::repairable::repair_share_part3(sigmas, id, pk)
        }
        fn w_commit(share: &frost::keys::SigningShare<Self>, rng: &mut SimRng) -> (frost::round1::SigningNonces<Self>, frost::round1::SigningCommitments<Self>) {
            $k::round1::commit(share, rng)
        }
        fn w_sign(pkg: &frost::SigningPackage<Self>, nonces: &frost::round1::SigningNonces<Self>, kp: &frost::keys::KeyPackage<Self>) -> Result<frost::round2::SignatureShare<Self>, frost::Error<Self>> {
            $k::round2::sign(pkg, nonces, kp)
        }
        fn w_aggregate(pkg: &frost::SigningPackage<Self>, shares: &BTreeMap<Identifier<Self>, frost::round2::SignatureShare<Self>>, pk: &frost::keys::PublicKeyPackage<Self>) -> Result<frost::Signature<Self>, frost::Error<Self>> {
            $k::aggregate(pkg, shares, pk)
        }
        fn w_reconstruct(kps: &[frost::keys::KeyPackage<Self>]) -> Result<frost::SigningKey<Self>, frost::Error<Self>> {
            $k::keys::reconstruct(kps)
        }
    };
}

impl Suite for frost_ristretto255::Ristretto255Sha512 {
    const NAME: &'static str = "ristretto255";
    suite_wrappers!(frost_ristretto255, frost_ristretto255::Ristretto255Sha512);
    fn w_rr_sign(pkg: &frost::SigningPackage<Self>, nonces: &frost::round1::SigningNonces<Self>, kp: &frost::keys::KeyPackage<Self>, seed: &[u8]) -> Result<frost::round2::SignatureShare<Self>, frost::Error<Self>> {
        frost_ristretto255::rerandomized::sign_with_randomizer_seed(pkg, nonces, kp, seed)
    }
    fn w_rr_aggregate(
        pkg: &frost::SigningPackage<Self>,
        shares: &BTreeMap<Identifier<Self>, frost::round2::SignatureShare<Self>>,
        pk: &frost::keys::PublicKeyPackage<Self>,
        params: &frost_rerandomized::RandomizedParams<Self>,
    ) -> Result<frost::Signature<Self>, frost::Error<Self>> {
        frost_ristretto255::rerandomized::aggregate(pkg, shares, pk, params)
    }
    suite_agg_custom!(frost_ristretto255::aggregate_custom);
}
impl Suite for frost_ed25519::Ed25519Sha512 {
    const NAME: &'static str = "ed25519";
    suite_wrappers!(frost_ed25519, frost_ed25519::Ed25519Sha512);
    suite_agg_custom!(frost_ed25519::aggregate_custom);
    fn third_party_verify(vk: &[u8], msg: &[u8], sig: &[u8]) -> Option<bool> {
        let vk: [u8; 32] = vk.try_into().ok()?;
        let sig: [u8; 64] = sig.try_into().ok()?;
        let key = match ed25519_dalek::VerifyingKey::from_bytes(&vk) {
            Ok(k) => k,
            Err(_) => return Some(false),
        };
        let sig = ed25519_dalek::Signature::from_bytes(&sig);
        Some(key.verify_strict(msg, &sig).is_ok())
    }
}
impl Suite for frost_secp256k1::Secp256K1Sha256 {
    const NAME: &'static str = "secp256k1";
    suite_wrappers!(frost_secp256k1, frost_secp256k1::Secp256K1Sha256);
    suite_agg_custom!(frost_secp256k1::aggregate_custom);
    const COST: u32 = 2;
}
impl Suite for frost_secp256k1_tr::Secp256K1Sha256TR {
    const NAME: &'static str = "secp256k1-tr";
    suite_wrappers!(frost_secp256k1_tr, frost_secp256k1_tr::Secp256K1Sha256TR);
    suite_agg_custom!(frost::aggregate_custom);
    const IS_TR: bool = true;
    const COST: u32 = 2;
    fn third_party_verify(vk: &[u8], msg: &[u8], sig: &[u8]) -> Option<bool> {
        // vk: 33-byte compressed; BIP-340 uses the x-only key.
        if vk.len() != 33 || sig.len() != 64 {
            return Some(false);
        }
        let secp = secp256k1::Secp256k1::verification_only();
        let xonly = match secp256k1::XOnlyPublicKey::from_byte_array(vk[1..].try_into().ok()?) {
            Ok(k) => k,
            Err(_) => return Some(false),
        };
        let sig = secp256k1::schnorr::Signature::from_byte_array(sig.try_into().ok()?);
        Some(secp.verify_schnorr(&sig, msg, &xonly).is_ok())
    }
    fn dkg_post_map(sum_c0: Element<Self>, share: Scalar<Self>) -> (Element<Self>, Scalar<Self>) {
        crate::taproot::dkg_post_map(sum_c0, share)
    }
    fn sign_with_tweak(
        pkg: &frost::SigningPackage<Self>,
        nonces: &frost::round1::SigningNonces<Self>,
        kp: &frost::keys::KeyPackage<Self>,
        root: Option<&[u8]>,
    ) -> Result<frost::round2::SignatureShare<Self>, frost::Error<Self>> {
        frost_secp256k1_tr::round2::sign_with_tweak(pkg, nonces, kp, root)
    }
    fn aggregate_with_tweak(
        pkg: &frost::SigningPackage<Self>,
        shares: &std::collections::BTreeMap<Identifier<Self>, frost::round2::SignatureShare<Self>>,
        pk: &frost::keys::PublicKeyPackage<Self>,
        root: Option<&[u8]>,
    ) -> Result<frost::Signature<Self>, frost::Error<Self>> {
        frost_secp256k1_tr::aggregate_with_tweak(pkg, shares, pk, root)
    }
    fn harness_bip340_pair(p: &mut crate::prng::Prng, msg: &[u8]) -> Option<(frost::VerifyingKey<Self>, frost::Signature<Self>, frost::Signature<Self>)> {
        let d0 = sc_random_nonzero::<Self>(p);
        let k0 = sc_random_nonzero::<Self>(p);
        let (good, mirror) = crate::taproot::bip340_sign_pair(d0, k0, msg);
        let vk = vkey_from_element::<Self>(&base::<Self>(d0))?;
        Some((vk, frost::Signature::<Self>::deserialize(&good).ok()?, frost::Signature::<Self>::deserialize(&mirror).ok()?))
    }
    fn tweak_pk(pk: frost::keys::PublicKeyPackage<Self>, root: Option<&[u8]>) -> frost::keys::PublicKeyPackage<Self> {
        use frost_secp256k1_tr::keys::Tweak;
        pk.tweak(root)
    }
    fn tweak_kp(kp: frost::keys::KeyPackage<Self>, root: Option<&[u8]>) -> frost::keys::KeyPackage<Self> {
        use frost_secp256k1_tr::keys::Tweak;
        kp.tweak(root)
    }
    fn normalised_pk(pk: frost::keys::PublicKeyPackage<Self>) -> frost::keys::PublicKeyPackage<Self> {
        use frost_secp256k1_tr::keys::EvenY;
        pk.into_even_y(None)
    }
}
impl Suite for frost_p256::P256Sha256 {
    const NAME: &'static str = "p256";
    suite_wrappers!(frost_p256, frost_p256::P256Sha256);
    suite_agg_custom!(frost_p256::aggregate_custom);
    const COST: u32 = 3;
}
impl Suite for frost_ed448::Ed448Shake256 {
    const NAME: &'static str = "ed448";
    suite_wrappers!(frost_ed448, frost_ed448::Ed448Shake256);
    suite_agg_custom!(frost_ed448::aggregate_custom);
    const COST: u32 = 9;
}

/// `dispatch!(suite_name, function::<_>(args))`: call a `fn f<C: Suite>(..)` for the named suite.
#[macro_export]
macro_rules! dispatch {
    ($name:expr, $f:ident ( $($a:expr),* )) => {
        match $name {
            "ristretto255" => $f::<frost_ristretto255::Ristretto255Sha512>($($a),*),
            "ed25519" => $f::<frost_ed25519::Ed25519Sha512>($($a),*),
            "secp256k1" => $f::<frost_secp256k1::Secp256K1Sha256>($($a),*),
            "secp256k1-tr" => $f::<frost_secp256k1_tr::Secp256K1Sha256TR>($($a),*),
            "p256" => $f::<frost_p256::P256Sha256>($($a),*),
            "ed448" => $f::<frost_ed448::Ed448Shake256>($($a),*),
            other => panic!("unknown suite {other}"),
        }
    };
}

// ---------------------------------------------------------------------------------------------
// scalar / element helpers (public routes only)

pub type F<C> = <<C as Ciphersuite>::Group as Group>::Field;
pub type G<C> = <C as Ciphersuite>::Group;

pub fn zero<C: Ciphersuite>() -> Scalar<C> {
    F::<C>::zero()
}
pub fn one<C: Ciphersuite>() -> Scalar<C> {
    F::<C>::one()
}
pub fn neg<C: Ciphersuite>(s: Scalar<C>) -> Scalar<C> {
    zero::<C>() - s
}
pub fn sc_from_u64<C: Ciphersuite>(n: u64) -> Scalar<C> {
    let mut acc = zero::<C>();
    let one = one::<C>();
    for i in (0..64).rev() {
        acc = acc + acc;
        if (n >> i) & 1 == 1 {
            acc = acc + one;
        }
    }
    acc
}
pub fn sc_bytes<C: Ciphersuite>(s: &Scalar<C>) -> Vec<u8> {
    F::<C>::serialize(s).as_ref().to_vec()
}
pub fn sc_len<C: Ciphersuite>() -> usize {
    sc_bytes::<C>(&zero::<C>()).len()
}
pub fn el_len<C: Ciphersuite>() -> usize {
    el_bytes::<C>(&G::<C>::generator()).unwrap().len()
}
pub fn sc_from_bytes<C: Ciphersuite>(b: &[u8]) -> Option<Scalar<C>> {
    let ser: <F<C> as Field>::Serialization = b.try_into().ok()?;
    F::<C>::deserialize(&ser).ok()
}
pub fn el_bytes<C: Ciphersuite>(e: &Element<C>) -> Option<Vec<u8>> {
    G::<C>::serialize(e).ok().map(|s| s.as_ref().to_vec())
}
pub fn el_from_bytes<C: Ciphersuite>(b: &[u8]) -> Option<Element<C>> {
    let ser: <G<C> as Group>::Serialization = b.try_into().ok()?;
    G::<C>::deserialize(&ser).ok()
}
pub fn base<C: Ciphersuite>(s: Scalar<C>) -> Element<C> {
    G::<C>::generator() * s
}
pub fn is_identity<C: Ciphersuite>(e: &Element<C>) -> bool {
    *e == G::<C>::identity()
}
/// A uniformly random scalar drawn through the suite's own `Field::random` from a harness stream.
pub fn sc_random<C: Ciphersuite>(p: &mut Prng) -> Scalar<C> {
    let mut r = SimRng::good(p.clone());
    let s = F::<C>::random(&mut r);
    // advance the caller's stream so successive calls differ
    p.next_u64();
    s
}
pub fn sc_random_nonzero<C: Ciphersuite>(p: &mut Prng) -> Scalar<C> {
    loop {
        let s = sc_random::<C>(p);
        if s != zero::<C>() {
            return s;
        }
    }
}

pub fn id_scalar<C: Ciphersuite>(id: &Identifier<C>) -> Scalar<C> {
    sc_from_bytes::<C>(&id.serialize()).expect("identifier encodes a canonical scalar")
}
pub fn id_from_scalar<C: Ciphersuite>(s: &Scalar<C>) -> Option<Identifier<C>> {
    Identifier::<C>::deserialize(&sc_bytes::<C>(s)).ok()
}
pub fn share_scalar<C: Ciphersuite>(s: &frost::keys::SigningShare<C>) -> Scalar<C> {
    sc_from_bytes::<C>(&s.serialize()).expect("signing share encodes a canonical scalar")
}
pub fn share_from_scalar<C: Ciphersuite>(s: &Scalar<C>) -> frost::keys::SigningShare<C> {
    frost::keys::SigningShare::<C>::deserialize(&sc_bytes::<C>(s)).expect("canonical scalar")
}
pub fn sigshare_scalar<C: Ciphersuite>(s: &frost::round2::SignatureShare<C>) -> Scalar<C> {
    sc_from_bytes::<C>(&s.serialize()).expect("signature share encodes a canonical scalar")
}
pub fn sigshare_from_scalar<C: Ciphersuite>(s: &Scalar<C>) -> frost::round2::SignatureShare<C> {
    frost::round2::SignatureShare::<C>::deserialize(&sc_bytes::<C>(s)).expect("canonical scalar")
}
pub fn vshare_element<C: Ciphersuite>(v: &frost::keys::VerifyingShare<C>) -> Element<C> {
    el_from_bytes::<C>(&v.serialize().expect("non-identity")).expect("canonical element")
}
pub fn vkey_element<C: Ciphersuite>(v: &frost::VerifyingKey<C>) -> Element<C> {
    el_from_bytes::<C>(&v.serialize().expect("non-identity")).expect("canonical element")
}
pub fn vkey_from_element<C: Ciphersuite>(e: &Element<C>) -> Option<frost::VerifyingKey<C>> {
    frost::VerifyingKey::<C>::deserialize(&el_bytes::<C>(e)?).ok()
}
pub fn vshare_from_element<C: Ciphersuite>(e: &Element<C>) -> Option<frost::keys::VerifyingShare<C>> {
    frost::keys::VerifyingShare::<C>::deserialize(&el_bytes::<C>(e)?).ok()
}

// ---------------------------------------------------------------------------------------------
// polynomials

/// Evaluate sum_k coeffs[k] * x^k (constant term first), term by term (not Horner, on purpose:
/// a different algorithm from the library's).
pub fn poly_eval<C: Ciphersuite>(coeffs: &[Scalar<C>], x: Scalar<C>) -> Scalar<C> {
    let mut acc = zero::<C>();
    let mut xp = one::<C>();
    for c in coeffs {
        acc = acc + (*c * xp);
        xp = xp * x;
    }
    acc
}

/// Lagrange basis coefficient l_i(x) over the points `xs` (xs[i] is the own point).
pub fn lagrange<C: Ciphersuite>(xs: &[Scalar<C>], i: usize, x: Scalar<C>) -> Option<Scalar<C>> {
    let mut num = one::<C>();
    let mut den = one::<C>();
    for (j, xj) in xs.iter().enumerate() {
        if j == i {
            continue;
        }
        num = num * (x - *xj);
        den = den * (xs[i] - *xj);
    }
    let inv = F::<C>::invert(&den).ok()?;
    Some(num * inv)
}

/// Interpolate the polynomial through (xs, ys) and evaluate at x.
pub fn interpolate<C: Ciphersuite>(xs: &[Scalar<C>], ys: &[Scalar<C>], x: Scalar<C>) -> Option<Scalar<C>> {
    let mut acc = zero::<C>();
    for i in 0..xs.len() {
        acc = acc + lagrange::<C>(xs, i, x)? * ys[i];
    }
    Some(acc)
}

/// sum_k C_k * x^k over group elements.
pub fn commit_eval<C: Ciphersuite>(comm: &[Element<C>], x: Scalar<C>) -> Element<C> {
    let mut acc = G::<C>::identity();
    let mut xp = one::<C>();
    for c in comm {
        acc = acc + (*c * xp);
        xp = xp * x;
    }
    acc
}

pub fn hexs(b: &[u8]) -> String {
    hex::encode(b)
}
