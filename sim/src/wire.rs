//! Everything that crosses a node boundary or a restart is *bytes*: the library's own binary
//! `serialize()/deserialize()` entry points, or serde_json.

use frost_core::{self as frost, Ciphersuite};
use serde::{Deserialize, Serialize};

#[derive(Clone, Copy, Debug, PartialEq, Eq, Serialize, Deserialize)]
pub enum Fmt {
    Bin,
    Json,
}

pub trait Wire: Sized + serde::Serialize + serde::de::DeserializeOwned {
    const TYPE: &'static str;
    fn to_bin(&self) -> Result<Vec<u8>, String>;
    fn from_bin(b: &[u8]) -> Result<Self, String>;
}

macro_rules! wire_result {
    ($ty:ty, $name:expr) => {
        impl<C: Ciphersuite> Wire for $ty {
            const TYPE: &'static str = $name;
            fn to_bin(&self) -> Result<Vec<u8>, String> {
                self.serialize().map_err(|e| format!("{e:?}"))
            }
            fn from_bin(b: &[u8]) -> Result<Self, String> {
                <$ty>::deserialize(b).map_err(|e| format!("{e:?}"))
            }
        }
    };
}
macro_rules! wire_plain {
    ($ty:ty, $name:expr) => {
        impl<C: Ciphersuite> Wire for $ty {
            const TYPE: &'static str = $name;
            fn to_bin(&self) -> Result<Vec<u8>, String> {
                Ok(self.serialize())
            }
            fn from_bin(b: &[u8]) -> Result<Self, String> {
                <$ty>::deserialize(b).map_err(|e| format!("{e:?}"))
            }
        }
    };
}

wire_result!(frost::keys::SecretShare<C>, "SecretShare");
wire_result!(frost::keys::KeyPackage<C>, "KeyPackage");
wire_result!(frost::keys::PublicKeyPackage<C>, "PublicKeyPackage");
wire_result!(frost::round1::SigningNonces<C>, "SigningNonces");
wire_result!(frost::round1::SigningCommitments<C>, "SigningCommitments");
wire_result!(frost::SigningPackage<C>, "SigningPackage");
wire_plain!(frost::round2::SignatureShare<C>, "SignatureShare");
wire_result!(frost::keys::dkg::round1::Package<C>, "dkg::round1::Package");
wire_result!(frost::keys::dkg::round1::SecretPackage<C>, "dkg::round1::SecretPackage");
wire_result!(frost::keys::dkg::round2::Package<C>, "dkg::round2::Package");
wire_result!(frost::keys::dkg::round2::SecretPackage<C>, "dkg::round2::SecretPackage");
wire_plain!(frost::keys::repairable::Delta<C>, "Delta");
wire_plain!(frost::keys::repairable::Sigma<C>, "Sigma");
wire_plain!(frost::Identifier<C>, "Identifier");
wire_plain!(frost::keys::SigningShare<C>, "SigningShare");
wire_result!(frost::keys::VerifyingShare<C>, "VerifyingShare");
wire_result!(frost::VerifyingKey<C>, "VerifyingKey");
wire_result!(frost::Signature<C>, "Signature");
wire_plain!(frost::round1::Nonce<C>, "Nonce");
wire_result!(frost::round1::NonceCommitment<C>, "NonceCommitment");
wire_result!(frost::keys::CoefficientCommitment<C>, "CoefficientCommitment");
wire_plain!(frost_rerandomized::Randomizer<C>, "Randomizer");

pub fn enc<T: Wire>(fmt: Fmt, v: &T) -> Result<Vec<u8>, String> {
    match fmt {
        Fmt::Bin => v.to_bin(),
        Fmt::Json => serde_json::to_vec(v).map_err(|e| format!("json: {e}")),
    }
}

pub fn dec<T: Wire>(fmt: Fmt, b: &[u8]) -> Result<T, String> {
    match fmt {
        Fmt::Bin => T::from_bin(b),
        Fmt::Json => {
            // a restarted node may load its state from a byte slice or from a stream (file, socket): the slice decoder can lend
            // parts of its input, the stream decoder cannot - both must accept the same documents
            let from_slice: Result<T, String> = serde_json::from_slice(b).map_err(|e| format!("json: {e}"));
            let from_reader: Result<T, String> = serde_json::from_reader(std::io::Cursor::new(b)).map_err(|e| format!("json (reader): {e}"));
            match (from_slice, from_reader) {
                (Ok(x), Ok(y)) => {
                    if serde_json::to_vec(&x).ok() != serde_json::to_vec(&y).ok() {
                        return Err("json: decoding from a slice and from a stream give different values".into());
                    }
                    Ok(x)
                }
                (Ok(_), Err(e)) => Err(format!("json: decodes from a slice but not from a stream: {e}")),
                (Err(e), Ok(_)) => Err(format!("json: decodes from a stream but not from a slice: {e}")),
                (Err(e), Err(_)) => Err(e),
            }
        }
    }
}

/// Length-prefixed framing for envelopes that carry several values (harness-defined; the frost
/// values inside are the library's own encodings).
pub fn frame(parts: &[&[u8]]) -> Vec<u8> {
    let mut out = Vec::new();
    for p in parts {
        out.extend_from_slice(&(p.len() as u32).to_le_bytes());
        out.extend_from_slice(p);
    }
    out
}

pub fn unframe(mut b: &[u8]) -> Option<Vec<Vec<u8>>> {
    let mut out = Vec::new();
    while !b.is_empty() {
        if b.len() < 4 {
            return None;
        }
        let n = u32::from_le_bytes(b[..4].try_into().ok()?) as usize;
        b = &b[4..];
        if b.len() < n {
            return None;
        }
        out.push(b[..n].to_vec());
        b = &b[n..];
    }
    Some(out)
}
