//! The allocator seam (C20): a wrapper around the system allocator that, while the CURRENT THREAD
//! is observing, scans every heap block for registered byte patterns at the instant it is
//! released - before the memory goes back to the allocator. No allocation, no PRNG, no logging
//! inside the hook.

use std::alloc::{GlobalAlloc, Layout, System};
use std::cell::Cell;

pub struct SimAlloc;

thread_local! {
    /// (pointer to K concatenated patterns, K, pattern length); null = not observing
    static PATTERNS: Cell<(*const u8, usize, usize)> = const { Cell::new((std::ptr::null(), 0, 0)) };
    static HITS: Cell<u32> = const { Cell::new(0) };
    static FREED_BLOCKS: Cell<u32> = const { Cell::new(0) };
}

fn contains(hay: &[u8], needle: &[u8]) -> bool {
    if needle.is_empty() || hay.len() < needle.len() {
        return false;
    }
    hay.windows(needle.len()).any(|w| w == needle)
}

unsafe impl GlobalAlloc for SimAlloc {
    unsafe fn alloc(&self, layout: Layout) -> *mut u8 {
        unsafe { System.alloc(layout) }
    }
    unsafe fn dealloc(&self, ptr: *mut u8, layout: Layout) {
        let _ = PATTERNS.try_with(|p| {
            let (pp, k, l) = p.get();
            if !pp.is_null() && layout.size() >= l {
                let block = unsafe { std::slice::from_raw_parts(ptr as *const u8, layout.size()) };
                let _ = FREED_BLOCKS.try_with(|f| f.set(f.get() + 1));
                for i in 0..k {
                    let pat = unsafe { std::slice::from_raw_parts(pp.add(i * l), l) };
                    if contains(block, pat) {
                        let _ = HITS.try_with(|h| h.set(h.get() + 1));
                    }
                }
            }
        });
        unsafe { System.dealloc(ptr, layout) }
    }
    unsafe fn alloc_zeroed(&self, layout: Layout) -> *mut u8 {
        unsafe { System.alloc_zeroed(layout) }
    }
    unsafe fn realloc(&self, ptr: *mut u8, layout: Layout, new_size: usize) -> *mut u8 {
        unsafe { System.realloc(ptr, layout, new_size) }
    }
}

/// Start observing on this thread. `patterns` must stay alive and unmoved until `observe_end`.
pub fn observe_begin(patterns: &[u8], count: usize, len: usize) {
    assert_eq!(patterns.len(), count * len);
    HITS.with(|h| h.set(0));
    FREED_BLOCKS.with(|h| h.set(0));
    PATTERNS.with(|p| p.set((patterns.as_ptr(), count, len)));
}

/// Stop observing; returns (blocks released that contained a pattern, blocks released and scanned).
pub fn observe_end() -> (u32, u32) {
    PATTERNS.with(|p| p.set((std::ptr::null(), 0, 0)));
    (HITS.with(|h| h.get()), FREED_BLOCKS.with(|h| h.get()))
}
