//! The only place that touches frost-core's `internals` (no SemVer promise): binding factors and the group
//! commitment of a signing package. Used for probes, parity steering, localisation diagnostics and for CONSTRUCTING one
//! adversarial input (C05's R-preserving substitution) - never for a verdict. Behind the cargo feature `diag`: if a
//! refactoring of the internals breaks this module, `check` rebuilds without it and every caller degrades gracefully.

use std::collections::BTreeMap;

use frost_core::{Identifier, SigningPackage, VerifyingKey};

use crate::suite::Suite;

pub const AVAILABLE: bool = cfg!(feature = "diag");

/// (binding factor bytes per signer, group commitment element bytes)
#[cfg(feature = "diag")]
pub fn binding<C: Suite>(pkg: &SigningPackage<C>, vk: &VerifyingKey<C>) -> Option<(BTreeMap<Identifier<C>, Vec<u8>>, Vec<u8>)> {
    let bfl = frost_core::compute_binding_factor_list(pkg, vk, &[]).ok()?;
    let mut m = BTreeMap::new();
    for id in pkg.signing_commitments().keys() {
        m.insert(*id, bfl.get(id)?.serialize());
    }
    let gc = frost_core::compute_group_commitment(pkg, &bfl).ok()?;
    let e = crate::suite::el_bytes::<C>(&gc.to_element())?;
    Some((m, e))
}

#[cfg(not(feature = "diag"))]
pub fn binding<C: Suite>(_pkg: &SigningPackage<C>, _vk: &VerifyingKey<C>) -> Option<(BTreeMap<Identifier<C>, Vec<u8>>, Vec<u8>)> {
    None
}
