mod alloc;
mod diag;
mod engine;
mod genr;
mod prng;
mod props;
mod scenario;
mod sim;
mod simrng;
mod suite;
mod taproot;
mod tr;
mod wire;

use engine::*;
use genr::Tier;

#[global_allocator]
static GLOBAL: alloc::SimAlloc = alloc::SimAlloc;

fn usage() -> ! {
    eprintln!("usage: frostsim run <ID> [--tier quick|thorough] [--seed N] [--runs N] [--jobs N] [--evidence PATH] [--verif-dir DIR] [--no-evidence]\n       frostsim replay <ID> <file> [--verif-dir DIR]\n       frostsim list");
    std::process::exit(2);
}

fn main() {
    std::panic::set_hook(Box::new(|info| {
        let s = format!("{info}");
        props::c14::LAST_PANIC.with(|l| *l.borrow_mut() = s);
    }));
    let args: Vec<String> = std::env::args().collect();
    if args.len() < 2 {
        usage();
    }
    let registry = props::registry();
    match args[1].as_str() {
        "list" => {
            for p in &registry {
                println!("{}", p.id);
            }
        }
        "run" | "replay" | "digest" => {
            if args.len() < 3 {
                usage();
            }
            let id = args[2].as_str();
            let Some(prop) = registry.iter().find(|p| p.id == id) else {
                eprintln!("unknown property {id}");
                std::process::exit(2);
            };
            let mut opt = Options {
                tier: match std::env::var("VERIF_TIER").as_deref() {
                    Ok("thorough") => Tier::Thorough,
                    _ => Tier::Quick,
                },
                seed: std::env::var("VERIF_SEED").ok().and_then(|s| s.parse().ok()).unwrap_or(20260925),
                runs: None,
                jobs: std::thread::available_parallelism().map(|n| n.get()).unwrap_or(8),
                evidence: None,
                verif_dir: "/verif".into(),
                max_wall_s: 0,
                write_evidence: true,
                no_ref: false,
                scale: 1.0,
                profile_tag: if cfg!(debug_assertions) { "dev".into() } else { "nodebug".into() },
            };
            let mut file: Option<String> = None;
            let mut i = 3;
            let mut tier_explicit = false;
            while i < args.len() {
                let a = args[i].as_str();
                let mut val = || {
                    i += 1;
                    args.get(i).cloned().unwrap_or_else(|| usage())
                };
                match a {
                    "--tier" => {
                        opt.tier = match val().as_str() {
                            "quick" => Tier::Quick,
                            "thorough" => Tier::Thorough,
                            _ => usage(),
                        };
                        tier_explicit = true;
                    }
                    "--seed" => opt.seed = val().parse().unwrap_or_else(|_| usage()),
                    "--runs" => opt.runs = Some(val().parse().unwrap_or_else(|_| usage())),
                    "--jobs" => opt.jobs = val().parse().unwrap_or_else(|_| usage()),
                    "--evidence" => opt.evidence = Some(val()),
                    "--verif-dir" => opt.verif_dir = val(),
                    "--no-evidence" => opt.write_evidence = false,
                    "--no-ref" => opt.no_ref = true,
                    "--scale" => opt.scale = val().parse().unwrap_or_else(|_| usage()),
                    "--max-wall" => opt.max_wall_s = val().parse().unwrap_or_else(|_| usage()),
                    other if !other.starts_with("--") && file.is_none() => file = Some(other.to_string()),
                    _ => usage(),
                }
                i += 1;
            }
            let _ = tier_explicit;
            if opt.max_wall_s == 0 {
                opt.max_wall_s = match opt.tier {
                    Tier::Quick => 900,
                    Tier::Thorough => 4 * 3600,
                };
            }
            // read by lazily initialised tables (before any worker thread exists)
            unsafe { std::env::set_var("FROSTSIM_VERIF_DIR", &opt.verif_dir) };
            let code = if args[1] == "run" {
                run_property(prop, &opt)
            } else if args[1] == "digest" {
                // one run, alone in a fresh process: what the engine compares its in-batch result with
                // argument: a run index, or a replay file (its scenario is executed as it stands)
                let Some(f) = file.as_deref() else { usage() };
                match f.parse::<u64>() {
                    Ok(r) => digest_of_run(prop, &opt, r),
                    Err(_) => digest_of_file(prop, f),
                }
            } else {
                let Some(f) = file else { usage() };
                replay(prop, &f, &opt.verif_dir)
            };
            std::process::exit(code);
        }
        _ => usage(),
    }
}
