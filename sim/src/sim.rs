//! The deterministic simulator: participant nodes, a hub (coordinator + dealer), a simulated
//! network with explicit faults, per-node durable stores, crash/restart, and the thin application
//! glue a real deployment writes around the (sans-IO) library. All protocol work is done by the
//! REAL library functions; transport, storage, glue and randomness are the stubs.

use std::collections::{BTreeMap, BTreeSet};
use std::panic::{AssertUnwindSafe, catch_unwind};

use frost_core::keys::dkg;
use frost_core::keys::repairable::{self, Delta, Sigma};
use frost_core::keys::{self, IdentifierList, KeyPackage, PublicKeyPackage, SecretShare};
use frost_core::round1::{SigningCommitments, SigningNonces};
use frost_core::round2::SignatureShare;
use frost_core::{self as frost, Identifier, Scalar, Signature, SigningPackage};
use frost_rerandomized::RandomizedParams;

use crate::prng::{Digest, Prng, stream};
use crate::scenario::*;
use crate::simrng::SimRng;
use crate::suite::*;
use crate::wire::*;

pub type Store = BTreeMap<String, Vec<u8>>;

#[derive(Clone, Debug)]
pub struct Envelope {
    pub seq: u64,
    pub inst: u32,
    pub kind: Kind,
    pub from: usize,
    pub to: usize,
    pub bytes: Vec<u8>,
    pub is_copy: bool,
    pub not_before: u64,
}

impl Envelope {
    pub fn mref(&self) -> MsgRef {
        MsgRef { inst: self.inst, kind: self.kind, from: self.from, to: self.to }
    }
}

/// Facts recorded for the oracles (the "history").
pub enum Record<C: Suite> {
    LibError { node: usize, inst: u32, call: &'static str, err: String },
    Panic { node: usize, inst: u32, what: String },
    DealerOut { inst: u32, shares: BTreeMap<Identifier<C>, SecretShare<C>>, pk: PublicKeyPackage<C>, key: Option<Scalar<C>> },
    KeyPackage { node: usize, inst: u32, kp: KeyPackage<C> },
    DkgPart1 { node: usize, inst: u32, secret_json: String, pkg: dkg::round1::Package<C> },
    DkgDone { node: usize, inst: u32, kp: KeyPackage<C>, pk: PublicKeyPackage<C> },
    Commit { node: usize, inst: u32, rng_out: Vec<u8>, draws: Vec<(usize, usize)>, nonces: SigningNonces<C>, commitments: SigningCommitments<C>, share: keys::SigningShare<C> },
    Share { node: usize, inst: u32, share: SignatureShare<C>, kp: KeyPackage<C> },
    Session {
        inst: u32,
        package: SigningPackage<C>,
        shares: BTreeMap<Identifier<C>, SignatureShare<C>>,
        pk: PublicKeyPackage<C>,
        seed: Option<Vec<u8>>,
        params: Option<RandomizedParams<C>>,
        result: Result<Signature<C>, frost::Error<C>>,
    },
    RefreshDealerOut { inst: u32, old_pk: PublicKeyPackage<C>, new_pk: PublicKeyPackage<C> },
    Refreshed { node: usize, inst: u32, old_kp: KeyPackage<C>, new_kp: KeyPackage<C>, new_pk: Option<PublicKeyPackage<C>> },
    RepairDeltas { node: usize, inst: u32, deltas: BTreeMap<Identifier<C>, Delta<C>>, kp: KeyPackage<C> },
    Repaired { node: usize, inst: u32, kp: KeyPackage<C>, lost: Option<KeyPackage<C>> },
    HubPkMismatch { inst: u32, from: usize },
}

pub struct DkgState<C: Suite> {
    pub r1_secret: Option<dkg::round1::SecretPackage<C>>,
    pub r1_own: Option<dkg::round1::Package<C>>,
    pub r1_in: BTreeMap<Identifier<C>, dkg::round1::Package<C>>,
    pub r2_secret: Option<dkg::round2::SecretPackage<C>>,
    pub r2_in: BTreeMap<Identifier<C>, dkg::round2::Package<C>>,
    pub done: bool,
}

pub struct RepairState<C: Suite> {
    pub deltas_in: Vec<(usize, Delta<C>)>,
    pub own_done: bool,
    pub sigma_sent: bool,
    pub sigmas_in: Vec<(usize, Sigma<C>)>,
    pub pk: Option<PublicKeyPackage<C>>,
    pub done: bool,
}

impl<C: Suite> Default for DkgState<C> {
    fn default() -> Self {
        DkgState { r1_secret: None, r1_own: None, r1_in: BTreeMap::new(), r2_secret: None, r2_in: BTreeMap::new(), done: false }
    }
}
impl<C: Suite> Default for RepairState<C> {
    fn default() -> Self {
        RepairState { deltas_in: Vec::new(), own_done: false, sigma_sent: false, sigmas_in: Vec::new(), pk: None, done: false }
    }
}
impl<C: Suite> Default for Session<C> {
    fn default() -> Self {
        Session { commitments: BTreeMap::new(), package: None, seed: None, shares: BTreeMap::new(), done: false }
    }
}

pub struct PState<C: Suite> {
    pub kp: Option<KeyPackage<C>>,
    pub pk: Option<PublicKeyPackage<C>>,
    /// a share treated as lost (repair target): kept aside only for the oracle, never used
    pub dkg: BTreeMap<u32, DkgState<C>>,
    pub nonces: BTreeMap<u32, SigningNonces<C>>,
    pub signed: BTreeMap<u32, SignatureShare<C>>,
    pub repair: BTreeMap<u32, RepairState<C>>,
    pub refreshed: BTreeSet<u32>,
    pub pk_inst: Option<u32>,
}

impl<C: Suite> Default for PState<C> {
    fn default() -> Self {
        PState {
            kp: None,
            pk: None,
            dkg: BTreeMap::new(),
            nonces: BTreeMap::new(),
            signed: BTreeMap::new(),
            repair: BTreeMap::new(),
            refreshed: BTreeSet::new(),
            pk_inst: None,
        }
    }
}

fn put<T: Wire>(s: &mut Store, fmt: Fmt, key: String, v: &T) -> Result<(), String> {
    s.insert(key, enc(fmt, v).map_err(|e| format!("encode {}: {e}", T::TYPE))?);
    Ok(())
}
fn get<T: Wire>(s: &Store, fmt: Fmt, key: &str) -> Result<Option<T>, String> {
    match s.get(key) {
        None => Ok(None),
        Some(b) => dec::<T>(fmt, b).map(Some).map_err(|e| format!("decode {} at {key}: {e}", T::TYPE)),
    }
}
fn idhex<C: Suite>(id: &Identifier<C>) -> String {
    hexs(&id.serialize())
}
fn id_from_hex<C: Suite>(h: &str) -> Result<Identifier<C>, String> {
    let b = hex::decode(h).map_err(|e| e.to_string())?;
    Identifier::<C>::deserialize(&b).map_err(|e| format!("{e:?}"))
}

impl<C: Suite> PState<C> {
    pub fn save(&self, fmt: Fmt) -> Result<Store, String> {
        let mut s = Store::new();
        if let Some(kp) = &self.kp {
            put(&mut s, fmt, "kp".into(), kp)?;
        }
        if let Some(pk) = &self.pk {
            put(&mut s, fmt, "pk".into(), pk)?;
        }
        if let Some(i) = self.pk_inst {
            s.insert("pk_inst".into(), i.to_le_bytes().to_vec());
        }
        for (inst, d) in &self.dkg {
            let p = format!("dkg/{inst}/");
            if let Some(v) = &d.r1_secret {
                put(&mut s, fmt, format!("{p}r1s"), v)?;
            }
            if let Some(v) = &d.r1_own {
                put(&mut s, fmt, format!("{p}r1o"), v)?;
            }
            for (id, v) in &d.r1_in {
                put(&mut s, fmt, format!("{p}r1i/{}", idhex(id)), v)?;
            }
            if let Some(v) = &d.r2_secret {
                put(&mut s, fmt, format!("{p}r2s"), v)?;
            }
            for (id, v) in &d.r2_in {
                put(&mut s, fmt, format!("{p}r2i/{}", idhex(id)), v)?;
            }
            s.insert(format!("{p}flags"), vec![d.done as u8]);
        }
        for (inst, v) in &self.nonces {
            put(&mut s, fmt, format!("nonce/{inst}"), v)?;
        }
        for (inst, v) in &self.signed {
            put(&mut s, fmt, format!("signed/{inst}"), v)?;
        }
        for (inst, r) in &self.repair {
            let p = format!("rep/{inst}/");
            for (k, (from, d)) in r.deltas_in.iter().enumerate() {
                put(&mut s, fmt, format!("{p}d/{k:04}/{from}"), d)?;
            }
            for (k, (from, d)) in r.sigmas_in.iter().enumerate() {
                put(&mut s, fmt, format!("{p}s/{k:04}/{from}"), d)?;
            }
            if let Some(pk) = &r.pk {
                put(&mut s, fmt, format!("{p}pk"), pk)?;
            }
            s.insert(format!("{p}flags"), vec![r.own_done as u8, r.sigma_sent as u8, r.done as u8]);
        }
        for inst in &self.refreshed {
            s.insert(format!("refreshed/{inst}"), vec![1]);
        }
        Ok(s)
    }

    pub fn load(s: &Store, fmt: Fmt) -> Result<Self, String> {
        let mut st = PState::<C>::default();
        st.kp = get(s, fmt, "kp")?;
        st.pk = get(s, fmt, "pk")?;
        if let Some(b) = s.get("pk_inst") {
            st.pk_inst = Some(u32::from_le_bytes(b[..4].try_into().unwrap()));
        }
        for (k, v) in s {
            let parts: Vec<&str> = k.split('/').collect();
            match parts.as_slice() {
                ["dkg", inst, rest @ ..] => {
                    let inst: u32 = inst.parse().map_err(|_| "bad key")?;
                    let d = st.dkg.entry(inst).or_default();
                    match rest {
                        ["r1s"] => d.r1_secret = Some(dec(fmt, v).map_err(|e| format!("decode dkg::round1::SecretPackage: {e}"))?),
                        ["r1o"] => d.r1_own = Some(dec(fmt, v).map_err(|e| format!("decode dkg::round1::Package: {e}"))?),
                        ["r1i", id] => {
                            d.r1_in.insert(id_from_hex::<C>(id)?, dec(fmt, v).map_err(|e| format!("decode dkg::round1::Package: {e}"))?);
                        }
                        ["r2s"] => d.r2_secret = Some(dec(fmt, v).map_err(|e| format!("decode dkg::round2::SecretPackage: {e}"))?),
                        ["r2i", id] => {
                            d.r2_in.insert(id_from_hex::<C>(id)?, dec(fmt, v).map_err(|e| format!("decode dkg::round2::Package: {e}"))?);
                        }
                        ["flags"] => d.done = v[0] != 0,
                        _ => return Err(format!("unknown store key {k}")),
                    }
                }
                ["nonce", inst] => {
                    st.nonces.insert(inst.parse().map_err(|_| "bad key")?, dec(fmt, v).map_err(|e| format!("decode SigningNonces: {e}"))?);
                }
                ["signed", inst] => {
                    st.signed.insert(inst.parse().map_err(|_| "bad key")?, dec(fmt, v).map_err(|e| format!("decode SignatureShare: {e}"))?);
                }
                ["rep", inst, rest @ ..] => {
                    let inst: u32 = inst.parse().map_err(|_| "bad key")?;
                    let r = st.repair.entry(inst).or_default();
                    match rest {
                        // BTreeMap iteration is in key order, and the order index is zero-padded
                        ["d", _k, from] => r.deltas_in.push((from.parse().map_err(|_| "bad key")?, dec(fmt, v).map_err(|e| format!("decode Delta: {e}"))?)),
                        ["s", _k, from] => r.sigmas_in.push((from.parse().map_err(|_| "bad key")?, dec(fmt, v).map_err(|e| format!("decode Sigma: {e}"))?)),
                        ["pk"] => r.pk = Some(dec(fmt, v).map_err(|e| format!("decode PublicKeyPackage: {e}"))?),
                        ["flags"] => {
                            r.own_done = v[0] != 0;
                            r.sigma_sent = v[1] != 0;
                            r.done = v[2] != 0;
                        }
                        _ => return Err(format!("unknown store key {k}")),
                    }
                }
                ["refreshed", inst] => {
                    st.refreshed.insert(inst.parse().map_err(|_| "bad key")?);
                }
                ["kp"] | ["pk"] | ["pk_inst"] => {}
                _ => return Err(format!("unknown store key {k}")),
            }
        }
        Ok(st)
    }
}

pub struct Session<C: Suite> {
    pub commitments: BTreeMap<Identifier<C>, SigningCommitments<C>>,
    pub package: Option<SigningPackage<C>>,
    pub seed: Option<Vec<u8>>,
    pub shares: BTreeMap<Identifier<C>, SignatureShare<C>>,
    pub done: bool,
}

pub struct HState<C: Suite> {
    pub pk: Option<PublicKeyPackage<C>>,
    pub pk_from: BTreeMap<u32, BTreeSet<usize>>,
    pub pk_by_inst: BTreeMap<u32, PublicKeyPackage<C>>,
    pub sessions: BTreeMap<u32, Session<C>>,
    pub started: BTreeSet<u32>,
}

impl<C: Suite> Default for HState<C> {
    fn default() -> Self {
        HState { pk: None, pk_from: BTreeMap::new(), pk_by_inst: BTreeMap::new(), sessions: BTreeMap::new(), started: BTreeSet::new() }
    }
}

impl<C: Suite> HState<C> {
    pub fn save(&self, fmt: Fmt) -> Result<Store, String> {
        let mut s = Store::new();
        if let Some(pk) = &self.pk {
            put(&mut s, fmt, "pk".into(), pk)?;
        }
        for (inst, from) in &self.pk_from {
            for f in from {
                s.insert(format!("pkfrom/{inst}/{f}"), vec![1]);
            }
        }
        for i in &self.started {
            s.insert(format!("started/{i}"), vec![1]);
        }
        for (inst, pk) in &self.pk_by_inst {
            put(&mut s, fmt, format!("pkinst/{inst}"), pk)?;
        }
        for (inst, se) in &self.sessions {
            let p = format!("sess/{inst}/");
            for (id, c) in &se.commitments {
                put(&mut s, fmt, format!("{p}c/{}", idhex(id)), c)?;
            }
            if let Some(pkg) = &se.package {
                put(&mut s, fmt, format!("{p}pkg"), pkg)?;
            }
            if let Some(seed) = &se.seed {
                s.insert(format!("{p}seed"), seed.clone());
            }
            for (id, c) in &se.shares {
                put(&mut s, fmt, format!("{p}z/{}", idhex(id)), c)?;
            }
            s.insert(format!("{p}flags"), vec![se.done as u8]);
        }
        Ok(s)
    }
    pub fn load(s: &Store, fmt: Fmt) -> Result<Self, String> {
        let mut st = HState::<C>::default();
        st.pk = get(s, fmt, "pk")?;
        for (k, v) in s {
            let parts: Vec<&str> = k.split('/').collect();
            match parts.as_slice() {
                ["pk"] => {}
                ["pkfrom", inst, f] => {
                    st.pk_from.entry(inst.parse().map_err(|_| "bad key")?).or_default().insert(f.parse().map_err(|_| "bad key")?);
                }
                ["started", i] => {
                    st.started.insert(i.parse().map_err(|_| "bad key")?);
                }
                ["pkinst", i] => {
                    st.pk_by_inst.insert(i.parse().map_err(|_| "bad key")?, dec(fmt, v).map_err(|e| format!("decode PublicKeyPackage: {e}"))?);
                }
                ["sess", inst, rest @ ..] => {
                    let se = st.sessions.entry(inst.parse().map_err(|_| "bad key")?).or_default();
                    match rest {
                        ["c", id] => {
                            se.commitments.insert(id_from_hex::<C>(id)?, dec(fmt, v).map_err(|e| format!("decode SigningCommitments: {e}"))?);
                        }
                        ["pkg"] => se.package = Some(dec(fmt, v).map_err(|e| format!("decode SigningPackage: {e}"))?),
                        ["seed"] => se.seed = Some(v.clone()),
                        ["z", id] => {
                            se.shares.insert(id_from_hex::<C>(id)?, dec(fmt, v).map_err(|e| format!("decode SignatureShare: {e}"))?);
                        }
                        ["flags"] => se.done = v[0] != 0,
                        _ => return Err(format!("unknown store key {k}")),
                    }
                }
                _ => return Err(format!("unknown store key {k}")),
            }
        }
        Ok(st)
    }
}

#[derive(Default, Clone, Debug)]
pub struct Stats {
    pub steps: u64,
    pub delivered: u64,
    pub sent: u64,
    pub faults_fired: BTreeMap<&'static str, u64>,
    pub restarts: u64,
    pub max_inflight: usize,
    pub reordered: u64,
}

pub struct Sim<C: Suite> {
    pub scen: Scenario,
    pub ids: Vec<Identifier<C>>,
    pub parts: Vec<Option<PState<C>>>,
    pub hub: Option<HState<C>>,
    pub stores: Vec<Store>,
    pub restart_at: Vec<Option<u64>>,
    pub inflight: Vec<Envelope>,
    pub lost: Vec<(u64, Envelope)>,
    pub partitions: Vec<(BTreeSet<usize>, u64)>,
    pub pending_starts: Vec<(u32, usize)>,
    pub faults_left: Vec<Fault>,
    pub step: u64,
    pub seq: u64,
    pub sched: Prng,
    pub log: Digest,
    pub stats: Stats,
    pub history: Vec<Record<C>>,
    /// first-sent bytes of every logical message (twin-run comparison)
    pub sent: BTreeMap<(u32, Kind, usize, usize), Vec<u8>>,
    pub resend_mismatch: Vec<MsgRef>,
    /// harness-chosen key for split()
    pub split_key: Option<Scalar<C>>,
    /// shares set aside as "lost" for repair targets: (node -> key package)
    pub lost_kp: BTreeMap<usize, KeyPackage<C>>,
    /// force every node through serialize -> drop -> deserialize after every transition
    pub always_reload: bool,
    pub verbose: bool,
}

pub fn parse_ids<C: Suite>(scen: &Scenario) -> Result<Vec<Identifier<C>>, String> {
    scen.ids_hex.iter().map(|h| id_from_hex::<C>(h)).collect()
}

impl<C: Suite> Sim<C> {
    pub fn new(scen: &Scenario) -> Result<Self, String> {
        let ids = parse_ids::<C>(scen)?;
        if ids.len() != scen.np() {
            return Err("ids_hex length != n + spares".into());
        }
        let np = scen.np();
        let mut key_stream = stream(scen.seed, scen.run, "keygen/key");
        let mut split_key = Some(sc_random_nonzero::<C>(&mut key_stream));
        // a scenario may pin the key to be split (parity steering in C18)
        if let Some(h) = scen.extra.get("split_key_hex").and_then(|v| v.as_str()) {
            if let Some(k) = hex::decode(h).ok().and_then(|b| sc_from_bytes::<C>(&b)) {
                split_key = Some(k);
            }
        }
        Ok(Sim {
            scen: scen.clone(),
            ids,
            parts: (0..np).map(|_| Some(PState::default())).collect(),
            hub: Some(HState::default()),
            stores: vec![Store::new(); np + 1],
            restart_at: vec![None; np + 1],
            inflight: Vec::new(),
            lost: Vec::new(),
            partitions: Vec::new(),
            pending_starts: Vec::new(),
            faults_left: scen.faults.clone(),
            step: 0,
            seq: 0,
            sched: stream(scen.seed, scen.run, "sched"),
            log: Digest::default(),
            stats: {
                let mut st = Stats::default();
                // the random-source fault "cloned generator state" is in force for the whole run
                if let Some(m) = scen.extra.get("rng_alias").and_then(|m| m.as_object()) {
                    *st.faults_fired.entry("rng_state_cloned").or_default() += m.len() as u64;
                }
                st
            },
            history: Vec::new(),
            sent: BTreeMap::new(),
            resend_mismatch: Vec::new(),
            split_key,
            lost_kp: BTreeMap::new(),
            always_reload: false,
            verbose: false,
        })
    }

    fn hub_idx(&self) -> usize {
        self.scen.hub()
    }

    fn rng(&self, node: usize, inst: u32, site: &str) -> SimRng {
        // random-source fault "cloned generator state" (two machines restored from one snapshot): a node listed in
        // extra.rng_alias draws exactly what the node it is aliased to draws
        let node = self.scen.extra.get("rng_alias").and_then(|m| m.get(node.to_string())).and_then(|v| v.as_u64()).map(|v| v as usize).unwrap_or(node);
        SimRng::good(stream(self.scen.seed, self.scen.run, &format!("node{node}/inst{inst}/{site}")))
    }

    fn send(&mut self, inst: u32, kind: Kind, from: usize, to: usize, bytes: Vec<u8>) {
        let key = (inst, kind, from, to);
        match self.sent.get(&key) {
            None => {
                self.sent.insert(key, bytes.clone());
            }
            Some(prev) => {
                if *prev != bytes {
                    self.resend_mismatch.push(MsgRef { inst, kind, from, to });
                }
            }
        }
        self.seq += 1;
        let mut env = Envelope { seq: self.seq, inst, kind, from, to, bytes, is_copy: false, not_before: 0 };
        // Hold faults apply at send time
        let mr = env.mref();
        if let Some(pos) = self.faults_left.iter().position(|f| matches!(f, Fault::Hold(m, _) if *m == mr)) {
            if let Fault::Hold(_, steps) = self.faults_left.remove(pos) {
                env.not_before = self.step + steps as u64;
                *self.stats.faults_fired.entry("hold").or_default() += 1;
            }
        }
        self.log.add_str(&format!("send {:?} i{} {}->{} {}", kind, inst, from, to, hexs(&env.bytes)));
        self.stats.sent += 1;
        self.inflight.push(env);
        self.stats.max_inflight = self.stats.max_inflight.max(self.inflight.len());
    }

    fn err(&mut self, node: usize, inst: u32, call: &'static str, err: String) {
        self.log.add_str(&format!("liberror n{node} i{inst} {call} {err}"));
        self.history.push(Record::LibError { node, inst, call, err });
    }

    fn blocked(&self, a: usize, b: usize) -> bool {
        self.partitions.iter().any(|(set, until)| self.step < *until && (set.contains(&a) != set.contains(&b)))
    }

    fn is_up(&self, node: usize) -> bool {
        self.restart_at[node].is_none()
    }

    /// Run one phase to quiescence. Returns Err on a harness-level problem (not a property verdict).
    pub fn run_phase(&mut self, phase: usize) -> Result<(), String> {
        let range = self.scen.phase_range(phase);
        for inst in range.clone() {
            let def = self.scen.inst(inst).unwrap().clone();
            match def {
                Inst::DealerKeygen { .. } | Inst::Sign { .. } | Inst::RefreshDealer { .. } | Inst::Repair { .. } => {
                    self.pending_starts.push((inst, self.hub_idx()));
                }
                Inst::Dkg => {
                    for p in 0..self.scen.n as usize {
                        self.pending_starts.push((inst, p));
                    }
                }
                Inst::RefreshDkg { remaining } => {
                    for p in remaining {
                        self.pending_starts.push((inst, p));
                    }
                }
            }
        }
        let cap = 400 + 40 * (self.scen.np() as u64).pow(2) * (range.len() as u64 + 1) + 50 * self.scen.faults.len() as u64;
        let start_step = self.step;
        loop {
            if self.step - start_step > cap {
                return Err(format!("step cap {cap} exceeded in phase {phase}"));
            }
            // timers: restarts, retransmits, heals are enabled by step count
            let mut progressed = false;
            for node in 0..self.restart_at.len() {
                if let Some(at) = self.restart_at[node] {
                    if self.step >= at {
                        self.restart(node)?;
                        progressed = true;
                    }
                }
            }
            let due: Vec<usize> = self.lost.iter().enumerate().filter(|(_, (at, _))| self.step >= *at).map(|(i, _)| i).collect();
            for i in due.into_iter().rev() {
                let (_, env) = self.lost.remove(i);
                self.log.add_str(&format!("retransmit {:?} i{} {}->{}", env.kind, env.inst, env.from, env.to));
                self.inflight.push(env);
                progressed = true;
            }
            // enabled transitions
            let mut enabled: Vec<(bool, usize)> = Vec::new(); // (is_start, index)
            for (i, (_, node)) in self.pending_starts.iter().enumerate() {
                if self.is_up(*node) {
                    enabled.push((true, i));
                }
            }
            for (i, e) in self.inflight.iter().enumerate() {
                if self.is_up(e.to) && !self.blocked(e.from, e.to) && self.step >= e.not_before {
                    enabled.push((false, i));
                }
            }
            if enabled.is_empty() {
                // nothing runnable: jump the clock to the next timer, or finish
                let mut next: Option<u64> = None;
                let mut consider = |t: u64| {
                    if t > self.step {
                        next = Some(next.map_or(t, |n: u64| n.min(t)));
                    }
                };
                for at in self.restart_at.iter().flatten() {
                    consider(*at);
                }
                for (at, _) in &self.lost {
                    consider(*at);
                }
                for e in &self.inflight {
                    consider(e.not_before);
                }
                if !self.inflight.is_empty() || !self.pending_starts.is_empty() {
                    for (_, until) in &self.partitions {
                        consider(*until);
                    }
                }
                match next {
                    Some(t) => {
                        self.step = t;
                        continue;
                    }
                    None => {
                        if progressed {
                            continue;
                        }
                        break;
                    }
                }
            }
            let pick = match self.scen.sched {
                Sched::Fifo => 0,
                Sched::Lifo => enabled.len() - 1,
                Sched::Random => self.sched.below(enabled.len() as u64) as usize,
            };
            if pick != 0 {
                self.stats.reordered += 1;
            }
            let (is_start, idx) = enabled[pick];
            self.step += 1;
            self.stats.steps += 1;
            if is_start {
                let (inst, node) = self.pending_starts.remove(idx);
                self.log.add_str(&format!("start i{inst} n{node}"));
                self.guarded(node, inst, |s| s.start(inst, node));
                self.after_transition(node)?;
                if let Some(pos) = self.faults_left.iter().position(|f| matches!(f, Fault::CrashAfterStart { node: n, inst: i, .. } if *n == node && *i == inst)) {
                    if let Fault::CrashAfterStart { down_for, .. } = self.faults_left.remove(pos) {
                        self.crash(node, down_for);
                    }
                }
            } else {
                let env = self.inflight.remove(idx);
                let mr = env.mref();
                if !env.is_copy {
                    if let Some(pos) = self.faults_left.iter().position(|f| matches!(f, Fault::Drop(m) if *m == mr)) {
                        self.faults_left.remove(pos);
                        *self.stats.faults_fired.entry("drop").or_default() += 1;
                        self.log.add_str(&format!("drop {:?} i{} {}->{}", env.kind, env.inst, env.from, env.to));
                        let rto = 3 + 2 * self.scen.np() as u64;
                        self.lost.push((self.step + rto, env));
                        continue;
                    }
                    if let Some(pos) = self.faults_left.iter().position(|f| matches!(f, Fault::Dup(m) if *m == mr)) {
                        self.faults_left.remove(pos);
                        *self.stats.faults_fired.entry("duplicate").or_default() += 1;
                        let mut copy = env.clone();
                        copy.is_copy = true;
                        self.seq += 1;
                        copy.seq = self.seq;
                        self.inflight.push(copy);
                    }
                }
                self.log.add_str(&format!("deliver {:?} i{} {}->{} copy={}", env.kind, env.inst, env.from, env.to, env.is_copy));
                self.stats.delivered += 1;
                let to = env.to;
                let inst = env.inst;
                self.guarded(to, inst, |s| s.deliver(&env));
                self.after_transition(to)?;
                if !env.is_copy {
                    if let Some(pos) = self.faults_left.iter().position(|f| matches!(f, Fault::Crash { node, after, .. } if *node == to && *after == mr)) {
                        if let Fault::Crash { down_for, .. } = self.faults_left.remove(pos) {
                            self.crash(to, down_for);
                        }
                    }
                    if let Some(pos) = self.faults_left.iter().position(|f| matches!(f, Fault::Partition { after, .. } if *after == mr)) {
                        if let Fault::Partition { nodes, steps, .. } = self.faults_left.remove(pos) {
                            *self.stats.faults_fired.entry("partition_heal").or_default() += 1;
                            self.log.add_str(&format!("partition {:?} for {steps}", nodes));
                            self.partitions.push((nodes.into_iter().collect(), self.step + steps as u64));
                        }
                    }
                }
            }
        }
        Ok(())
    }

    fn guarded(&mut self, node: usize, inst: u32, f: impl FnOnce(&mut Self)) {
        let r = catch_unwind(AssertUnwindSafe(|| f(self)));
        if let Err(p) = r {
            let what = if let Some(s) = p.downcast_ref::<&str>() {
                s.to_string()
            } else if let Some(s) = p.downcast_ref::<String>() {
                s.clone()
            } else {
                "panic".into()
            };
            self.log.add_str(&format!("panic n{node} i{inst} {what}"));
            self.history.push(Record::Panic { node, inst, what });
        }
    }

    /// Persist the node's state (every transition is atomic: handle, persist, send).
    fn after_transition(&mut self, node: usize) -> Result<(), String> {
        let fmt = self.scen.wire;
        let store = if node == self.hub_idx() {
            match &self.hub {
                Some(h) => h.save(fmt),
                None => return Ok(()),
            }
        } else {
            match &self.parts[node] {
                Some(p) => p.save(fmt),
                None => return Ok(()),
            }
        };
        match store {
            Ok(s) => self.stores[node] = s,
            Err(e) => {
                self.err(node, u32::MAX, "persist", e);
            }
        }
        if self.always_reload {
            self.reload(node);
        }
        Ok(())
    }

    fn reload(&mut self, node: usize) {
        let fmt = self.scen.wire;
        if node == self.hub_idx() {
            match HState::<C>::load(&self.stores[node], fmt) {
                Ok(h) => self.hub = Some(h),
                Err(e) => self.err(node, u32::MAX, "restore", e),
            }
        } else {
            match PState::<C>::load(&self.stores[node], fmt) {
                Ok(p) => self.parts[node] = Some(p),
                Err(e) => self.err(node, u32::MAX, "restore", e),
            }
        }
    }

    fn crash(&mut self, node: usize, down_for: u32) {
        *self.stats.faults_fired.entry("crash_restart").or_default() += 1;
        self.log.add_str(&format!("crash n{node}"));
        if node == self.hub_idx() {
            self.hub = None;
        } else {
            self.parts[node] = None;
        }
        self.restart_at[node] = Some(self.step + down_for.max(1) as u64);
    }

    fn restart(&mut self, node: usize) -> Result<(), String> {
        self.restart_at[node] = None;
        self.stats.restarts += 1;
        self.log.add_str(&format!("restart n{node}"));
        self.reload(node);
        // a restarted hub re-drives sessions that were open (idempotent requests)
        Ok(())
    }

    // -----------------------------------------------------------------------------------------
    // glue: local start actions

    fn start(&mut self, inst: u32, node: usize) {
        let def = self.scen.inst(inst).unwrap().clone();
        let fmt = self.scen.wire;
        let n = self.scen.n;
        let t = self.scen.t;
        let hub = self.hub_idx();
        match def {
            Inst::DealerKeygen { split_key } => {
                let mut rng = self.rng(node, inst, "dealer");
                let idlist: Vec<Identifier<C>> = self.ids[..n as usize].to_vec();
                let use_default = self.scen.id_scheme == "default";
                let il = if use_default { IdentifierList::Default } else { IdentifierList::Custom(&idlist) };
                let (res, key) = if split_key {
                    let k = self.split_key.unwrap();
                    let sk = frost::SigningKey::<C>::from_scalar(k).expect("nonzero");
                    (C::w_split(&sk, n, t, il, &mut rng), Some(k))
                } else {
                    (C::w_generate_with_dealer(n, t, il, &mut rng), None)
                };
                match res {
                    Err(e) => self.err(node, inst, "generate_with_dealer/split", format!("{e:?}")),
                    Ok((shares, pk)) => {
                        self.history.push(Record::DealerOut { inst, shares: shares.clone(), pk: pk.clone(), key });
                        for p in 0..n as usize {
                            match shares.get(&self.ids[p]) {
                                None => self.err(node, inst, "dealer output", format!("no share for participant {p}")),
                                Some(sh) => match enc(fmt, sh) {
                                    Ok(b) => self.send(inst, Kind::DealerShare, hub, p, b),
                                    Err(e) => self.err(node, inst, "encode SecretShare", e),
                                },
                            }
                            match enc(fmt, &pk) {
                                Ok(b) => self.send(inst, Kind::PubKeys, hub, p, b),
                                Err(e) => self.err(node, inst, "encode PublicKeyPackage", e),
                            }
                        }
                        if let Some(h) = self.hub.as_mut() {
                            h.pk = Some(pk);
                            h.started.insert(inst);
                        }
                    }
                }
            }
            Inst::Dkg => {
                let rng = self.rng(node, inst, "part1");
                let id = self.ids[node];
                // a scenario may give one key generation instance another threshold (concurrent runs that differ in t)
                let t = self.scen.extra.get("dkg_t").and_then(|m| m.get(inst.to_string())).and_then(|v| v.as_u64()).map(|v| v as u16).unwrap_or(t);
                let mut rng = rng;
                match C::w_dkg_part1(id, n, t, &mut rng) {
                    Err(e) => self.err(node, inst, "dkg::part1", format!("{e:?}")),
                    Ok((secret, pkg)) => {
                        self.history.push(Record::DkgPart1 { node, inst, secret_json: serde_json::to_string(&secret).unwrap_or_default(), pkg: pkg.clone() });
                        let bytes = enc(fmt, &pkg);
                        let st = self.parts[node].as_mut().unwrap().dkg.entry(inst).or_default();
                        st.r1_secret = Some(secret);
                        st.r1_own = Some(pkg);
                        match bytes {
                            Ok(b) => {
                                for p in 0..n as usize {
                                    if p != node {
                                        self.send(inst, Kind::DkgR1, node, p, b.clone());
                                    }
                                }
                            }
                            Err(e) => self.err(node, inst, "encode dkg::round1::Package", e),
                        }
                        self.dkg_progress(inst, node);
                    }
                }
            }
            Inst::RefreshDkg { remaining } => {
                let rng = self.rng(node, inst, "refresh_part1");
                let id = self.ids[node];
                let mut rng = rng;
                match C::w_refresh_dkg_part1(id, remaining.len() as u16, t, &mut rng) {
                    Err(e) => self.err(node, inst, "refresh_dkg_part1", format!("{e:?}")),
                    Ok((secret, pkg)) => {
                        self.history.push(Record::DkgPart1 { node, inst, secret_json: serde_json::to_string(&secret).unwrap_or_default(), pkg: pkg.clone() });
                        let bytes = enc(fmt, &pkg);
                        let st = self.parts[node].as_mut().unwrap().dkg.entry(inst).or_default();
                        st.r1_secret = Some(secret);
                        st.r1_own = Some(pkg);
                        match bytes {
                            Ok(b) => {
                                for p in &remaining {
                                    if *p != node {
                                        self.send(inst, Kind::DkgR1, node, *p, b.clone());
                                    }
                                }
                            }
                            Err(e) => self.err(node, inst, "encode dkg::round1::Package", e),
                        }
                        self.dkg_progress(inst, node);
                    }
                }
            }
            Inst::Sign { signers, .. } => {
                if let Some(h) = self.hub.as_mut() {
                    h.sessions.entry(inst).or_default();
                    h.started.insert(inst);
                }
                for s in signers {
                    self.send(inst, Kind::CommitReq, hub, s, Vec::new());
                }
            }
            Inst::RefreshDealer { remaining } => {
                let mut rng = self.rng(node, inst, "refresh_dealer");
                let old_pk = match self.hub.as_ref().and_then(|h| h.pk.clone()) {
                    Some(pk) => pk,
                    None => return self.err(node, inst, "refresh dealer", "hub has no public key package".into()),
                };
                let idlist: Vec<Identifier<C>> = remaining.iter().map(|p| self.ids[*p]).collect();
                match C::w_compute_refreshing_shares(old_pk.clone(), &idlist, &mut rng) {
                    Err(e) => self.err(node, inst, "compute_refreshing_shares", format!("{e:?}")),
                    Ok((shares, new_pk)) => {
                        if shares.len() != remaining.len() {
                            return self.err(node, inst, "compute_refreshing_shares", "wrong number of refreshing shares".into());
                        }
                        self.history.push(Record::RefreshDealerOut { inst, old_pk, new_pk: new_pk.clone() });
                        // "sent to the participants in the same order as identifiers"
                        for (k, p) in remaining.iter().enumerate() {
                            match enc(fmt, &shares[k]) {
                                Ok(b) => self.send(inst, Kind::RefreshShare, hub, *p, b),
                                Err(e) => self.err(node, inst, "encode SecretShare", e),
                            }
                            match enc(fmt, &new_pk) {
                                Ok(b) => self.send(inst, Kind::PubKeys, hub, *p, b),
                                Err(e) => self.err(node, inst, "encode PublicKeyPackage", e),
                            }
                        }
                        if let Some(h) = self.hub.as_mut() {
                            h.pk = Some(new_pk);
                            h.started.insert(inst);
                        }
                    }
                }
            }
            Inst::Repair { target, helpers } => {
                let pk = match self.hub.as_ref().and_then(|h| h.pk.clone()) {
                    Some(pk) => pk,
                    None => return self.err(node, inst, "repair", "hub has no public key package".into()),
                };
                match enc(fmt, &pk) {
                    Ok(b) => self.send(inst, Kind::RepairInit, hub, target, b),
                    Err(e) => self.err(node, inst, "encode PublicKeyPackage", e),
                }
                for h in helpers {
                    self.send(inst, Kind::RepairReq, hub, h, Vec::new());
                }
                if let Some(h) = self.hub.as_mut() {
                    h.started.insert(inst);
                }
            }
        }
    }

    // -----------------------------------------------------------------------------------------
    // glue: message handlers

    fn deliver(&mut self, env: &Envelope) {
        if env.to == self.hub_idx() {
            self.deliver_hub(env)
        } else {
            self.deliver_part(env)
        }
    }

    fn deliver_part(&mut self, env: &Envelope) {
        let fmt = self.scen.wire;
        let me = env.to;
        let inst = env.inst;
        let hub = self.hub_idx();
        let def = self.scen.inst(inst).unwrap().clone();
        match env.kind {
            Kind::DealerShare => {
                if self.parts[me].as_ref().unwrap().kp.is_some() && matches!(def, Inst::DealerKeygen { .. }) {
                    return; // duplicate
                }
                let sh: SecretShare<C> = match dec(fmt, &env.bytes) {
                    Ok(s) => s,
                    Err(e) => return self.err(me, inst, "decode SecretShare", e),
                };
                match KeyPackage::<C>::try_from(sh) {
                    Err(e) => self.err(me, inst, "KeyPackage::try_from", format!("{e:?}")),
                    Ok(kp) => {
                        self.history.push(Record::KeyPackage { node: me, inst, kp: kp.clone() });
                        self.parts[me].as_mut().unwrap().kp = Some(kp);
                    }
                }
            }
            Kind::PubKeys => {
                let pk: PublicKeyPackage<C> = match dec(fmt, &env.bytes) {
                    Ok(s) => s,
                    Err(e) => return self.err(me, inst, "decode PublicKeyPackage", e),
                };
                let st = self.parts[me].as_mut().unwrap();
                st.pk = Some(pk);
                st.pk_inst = Some(inst);
            }
            Kind::DkgR1 => {
                let pkg: dkg::round1::Package<C> = match dec(fmt, &env.bytes) {
                    Ok(s) => s,
                    Err(e) => return self.err(me, inst, "decode dkg::round1::Package", e),
                };
                let sender = self.ids[env.from];
                let st = self.parts[me].as_mut().unwrap().dkg.entry(inst).or_default();
                st.r1_in.entry(sender).or_insert(pkg);
                self.dkg_progress(inst, me);
            }
            Kind::DkgR2 => {
                let pkg: dkg::round2::Package<C> = match dec(fmt, &env.bytes) {
                    Ok(s) => s,
                    Err(e) => return self.err(me, inst, "decode dkg::round2::Package", e),
                };
                let sender = self.ids[env.from];
                let st = self.parts[me].as_mut().unwrap().dkg.entry(inst).or_default();
                st.r2_in.entry(sender).or_insert(pkg);
                self.dkg_progress(inst, me);
            }
            Kind::CommitReq => {
                let st = self.parts[me].as_ref().unwrap();
                if st.signed.contains_key(&inst) {
                    return;
                }
                if let Some(nonces) = st.nonces.get(&inst) {
                    // duplicate request: answer with the same commitments
                    let c = *nonces.commitments();
                    if let Ok(b) = enc(fmt, &c) {
                        self.send(inst, Kind::Commitments, me, hub, b);
                    }
                    return;
                }
                let kp = match &st.kp {
                    Some(kp) => kp.clone(),
                    None => return self.err(me, inst, "commit", "no key package".into()),
                };
                let mut rng = self.rng(me, inst, "commit");
                let (nonces, commitments) = C::w_commit(kp.signing_share(), &mut rng);
                self.history.push(Record::Commit {
                    node: me,
                    inst,
                    rng_out: rng.out.clone(),
                    draws: rng.draws.clone(),
                    nonces: nonces.clone(),
                    commitments,
                    share: *kp.signing_share(),
                });
                self.parts[me].as_mut().unwrap().nonces.insert(inst, nonces);
                match enc(fmt, &commitments) {
                    Ok(b) => self.send(inst, Kind::Commitments, me, hub, b),
                    Err(e) => self.err(me, inst, "encode SigningCommitments", e),
                }
            }
            Kind::SignReq => {
                let st = self.parts[me].as_ref().unwrap();
                if let Some(sh) = st.signed.get(&inst) {
                    if let Ok(b) = enc(fmt, sh) {
                        self.send(inst, Kind::SigShare, me, hub, b);
                    }
                    return;
                }
                let parts = match unframe(&env.bytes) {
                    Some(p) if p.len() == 2 => p,
                    _ => return self.err(me, inst, "unframe SignReq", "bad frame".into()),
                };
                let pkg: SigningPackage<C> = match dec(fmt, &parts[0]) {
                    Ok(s) => s,
                    Err(e) => return self.err(me, inst, "decode SigningPackage", e),
                };
                let nonces = match st.nonces.get(&inst) {
                    Some(n) => n.clone(),
                    None => return self.err(me, inst, "sign", "no nonces for session".into()),
                };
                let kp = match &st.kp {
                    Some(kp) => kp.clone(),
                    None => return self.err(me, inst, "sign", "no key package".into()),
                };
                let mode = match &def {
                    Inst::Sign { mode, .. } => mode.clone(),
                    _ => return self.err(me, inst, "sign", "not a signing instance".into()),
                };
                let res = match &mode {
                    SignMode::Plain => C::w_sign(&pkg, &nonces, &kp),
                    SignMode::Rerand => C::w_rr_sign(&pkg, &nonces, &kp, &parts[1]),
                    SignMode::Tweak(root) => crate::tr::sign_with_tweak::<C>(&pkg, &nonces, &kp, root.as_deref()),
                };
                match res {
                    Err(e) => self.err(me, inst, "sign", format!("{e:?}")),
                    Ok(share) => {
                        self.history.push(Record::Share { node: me, inst, share, kp });
                        let st = self.parts[me].as_mut().unwrap();
                        st.nonces.remove(&inst); // single use
                        st.signed.insert(inst, share);
                        match enc(fmt, &share) {
                            Ok(b) => self.send(inst, Kind::SigShare, me, hub, b),
                            Err(e) => self.err(me, inst, "encode SignatureShare", e),
                        }
                    }
                }
            }
            Kind::RefreshShare => {
                let st = self.parts[me].as_ref().unwrap();
                if st.refreshed.contains(&inst) {
                    return;
                }
                let sh: SecretShare<C> = match dec(fmt, &env.bytes) {
                    Ok(s) => s,
                    Err(e) => return self.err(me, inst, "decode SecretShare", e),
                };
                let old_kp = match &st.kp {
                    Some(kp) => kp.clone(),
                    None => return self.err(me, inst, "refresh_share", "no key package".into()),
                };
                match C::w_refresh_share(sh, &old_kp) {
                    Err(e) => self.err(me, inst, "refresh_share", format!("{e:?}")),
                    Ok(new_kp) => {
                        self.history.push(Record::Refreshed { node: me, inst, old_kp, new_kp: new_kp.clone(), new_pk: None });
                        let st = self.parts[me].as_mut().unwrap();
                        st.kp = Some(new_kp);
                        st.refreshed.insert(inst);
                    }
                }
            }
            Kind::RepairReq => {
                let (target, helpers) = match &def {
                    Inst::Repair { target, helpers } => (*target, helpers.clone()),
                    _ => return,
                };
                if self.parts[me].as_ref().unwrap().repair.get(&inst).map(|r| r.own_done).unwrap_or(false) {
                    return;
                }
                let kp = match &self.parts[me].as_ref().unwrap().kp {
                    Some(kp) => kp.clone(),
                    None => return self.err(me, inst, "repair_share_part1", "no key package".into()),
                };
                let helper_ids: Vec<Identifier<C>> = helpers.iter().map(|h| self.ids[*h]).collect();
                let mut rng = self.rng(me, inst, "repair1");
                match C::w_repair1(&helper_ids, &kp, &mut rng, self.ids[target]) {
                    Err(e) => self.err(me, inst, "repair_share_part1", format!("{e:?}")),
                    Ok(deltas) => {
                        self.history.push(Record::RepairDeltas { node: me, inst, deltas: deltas.clone(), kp });
                        self.parts[me].as_mut().unwrap().repair.entry(inst).or_default().own_done = true;
                        for h in &helpers {
                            match deltas.get(&self.ids[*h]) {
                                None => self.err(me, inst, "repair_share_part1", format!("no delta for helper {h}")),
                                Some(d) => match enc(fmt, d) {
                                    Ok(b) => self.send(inst, Kind::RepairDelta, me, *h, b),
                                    Err(e) => self.err(me, inst, "encode Delta", e),
                                },
                            }
                        }
                    }
                }
            }
            Kind::RepairDelta => {
                let (target, helpers) = match &def {
                    Inst::Repair { target, helpers } => (*target, helpers.clone()),
                    _ => return,
                };
                let d: Delta<C> = match dec(fmt, &env.bytes) {
                    Ok(s) => s,
                    Err(e) => return self.err(me, inst, "decode Delta", e),
                };
                let r = self.parts[me].as_mut().unwrap().repair.entry(inst).or_default();
                if r.deltas_in.iter().any(|(f, _)| *f == env.from) {
                    return;
                }
                r.deltas_in.push((env.from, d));
                if r.deltas_in.len() == helpers.len() && !r.sigma_sent {
                    let ds: Vec<Delta<C>> = r.deltas_in.iter().map(|(_, d)| *d).collect();
                    let sigma = C::w_repair2(&ds);
                    r.sigma_sent = true;
                    match enc(fmt, &sigma) {
                        Ok(b) => self.send(inst, Kind::RepairSigma, me, target, b),
                        Err(e) => self.err(me, inst, "encode Sigma", e),
                    }
                }
            }
            Kind::RepairInit => {
                let pk: PublicKeyPackage<C> = match dec(fmt, &env.bytes) {
                    Ok(s) => s,
                    Err(e) => return self.err(me, inst, "decode PublicKeyPackage", e),
                };
                let r = self.parts[me].as_mut().unwrap().repair.entry(inst).or_default();
                if r.pk.is_none() {
                    r.pk = Some(pk);
                }
                self.repair_finish(inst, me);
            }
            Kind::RepairSigma => {
                let s: Sigma<C> = match dec(fmt, &env.bytes) {
                    Ok(s) => s,
                    Err(e) => return self.err(me, inst, "decode Sigma", e),
                };
                let r = self.parts[me].as_mut().unwrap().repair.entry(inst).or_default();
                if r.sigmas_in.iter().any(|(f, _)| *f == env.from) {
                    return;
                }
                r.sigmas_in.push((env.from, s));
                self.repair_finish(inst, me);
            }
            Kind::Commitments | Kind::SigShare => {}
        }
    }

    fn repair_finish(&mut self, inst: u32, me: usize) {
        let helpers = match self.scen.inst(inst) {
            Some(Inst::Repair { helpers, .. }) => helpers.clone(),
            _ => return,
        };
        let id = self.ids[me];
        let r = self.parts[me].as_mut().unwrap().repair.entry(inst).or_default();
        if r.done || r.pk.is_none() || r.sigmas_in.len() != helpers.len() {
            return;
        }
        let sig: Vec<Sigma<C>> = r.sigmas_in.iter().map(|(_, s)| *s).collect();
        let pk = r.pk.clone().unwrap();
        match C::w_repair3(&sig, id, &pk) {
            Err(e) => self.err(me, inst, "repair_share_part3", format!("{e:?}")),
            Ok(kp) => {
                let lost = self.lost_kp.get(&me).cloned();
                self.history.push(Record::Repaired { node: me, inst, kp: kp.clone(), lost });
                // a participant with a NEW identifier publishes its verifying share: the application
                // extends the public key package (the library offers no call for this)
                let mut pk = pk;
                let mut announce = None;
                if !pk.verifying_shares().contains_key(&id) {
                    let mut vs = pk.verifying_shares().clone();
                    vs.insert(id, *kp.verifying_share());
                    pk = PublicKeyPackage::<C>::new(vs, *pk.verifying_key(), pk.min_signers());
                    announce = Some(enc(self.scen.wire, &pk));
                }
                let st = self.parts[me].as_mut().unwrap();
                st.repair.get_mut(&inst).unwrap().done = true;
                st.kp = Some(kp);
                st.pk = Some(pk);
                if let Some(b) = announce {
                    let hub = self.hub_idx();
                    match b {
                        Ok(b) => self.send(inst, Kind::PubKeys, me, hub, b),
                        Err(e) => self.err(me, inst, "encode PublicKeyPackage", e),
                    }
                }
            }
        }
    }

    /// DKG / DKG-refresh: call part2 / part3 as soon as their inputs are complete.
    fn dkg_progress(&mut self, inst: u32, me: usize) {
        let fmt = self.scen.wire;
        let hub = self.hub_idx();
        let def = self.scen.inst(inst).unwrap().clone();
        let (members, is_refresh): (Vec<usize>, bool) = match &def {
            Inst::Dkg => ((0..self.scen.n as usize).collect(), false),
            Inst::RefreshDkg { remaining } => (remaining.clone(), true),
            _ => return,
        };
        let need = members.len() - 1;
        // part2
        {
            let st = self.parts[me].as_mut().unwrap().dkg.entry(inst).or_default();
            if st.r1_secret.is_some() && st.r2_secret.is_none() && st.r1_in.len() == need {
                let secret = st.r1_secret.take().unwrap();
                let r1 = st.r1_in.clone();
                let res = if is_refresh { C::w_refresh_dkg_part2(secret, &r1) } else { C::w_dkg_part2(secret, &r1) };
                match res {
                    Err(e) => self.err(me, inst, if is_refresh { "refresh_dkg_part2" } else { "dkg::part2" }, format!("{e:?}")),
                    Ok((r2s, out)) => {
                        self.parts[me].as_mut().unwrap().dkg.get_mut(&inst).unwrap().r2_secret = Some(r2s);
                        for p in &members {
                            if *p == me {
                                continue;
                            }
                            match out.get(&self.ids[*p]) {
                                None => self.err(me, inst, "part2 output", format!("no round-2 package for {p}")),
                                Some(pkg) => match enc(fmt, pkg) {
                                    Ok(b) => self.send(inst, Kind::DkgR2, me, *p, b),
                                    Err(e) => self.err(me, inst, "encode dkg::round2::Package", e),
                                },
                            }
                        }
                    }
                }
            }
        }
        // part3
        let st = self.parts[me].as_ref().unwrap();
        let d = match st.dkg.get(&inst) {
            Some(d) => d,
            None => return,
        };
        if d.done || d.r2_secret.is_none() || d.r2_in.len() != need || d.r1_in.len() != need {
            return;
        }
        let r2s = d.r2_secret.as_ref().unwrap();
        let res = if is_refresh {
            match (&st.pk, &st.kp) {
                (Some(pk), Some(kp)) => C::w_refresh_dkg_shares(r2s, &d.r1_in, &d.r2_in, pk.clone(), kp.clone()),
                _ => return self.err(me, inst, "refresh_dkg_shares", "no key material".into()),
            }
        } else {
            C::w_dkg_part3(r2s, &d.r1_in, &d.r2_in)
        };
        match res {
            Err(e) => self.err(me, inst, if is_refresh { "refresh_dkg_shares" } else { "dkg::part3" }, format!("{e:?}")),
            Ok((kp, pk)) => {
                if is_refresh {
                    let old_kp = st.kp.clone().unwrap();
                    self.history.push(Record::Refreshed { node: me, inst, old_kp, new_kp: kp.clone(), new_pk: Some(pk.clone()) });
                } else {
                    self.history.push(Record::DkgDone { node: me, inst, kp: kp.clone(), pk: pk.clone() });
                }
                let bytes = enc(fmt, &pk);
                let st = self.parts[me].as_mut().unwrap();
                st.kp = Some(kp);
                st.pk = Some(pk);
                st.pk_inst = Some(inst);
                if is_refresh {
                    st.refreshed.insert(inst);
                }
                let d = st.dkg.get_mut(&inst).unwrap();
                d.done = true;
                d.r2_secret = None;
                match bytes {
                    Ok(b) => self.send(inst, Kind::PubKeys, me, hub, b),
                    Err(e) => self.err(me, inst, "encode PublicKeyPackage", e),
                }
            }
        }
    }

    fn deliver_hub(&mut self, env: &Envelope) {
        let fmt = self.scen.wire;
        let hub = self.hub_idx();
        let inst = env.inst;
        let def = self.scen.inst(inst).unwrap().clone();
        match env.kind {
            Kind::PubKeys => {
                let pk: PublicKeyPackage<C> = match dec(fmt, &env.bytes) {
                    Ok(s) => s,
                    Err(e) => return self.err(hub, inst, "decode PublicKeyPackage", e),
                };
                let h = self.hub.as_mut().unwrap();
                h.pk_from.entry(inst).or_default().insert(env.from);
                match h.pk_by_inst.get(&inst) {
                    None => {
                        h.pk_by_inst.insert(inst, pk.clone());
                        h.pk = Some(pk.clone());
                        // an enrolled participant announced its verifying share: the coordinator passes the extended package on
                        if matches!(def, Inst::Repair { .. }) {
                            let n = self.scen.n as usize;
                            for p in 0..n {
                                self.send(inst, Kind::PubKeys, hub, p, env.bytes.clone());
                            }
                        }
                    }
                    Some(first) => {
                        if *first != pk {
                            self.history.push(Record::HubPkMismatch { inst, from: env.from });
                        }
                    }
                }
            }
            Kind::Commitments => {
                let (signers, msg, mode) = match &def {
                    Inst::Sign { signers, msg_hex, mode } => (signers.clone(), hex::decode(msg_hex).unwrap_or_default(), mode.clone()),
                    _ => return,
                };
                let c: SigningCommitments<C> = match dec(fmt, &env.bytes) {
                    Ok(s) => s,
                    Err(e) => return self.err(hub, inst, "decode SigningCommitments", e),
                };
                let sender = self.ids[env.from];
                let se = self.hub.as_mut().unwrap().sessions.entry(inst).or_default();
                se.commitments.entry(sender).or_insert(c);
                if se.package.is_none() && se.commitments.len() == signers.len() {
                    let pkg = SigningPackage::<C>::new(se.commitments.clone(), &msg);
                    let mut seed = Vec::new();
                    if mode == SignMode::Rerand {
                        let pk = self.hub.as_ref().unwrap().pk.clone();
                        let vk = match pk {
                            Some(pk) => *pk.verifying_key(),
                            None => return self.err(hub, inst, "rerandomize", "no public key package".into()),
                        };
                        let rng = self.rng(hub, inst, "randomizer");
                        match RandomizedParams::<C>::new_from_commitments(&vk, pkg.signing_commitments(), rng) {
                            Ok((_params, s)) => seed = s,
                            Err(e) => return self.err(hub, inst, "new_from_commitments", format!("{e:?}")),
                        }
                    }
                    let se = self.hub.as_mut().unwrap().sessions.get_mut(&inst).unwrap();
                    se.package = Some(pkg.clone());
                    se.seed = Some(seed.clone());
                    match enc(fmt, &pkg) {
                        Ok(b) => {
                            let framed = frame(&[&b, &seed]);
                            for s in signers {
                                self.send(inst, Kind::SignReq, hub, s, framed.clone());
                            }
                        }
                        Err(e) => self.err(hub, inst, "encode SigningPackage", e),
                    }
                }
            }
            Kind::SigShare => {
                let (signers, mode) = match &def {
                    Inst::Sign { signers, mode, .. } => (signers.clone(), mode.clone()),
                    _ => return,
                };
                let z: SignatureShare<C> = match dec(fmt, &env.bytes) {
                    Ok(s) => s,
                    Err(e) => return self.err(hub, inst, "decode SignatureShare", e),
                };
                let sender = self.ids[env.from];
                let h = self.hub.as_mut().unwrap();
                let se = h.sessions.entry(inst).or_default();
                se.shares.entry(sender).or_insert(z);
                if !se.done && se.package.is_some() && se.shares.len() == signers.len() {
                    se.done = true;
                    let pkg = se.package.clone().unwrap();
                    let shares = se.shares.clone();
                    let seed = se.seed.clone().unwrap_or_default();
                    let pk = match h.pk.clone() {
                        Some(pk) => pk,
                        None => return self.err(hub, inst, "aggregate", "no public key package".into()),
                    };
                    let (result, params) = match &mode {
                        SignMode::Plain => (C::w_aggregate(&pkg, &shares, &pk), None),
                        SignMode::Rerand => match RandomizedParams::<C>::regenerate_from_seed_and_commitments(pk.verifying_key(), &seed, pkg.signing_commitments()) {
                            Ok(params) => (C::w_rr_aggregate(&pkg, &shares, &pk, &params), Some(params)),
                            Err(e) => (Err(e), None),
                        },
                        SignMode::Tweak(root) => (crate::tr::aggregate_with_tweak::<C>(&pkg, &shares, &pk, root.as_deref()), None),
                    };
                    self.log.add_str(&format!("aggregate i{inst} ok={}", result.is_ok()));
                    self.history.push(Record::Session { inst, package: pkg, shares, pk, seed: if mode == SignMode::Rerand { Some(seed) } else { None }, params, result });
                }
            }
            _ => {}
        }
    }

    // -----------------------------------------------------------------------------------------
    // completion (liveness) of instances

    pub fn inst_complete(&self, inst: u32) -> bool {
        let def = self.scen.inst(inst).unwrap();
        let n = self.scen.n as usize;
        let part = |p: usize| self.parts[p].as_ref();
        match def {
            Inst::DealerKeygen { .. } => (0..n).all(|p| part(p).map(|s| s.kp.is_some() && s.pk.is_some()).unwrap_or(false)),
            Inst::Dkg => {
                (0..n).all(|p| part(p).and_then(|s| s.dkg.get(&inst)).map(|d| d.done).unwrap_or(false))
                    && self.hub.as_ref().and_then(|h| h.pk_from.get(&inst)).map(|s| s.len() == n).unwrap_or(false)
            }
            Inst::Sign { .. } => self.hub.as_ref().and_then(|h| h.sessions.get(&inst)).map(|s| s.done).unwrap_or(false),
            Inst::RefreshDealer { remaining } => remaining.iter().all(|p| part(*p).map(|s| s.refreshed.contains(&inst) && s.pk_inst == Some(inst)).unwrap_or(false)),
            Inst::RefreshDkg { remaining } => {
                remaining.iter().all(|p| part(*p).map(|s| s.refreshed.contains(&inst)).unwrap_or(false))
                    && self.hub.as_ref().and_then(|h| h.pk_from.get(&inst)).map(|s| s.len() == remaining.len()).unwrap_or(false)
            }
            Inst::Repair { target, .. } => {
                part(*target).and_then(|s| s.repair.get(&inst)).map(|r| r.done).unwrap_or(false)
                    && (*target < n
                        || (self.hub.as_ref().and_then(|h| h.pk_from.get(&inst)).map(|s| s.contains(target)).unwrap_or(false)
                            && (0..n).all(|p| part(p).map(|s| s.pk_inst == Some(inst)).unwrap_or(false))))
            }
        }
    }

    /// Treat participant `node`'s share as lost (before a repair phase): its key package is set
    /// aside for the oracle and removed from the node (memory and store).
    pub fn lose_share(&mut self, node: usize) {
        if let Some(st) = self.parts[node].as_mut() {
            if let Some(kp) = st.kp.take() {
                self.lost_kp.insert(node, kp);
            }
        }
        let _ = self.after_transition(node);
    }

    /// Everything observable that the run produced, for twin-run comparison.
    pub fn outputs(&self) -> BTreeMap<String, Vec<u8>> {
        let mut out = BTreeMap::new();
        for ((inst, kind, from, to), b) in &self.sent {
            out.insert(format!("msg/{inst}/{kind:?}/{from}/{to}"), b.clone());
        }
        for (p, st) in self.parts.iter().enumerate() {
            if let Some(st) = st {
                if let Some(kp) = &st.kp {
                    out.insert(format!("final/{p}/kp"), kp.serialize().unwrap_or_default());
                }
                if let Some(pk) = &st.pk {
                    out.insert(format!("final/{p}/pk"), pk.serialize().unwrap_or_default());
                }
            }
        }
        for r in &self.history {
            if let Record::Session { inst, result, .. } = r {
                let v = match result {
                    Ok(sig) => sig.serialize().unwrap_or_default(),
                    Err(e) => format!("{e:?}").into_bytes(),
                };
                out.insert(format!("sig/{inst}"), v);
            }
        }
        out
    }
}
