//! Generic wrappers over the Taproot-only entry points (merkle roots travel as hex in scenarios).

use std::collections::BTreeMap;

use frost_core::{self as frost, Identifier};

use crate::suite::Suite;

pub fn root_bytes(root: Option<&str>) -> Option<Vec<u8>> {
    root.map(|h| hex::decode(h).unwrap_or_default())
}

pub fn sign_with_tweak<C: Suite>(
    pkg: &frost::SigningPackage<C>,
    nonces: &frost::round1::SigningNonces<C>,
    kp: &frost::keys::KeyPackage<C>,
    root: Option<&str>,
) -> Result<frost::round2::SignatureShare<C>, frost::Error<C>> {
    let r = root_bytes(root);
    C::sign_with_tweak(pkg, nonces, kp, r.as_deref())
}

pub fn aggregate_with_tweak<C: Suite>(
    pkg: &frost::SigningPackage<C>,
    shares: &BTreeMap<Identifier<C>, frost::round2::SignatureShare<C>>,
    pk: &frost::keys::PublicKeyPackage<C>,
    root: Option<&str>,
) -> Result<frost::Signature<C>, frost::Error<C>> {
    let r = root_bytes(root);
    C::aggregate_with_tweak(pkg, shares, pk, r.as_deref())
}
