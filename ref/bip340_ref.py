"""BIP-340 Schnorr signatures and BIP-341 key tweaking, written from the BIP text.

Deliberately standalone (own affine secp256k1 arithmetic, no import of curves.py /
frost_ref.py) so it can cross-check the Taproot code in frost_ref independently.
"""
import hashlib

p = 0xFFFFFFFFFFFFFFFFFFFFFFFFFFFFFFFFFFFFFFFFFFFFFFFFFFFFFFFEFFFFFC2F
n = 0xFFFFFFFFFFFFFFFFFFFFFFFFFFFFFFFEBAAEDCE6AF48A03BBFD25E8CD0364141
G = (0x79BE667EF9DCBBAC55A06295CE870B07029BFCDB2DCE28D959F2815B16F81798,
     0x483ADA7726A3C4655DA4FBFC0E1108A8FD17B448A68554199C47D08FFB10D4B8)


def tagged_hash(tag, msg):
    th = hashlib.sha256(tag.encode()).digest()
    return hashlib.sha256(th + th + msg).digest()


def point_add(P1, P2):  # None is the point at infinity
    if P1 is None:
        return P2
    if P2 is None:
        return P1
    x1, y1 = P1
    x2, y2 = P2
    if x1 == x2:
        if y1 != y2:
            return None
        lam = 3 * x1 * x1 * pow(2 * y1, -1, p) % p
    else:
        lam = (y2 - y1) * pow(x2 - x1, -1, p) % p
    x3 = (lam * lam - x1 - x2) % p
    return (x3, (lam * (x1 - x3) - y1) % p)


def _jdbl(P):  # Jacobian doubling on y^2 = x^3 + 7 (a = 0); Z == 0 is infinity
    X, Y, Z = P
    if Z == 0:
        return P
    A = X * X % p
    B = Y * Y % p
    C = B * B % p
    D = 4 * X * B % p
    E = 3 * A
    X3 = (E * E - 2 * D) % p
    return (X3, (E * (D - X3) - 8 * C) % p, 2 * Y * Z % p)


def _jadd_affine(P, Q):  # Jacobian P + affine Q (mixed addition)
    X1, Y1, Z1 = P
    x2, y2 = Q
    if Z1 == 0:
        return (x2, y2, 1)
    ZZ = Z1 * Z1 % p
    U2 = x2 * ZZ % p
    S2 = y2 * Z1 * ZZ % p
    H = (U2 - X1) % p
    r = (S2 - Y1) % p
    if H == 0:
        return _jdbl(P) if r == 0 else (1, 1, 0)
    HH = H * H % p
    HHH = H * HH % p
    V = X1 * HH % p
    X3 = (r * r - HHH - 2 * V) % p
    return (X3, (r * (V - X3) - Y1 * HHH) % p, Z1 * H % p)


def point_mul(P, k):
    """k*P for affine P (or None); plain left-to-right double-and-add, result affine."""
    if P is None or k % n == 0:
        return None
    R = (1, 1, 0)
    for i in range(k.bit_length() - 1, -1, -1):
        R = _jdbl(R)
        if (k >> i) & 1:
            R = _jadd_affine(R, P)
    if R[2] == 0:
        return None
    zi = pow(R[2], -1, p)
    return (R[0] * zi * zi % p, R[1] * zi * zi * zi % p)


def lift_x(x):
    if x >= p:
        return None
    c = (pow(x, 3, p) + 7) % p
    y = pow(c, (p + 1) // 4, p)
    if y * y % p != c:
        return None
    return (x, y if y & 1 == 0 else p - y)


def _b(x):
    return x.to_bytes(32, "big")


def _i(b):
    return int.from_bytes(b, "big")


def pubkey_gen(seckey32):
    d = _i(seckey32)
    if not 1 <= d <= n - 1:
        raise ValueError("secret key out of range")
    return _b(point_mul(G, d)[0])


def sign(seckey32, msg, aux_rand32=bytes(32)):
    d0 = _i(seckey32)
    if not 1 <= d0 <= n - 1:
        raise ValueError("secret key out of range")
    if len(aux_rand32) != 32:
        raise ValueError("aux_rand must be 32 bytes")
    P = point_mul(G, d0)
    d = d0 if P[1] & 1 == 0 else n - d0
    t = bytes(a ^ b for a, b in zip(_b(d), tagged_hash("BIP0340/aux", aux_rand32)))
    k0 = _i(tagged_hash("BIP0340/nonce", t + _b(P[0]) + msg)) % n
    if k0 == 0:
        raise RuntimeError("zero nonce")
    R = point_mul(G, k0)
    k = k0 if R[1] & 1 == 0 else n - k0
    e = _i(tagged_hash("BIP0340/challenge", _b(R[0]) + _b(P[0]) + msg)) % n
    sig = _b(R[0]) + _b((k + e * d) % n)
    if not verify(_b(P[0]), msg, sig):
        raise RuntimeError("produced signature does not verify")
    return sig


def verify(pubkey_xonly32, msg, sig64):
    if len(pubkey_xonly32) != 32 or len(sig64) != 64:
        return False
    P = lift_x(_i(pubkey_xonly32))
    r = _i(sig64[:32])
    s = _i(sig64[32:])
    if P is None or r >= p or s >= n:
        return False
    e = _i(tagged_hash("BIP0340/challenge", sig64[:32] + pubkey_xonly32 + msg)) % n
    R = point_add(point_mul(G, s), point_mul(P, n - e))
    if R is None or R[1] & 1 or R[0] != r:
        return False
    return True


def taproot_tweak_pubkey(internal_xonly32, merkle_root=None):
    """BIP-341 taproot_tweak_pubkey: returns (parity, output_xonly32).
    merkle_root None -> key-path-only commitment t = H_TapTweak(P)."""
    h = b"" if merkle_root is None else bytes(merkle_root)
    t = _i(tagged_hash("TapTweak", internal_xonly32 + h))
    if t >= n:
        raise ValueError("tweak out of range")
    P = lift_x(_i(internal_xonly32))
    if P is None:
        raise ValueError("internal key is not a valid x-only key")
    Q = point_add(P, point_mul(G, t))
    if Q is None:
        raise ValueError("output key is the point at infinity")
    return (Q[1] & 1, _b(Q[0]))


def taproot_tweak_seckey(seckey32, merkle_root=None):
    """BIP-341 taproot_tweak_seckey."""
    h = b"" if merkle_root is None else bytes(merkle_root)
    d0 = _i(seckey32)
    P = point_mul(G, d0)
    d = d0 if P[1] & 1 == 0 else n - d0
    t = _i(tagged_hash("TapTweak", _b(P[0]) + h))
    if t >= n:
        raise ValueError("tweak out of range")
    return _b((d + t) % n)
