"""From-scratch big-integer group arithmetic and canonical encodings.

Groups: edwards25519, ristretto255, edwards448, P-256, secp256k1.

Uniform interface (class Group):
  order, cofactor, generator, identity, elem_len, scalar_len
  add(P,Q) neg(P) sub(P,Q) dbl(P) mul(k,P) eq(P,Q) is_identity(P)
  encode(P)->bytes          (raises ValueError on identity, like RFC 9591 SerializeElement)
  decode(bytes)->P          (strict ciphersuite decoder: canonical, on-curve, non-identity,
                             prime-order subgroup; raises ValueError otherwise)
  decode_raw(bytes)->P      (canonical curve-point decoding only; small/mixed order and
                             identity allowed where the base encoding can express them)
  decode_why(bytes)->str|None   reason for rejection by decode(), None if accepted
  scalar_encode(k) scalar_decode(bytes)  (canonical, < order)

Points are opaque tuples in projective-style coordinates.  Nothing here depends on
anything but Python integers.
"""


def _inv(x, p):
    return pow(x, -1, p)


class Group:
    name = "?"
    order = 0
    cofactor = 1
    elem_len = 0
    scalar_len = 0
    scalar_big_endian = False
    _base_table = None

    # ---- to be provided by subclasses -------------------------------------------------
    def add(self, P, Q):
        raise NotImplementedError

    def dbl(self, P):
        return self.add(P, P)

    def neg(self, P):
        raise NotImplementedError

    def eq(self, P, Q):
        raise NotImplementedError

    # ---- generic ----------------------------------------------------------------------
    def sub(self, P, Q):
        return self.add(P, self.neg(Q))

    def is_identity(self, P):
        return self.eq(P, self.identity)

    def _mul_window(self, k, P):
        """Left-to-right fixed 4-bit window.  k >= 0, NOT reduced modulo the order (so it
        is also correct for points outside the prime-order subgroup)."""
        add, dbl = self.add, self.dbl
        tbl = [self.identity, P, dbl(P)]
        for i in range(3, 16):
            tbl.append(add(tbl[i - 1], P))
        nn = (k.bit_length() + 3) // 4
        acc = self.identity
        for i in range(nn - 1, -1, -1):
            if i != nn - 1:
                acc = dbl(dbl(dbl(dbl(acc))))
            d = (k >> (4 * i)) & 15
            if d:
                acc = add(acc, tbl[d])
        return acc

    def _build_base_table(self):
        nwin = (self.order.bit_length() + 3) // 4 + 1
        tbl = []
        base = self.generator
        for _ in range(nwin):
            row = [self.identity, base, self.dbl(base)]
            for j in range(3, 16):
                row.append(self.add(row[j - 1], base))
            tbl.append(row)
            base = self.dbl(row[8])
        self._base_table = tbl

    def mul_base(self, k):
        if k < 0:
            return self.neg(self.mul_base(-k))
        if self._base_table is None:
            self._build_base_table()
        tbl = self._base_table
        if k.bit_length() > 4 * len(tbl):
            return self._mul_window(k, self.generator)
        acc = self.identity
        i = 0
        add = self.add
        while k:
            d = k & 15
            if d:
                acc = add(acc, tbl[i][d])
            k >>= 4
            i += 1
        return acc

    def mul(self, k, P):
        if P is self.generator:
            return self.mul_base(k)
        if k < 0:
            return self._mul_window(-k, self.neg(P))
        return self._mul_window(k, P)

    def in_prime_subgroup(self, P):
        return self.is_identity(self._mul_window(self.order, P))

    # ---- scalars ----------------------------------------------------------------------
    def scalar_encode(self, k):
        if not 0 <= k < self.order:
            raise ValueError("scalar out of range")
        return k.to_bytes(self.scalar_len, "big" if self.scalar_big_endian else "little")

    def scalar_decode(self, b):
        b = bytes(b)
        if len(b) != self.scalar_len:
            raise ValueError("bad scalar length")
        k = int.from_bytes(b, "big" if self.scalar_big_endian else "little")
        if k >= self.order:
            raise ValueError("non-canonical scalar")
        return k

    # ---- elements ---------------------------------------------------------------------
    def decode(self, b):
        why = None
        try:
            P = self.decode_raw(b)
        except ValueError as e:
            raise ValueError(str(e)) from None
        if self.is_identity(P):
            why = "identity"
        elif self.cofactor != 1 and not self.in_prime_subgroup(P):
            why = "not in prime-order subgroup"
        if why:
            raise ValueError(why)
        return P

    def decode_why(self, b):
        try:
            self.decode(b)
            return None
        except ValueError as e:
            return str(e) or "invalid"

    def encode(self, P):
        if self.is_identity(P):
            raise ValueError("identity cannot be serialized")
        return self.encode_raw(P)


# =========================================================================================
# Short Weierstrass y^2 = x^3 + a x + b, Jacobian coordinates (X, Y, Z); identity has Z == 0
# =========================================================================================
class Weierstrass(Group):
    scalar_big_endian = True
    elem_len = 33
    scalar_len = 32
    cofactor = 1

    def __init__(self, name, p, a, b, gx, gy, n):
        self.name, self.p, self.a, self.b, self.order = name, p, a % p, b % p, n
        self.identity = (1, 1, 0)
        self.generator = (gx, gy, 1)
        assert self.on_curve(gx, gy)
        assert p % 4 == 3

    def on_curve(self, x, y):
        p = self.p
        return (y * y - (x * x * x + self.a * x + self.b)) % p == 0

    def dbl(self, P):
        X1, Y1, Z1 = P
        p = self.p
        if Z1 == 0 or Y1 == 0:
            return self.identity
        XX = X1 * X1 % p
        YY = Y1 * Y1 % p
        YYYY = YY * YY % p
        ZZ = Z1 * Z1 % p
        S = 4 * X1 * YY % p
        M = (3 * XX + self.a * ZZ * ZZ) % p
        X3 = (M * M - 2 * S) % p
        Y3 = (M * (S - X3) - 8 * YYYY) % p
        Z3 = 2 * Y1 * Z1 % p
        return (X3, Y3, Z3)

    def add(self, P, Q):
        X1, Y1, Z1 = P
        X2, Y2, Z2 = Q
        if Z1 == 0:
            return Q
        if Z2 == 0:
            return P
        p = self.p
        Z1Z1 = Z1 * Z1 % p
        Z2Z2 = Z2 * Z2 % p
        U1 = X1 * Z2Z2 % p
        U2 = X2 * Z1Z1 % p
        S1 = Y1 * Z2 * Z2Z2 % p
        S2 = Y2 * Z1 * Z1Z1 % p
        H = (U2 - U1) % p
        r = (S2 - S1) % p
        if H == 0:
            return self.dbl(P) if r == 0 else self.identity
        HH = H * H % p
        HHH = H * HH % p
        V = U1 * HH % p
        X3 = (r * r - HHH - 2 * V) % p
        Y3 = (r * (V - X3) - S1 * HHH) % p
        Z3 = Z1 * Z2 * H % p
        return (X3, Y3, Z3)

    def neg(self, P):
        return (P[0], -P[1] % self.p, P[2])

    def eq(self, P, Q):
        X1, Y1, Z1 = P
        X2, Y2, Z2 = Q
        if Z1 == 0 or Z2 == 0:
            return Z1 == 0 and Z2 == 0
        p = self.p
        Z1Z1 = Z1 * Z1 % p
        Z2Z2 = Z2 * Z2 % p
        return (X1 * Z2Z2 - X2 * Z1Z1) % p == 0 and (Y1 * Z2 * Z2Z2 - Y2 * Z1 * Z1Z1) % p == 0

    def is_identity(self, P):
        return P[2] == 0

    def to_affine(self, P):
        X, Y, Z = P
        if Z == 0:
            raise ValueError("identity has no affine form")
        p = self.p
        zi = _inv(Z, p)
        zi2 = zi * zi % p
        return (X * zi2 % p, Y * zi2 * zi % p)

    def from_affine(self, x, y):
        if not (0 <= x < self.p and 0 <= y < self.p and self.on_curve(x, y)):
            raise ValueError("not on curve")
        return (x, y, 1)

    def encode_raw(self, P):
        x, y = self.to_affine(P)
        return bytes([2 + (y & 1)]) + x.to_bytes(32, "big")

    def x_bytes(self, P):
        return self.to_affine(P)[0].to_bytes(32, "big")

    def has_even_y(self, P):
        return self.to_affine(P)[1] & 1 == 0

    def lift_x_parity(self, x, odd):
        """Point with the given x and y parity, or ValueError."""
        p = self.p
        if not 0 <= x < p:
            raise ValueError("x not a reduced field element")
        rhs = (x * x * x + self.a * x + self.b) % p
        y = pow(rhs, (p + 1) // 4, p)
        if y * y % p != rhs:
            raise ValueError("x is not the abscissa of a curve point")
        if (y & 1) != (1 if odd else 0):
            y = p - y
        return (x, y, 1)

    def decode_raw(self, b):
        b = bytes(b)
        if len(b) != 33:
            raise ValueError("bad element length")
        if b[0] not in (2, 3):
            raise ValueError("bad SEC1 tag (only compressed 02/03 accepted)")
        return self.lift_x_parity(int.from_bytes(b[1:], "big"), b[0] == 3)


def P256():
    return Weierstrass(
        "P-256",
        p=2**256 - 2**224 + 2**192 + 2**96 - 1,
        a=-3,
        b=0x5AC635D8AA3A93E7B3EBBD55769886BC651D06B0CC53B0F63BCE3C3E27D2604B,
        gx=0x6B17D1F2E12C4247F8BCE6E563A440F277037D812DEB33A0F4A13945D898C296,
        gy=0x4FE342E2FE1A7F9B8EE7EB4A7C0F9E162BCE33576B315ECECBB6406837BF51F5,
        n=0xFFFFFFFF00000000FFFFFFFFFFFFFFFFBCE6FAADA7179E84F3B9CAC2FC632551,
    )


def Secp256k1():
    return Weierstrass(
        "secp256k1",
        p=2**256 - 2**32 - 977,
        a=0,
        b=7,
        gx=0x79BE667EF9DCBBAC55A06295CE870B07029BFCDB2DCE28D959F2815B16F81798,
        gy=0x483ADA7726A3C4655DA4FBFC0E1108A8FD17B448A68554199C47D08FFB10D4B8,
        n=0xFFFFFFFFFFFFFFFFFFFFFFFFFFFFFFFEBAAEDCE6AF48A03BBFD25E8CD0364141,
    )


# =========================================================================================
# edwards25519: -x^2 + y^2 = 1 + d x^2 y^2, extended coordinates (X, Y, Z, T), T = XY/Z
# =========================================================================================
P25519 = 2**255 - 19
L25519 = 2**252 + 27742317777372353535851937790883648493
D25519 = (-121665 * _inv(121666, P25519)) % P25519
SQRT_M1 = pow(2, (P25519 - 1) // 4, P25519)
assert SQRT_M1 * SQRT_M1 % P25519 == P25519 - 1


class Ed25519(Group):
    name = "edwards25519"
    p = P25519
    d = D25519
    order = L25519
    cofactor = 8
    elem_len = 32
    scalar_len = 32

    def __init__(self):
        p = self.p
        self.d2 = 2 * self.d % p
        self.identity = (0, 1, 1, 0)
        gy = 4 * _inv(5, p) % p
        gx = self._recover_x(gy, 0)
        self.generator = (gx, gy, 1, gx * gy % p)

    def _recover_x(self, y, sign):
        """RFC 8032 5.1.3 steps 2-4.  y already checked < p."""
        p = self.p
        u = (y * y - 1) % p
        v = (self.d * y * y + 1) % p
        # candidate root x = u v^3 (u v^7)^((p-5)/8)
        v3 = v * v % p * v % p
        x = u * v3 % p * pow(u * v3 % p * v3 % p * v % p, (p - 5) // 8, p) % p
        vxx = v * x * x % p
        if vxx == u:
            pass
        elif vxx == (-u) % p:
            x = x * SQRT_M1 % p
        else:
            raise ValueError("not on curve (no square root)")
        if x == 0 and sign:
            raise ValueError("non-canonical sign bit (x = 0 with sign 1)")
        if (x & 1) != sign:
            x = p - x
        return x

    def add(self, P, Q):
        X1, Y1, Z1, T1 = P
        X2, Y2, Z2, T2 = Q
        p = self.p
        A = (Y1 - X1) * (Y2 - X2) % p
        B = (Y1 + X1) * (Y2 + X2) % p
        C = T1 * self.d2 % p * T2 % p
        D = 2 * Z1 * Z2 % p
        E = B - A
        F = D - C
        G = D + C
        H = B + A
        return (E * F % p, G * H % p, F * G % p, E * H % p)

    def dbl(self, P):
        X1, Y1, Z1, _ = P
        p = self.p
        A = X1 * X1 % p
        B = Y1 * Y1 % p
        C = 2 * Z1 * Z1 % p
        H = A + B
        E = H - (X1 + Y1) * (X1 + Y1) % p
        G = A - B
        F = C + G
        return (E * F % p, G * H % p, F * G % p, E * H % p)

    def neg(self, P):
        p = self.p
        return (-P[0] % p, P[1], P[2], -P[3] % p)

    def eq(self, P, Q):
        p = self.p
        return (P[0] * Q[2] - Q[0] * P[2]) % p == 0 and (P[1] * Q[2] - Q[1] * P[2]) % p == 0

    def to_affine(self, P):
        p = self.p
        zi = _inv(P[2], p)
        return (P[0] * zi % p, P[1] * zi % p)

    def from_affine(self, x, y):
        p = self.p
        if (-x * x + y * y - 1 - self.d * x * x % p * y * y) % p != 0:
            raise ValueError("not on curve")
        return (x % p, y % p, 1, x * y % p)

    def encode_raw(self, P):
        x, y = self.to_affine(P)
        return (y | ((x & 1) << 255)).to_bytes(32, "little")

    def decode_raw(self, b):
        b = bytes(b)
        if len(b) != 32:
            raise ValueError("bad element length")
        v = int.from_bytes(b, "little")
        sign = v >> 255
        y = v & ((1 << 255) - 1)
        if y >= self.p:
            raise ValueError("non-canonical y (>= p)")
        x = self._recover_x(y, sign)
        return (x, y, 1, x * y % self.p)

    def is_small_order(self, P):
        return self.is_identity(self.dbl(self.dbl(self.dbl(P))))


# =========================================================================================
# ristretto255 (RFC 9496) on top of edwards25519 internal points
# =========================================================================================
def _is_neg(x):
    return x & 1


def _sqrt_ratio_m1(u, v):
    """RFC 9496 4.2: (was_square, r)."""
    p = P25519
    v3 = v * v % p * v % p
    v7 = v3 * v3 % p * v % p
    r = u * v3 % p * pow(u * v7 % p, (p - 5) // 8, p) % p
    check = v * r % p * r % p
    u %= p
    correct = check == u
    flipped = check == (-u) % p
    flipped_i = check == (-u) * SQRT_M1 % p
    if flipped or flipped_i:
        r = r * SQRT_M1 % p
    if _is_neg(r):
        r = p - r
    return (correct or flipped), r


class Ristretto255(Ed25519):
    name = "ristretto255"
    cofactor = 1

    def __init__(self):
        super().__init__()
        p = self.p
        ok, self.invsqrt_a_minus_d = _sqrt_ratio_m1(1, (-1 - self.d) % p)
        assert ok

    def eq(self, P, Q):
        p = self.p
        X1, Y1 = P[0], P[1]
        X2, Y2 = Q[0], Q[1]
        return (X1 * Y2 - Y1 * X2) % p == 0 or (Y1 * Y2 - X1 * X2) % p == 0

    def in_prime_subgroup(self, P):
        return True

    def encode_raw(self, P):
        # RFC 9496 4.3.2
        p = self.p
        x0, y0, z0, t0 = P
        u1 = (z0 + y0) * (z0 - y0) % p
        u2 = x0 * y0 % p
        _, invsqrt = _sqrt_ratio_m1(1, u1 * u2 % p * u2 % p)
        den1 = invsqrt * u1 % p
        den2 = invsqrt * u2 % p
        z_inv = den1 * den2 % p * t0 % p
        ix0 = x0 * SQRT_M1 % p
        iy0 = y0 * SQRT_M1 % p
        ench = den1 * self.invsqrt_a_minus_d % p
        if _is_neg(t0 * z_inv % p):
            x, y, den_inv = iy0, ix0, ench
        else:
            x, y, den_inv = x0, y0, den2
        if _is_neg(x * z_inv % p):
            y = -y % p
        s = den_inv * (z0 - y) % p
        if _is_neg(s):
            s = p - s
        return s.to_bytes(32, "little")

    def decode_raw(self, b):
        # RFC 9496 4.3.1
        b = bytes(b)
        if len(b) != 32:
            raise ValueError("bad element length")
        p = self.p
        s = int.from_bytes(b, "little")
        if s >= p:
            raise ValueError("non-canonical field element (s >= p)")
        if _is_neg(s):
            raise ValueError("negative field element s")
        ss = s * s % p
        u1 = (1 - ss) % p
        u2 = (1 + ss) % p
        u2s = u2 * u2 % p
        v = (-(self.d * u1 % p * u1) - u2s) % p
        ok, invsqrt = _sqrt_ratio_m1(1, v * u2s % p)
        den_x = invsqrt * u2 % p
        den_y = invsqrt * den_x % p * v % p
        x = 2 * s * den_x % p
        if _is_neg(x):
            x = p - x
        y = u1 * den_y % p
        t = x * y % p
        if not ok:
            raise ValueError("non-square: not a valid ristretto255 encoding")
        if _is_neg(t):
            raise ValueError("negative t: not a valid ristretto255 encoding")
        if y == 0:
            raise ValueError("y = 0: not a valid ristretto255 encoding")
        return (x, y, 1, t)


# =========================================================================================
# edwards448: x^2 + y^2 = 1 + d x^2 y^2, d = -39081, projective (X, Y, Z)
# =========================================================================================
P448 = 2**448 - 2**224 - 1
L448 = 2**446 - 13818066809895115352007386748515426880336692474882178609894547503885


class Ed448(Group):
    name = "edwards448"
    p = P448
    d = (-39081) % P448
    order = L448
    cofactor = 4
    elem_len = 57
    scalar_len = 57

    def __init__(self):
        gx = 224580040295924300187604334099896036246789641632564134246125461686950415467406032909029192869357953282578032075146446173674602635247710
        gy = 298819210078481492676017930443930673437544040154080242095928241372331506189835876003536878655418784733982303233503462500531545062832660
        self.identity = (0, 1, 1)
        self.generator = self.from_affine(gx, gy)

    def add(self, P, Q):
        X1, Y1, Z1 = P
        X2, Y2, Z2 = Q
        p = self.p
        A = Z1 * Z2 % p
        B = A * A % p
        C = X1 * X2 % p
        D = Y1 * Y2 % p
        E = self.d * C % p * D % p
        F = B - E
        G = B + E
        H = (X1 + Y1) * (X2 + Y2) % p
        return (A * F % p * (H - C - D) % p, A * G % p * (D - C) % p, F * G % p)

    def dbl(self, P):
        X1, Y1, Z1 = P
        p = self.p
        B = (X1 + Y1) * (X1 + Y1) % p
        C = X1 * X1 % p
        D = Y1 * Y1 % p
        E = C + D
        H = Z1 * Z1 % p
        J = E - 2 * H
        return ((B - E) * J % p, E * (C - D) % p, E * J % p)

    def neg(self, P):
        return (-P[0] % self.p, P[1], P[2])

    def eq(self, P, Q):
        p = self.p
        return (P[0] * Q[2] - Q[0] * P[2]) % p == 0 and (P[1] * Q[2] - Q[1] * P[2]) % p == 0

    def to_affine(self, P):
        p = self.p
        zi = _inv(P[2], p)
        return (P[0] * zi % p, P[1] * zi % p)

    def from_affine(self, x, y):
        p = self.p
        if (x * x + y * y - 1 - self.d * x * x % p * y * y) % p != 0:
            raise ValueError("not on curve")
        return (x % p, y % p, 1)

    def encode_raw(self, P):
        x, y = self.to_affine(P)
        return y.to_bytes(56, "little") + bytes([(x & 1) << 7])

    def decode_raw(self, b):
        b = bytes(b)
        if len(b) != 57:
            raise ValueError("bad element length")
        if b[56] & 0x7F:
            raise ValueError("non-canonical: unused bits of last byte set")
        sign = b[56] >> 7
        p = self.p
        y = int.from_bytes(b[:56], "little")
        if y >= p:
            raise ValueError("non-canonical y (>= p)")
        u = (y * y - 1) % p
        v = (self.d * y * y - 1) % p
        # x = u^3 v (u^5 v^3)^((p-3)/4)   (RFC 8032 5.2.3)
        u3 = u * u % p * u % p
        v3 = v * v % p * v % p
        x = u3 * v % p * pow(u3 * u % p * u % p * v3 % p, (p - 3) // 4, p) % p
        if v * x % p * x % p != u:
            raise ValueError("not on curve (no square root)")
        if x == 0 and sign:
            raise ValueError("non-canonical sign bit (x = 0 with sign 1)")
        if (x & 1) != sign:
            x = p - x
        return (x, y, 1)

    def is_small_order(self, P):
        return self.is_identity(self.dbl(self.dbl(P)))

    def scalar_decode(self, b):
        b = bytes(b)
        if len(b) != 57:
            raise ValueError("bad scalar length")
        if b[56] != 0:
            raise ValueError("non-canonical scalar (57th byte non-zero)")
        return super().scalar_decode(b)


_CACHE = {}


def get_group(name):
    """Singletons, so fixed-base tables are built once per process."""
    if name not in _CACHE:
        _CACHE[name] = {
            "ed25519": Ed25519,
            "ristretto255": Ristretto255,
            "ed448": Ed448,
            "p256": P256,
            "secp256k1": Secp256k1,
        }[name]()
    return _CACHE[name]
