#!/usr/bin/env python3
"""python3 hostile.py <suite>

Prints {"elements":[{"hex","why"},...],"scalars":[{"hex","why"},...]}: encodings that a
canonical decoder for the suite's element / scalar encoding MUST reject.  Every entry is
checked against our own strict decoder before being emitted (AssertionError otherwise)."""
import hashlib
import json
import os
import sys

sys.path.insert(0, os.path.dirname(os.path.abspath(__file__)))

from curves import get_group  # noqa: E402

SUITES = ("ed25519", "ed448", "p256", "ristretto255", "secp256k1", "secp256k1-tr")


def _le(v, n):
    return v.to_bytes(n, "little")


def _weierstrass(g):
    p, out = g.p, []
    gx = g.to_affine(g.generator)[0]
    x2 = g.to_affine(g.dbl(g.generator))[0]
    out.append((bytes(33), "identity: all-zero 33 bytes (SEC1 infinity tag 00, zero padded)"))
    for x, nm in ((gx, "x(G)"), (x2, "x(2G)")):
        for tag in (0x00, 0x01, 0x04, 0x05, 0x06, 0x07, 0x82, 0xFF):
            out.append((bytes([tag]) + x.to_bytes(32, "big"), "SEC1 tag %02x with valid %s" % (tag, nm)))
    # x not on curve
    found = 0
    x = 1
    while found < 3:
        try:
            g.lift_x_parity(x, 0)
        except ValueError:
            for tag in (2, 3):
                out.append((bytes([tag]) + x.to_bytes(32, "big"), "x = %d is not the abscissa of a curve point" % x))
            found += 1
        x += 1
    # unreduced x: x' + p < 2^256 with x' on the curve
    found = 0
    x = 0
    while found < 3:
        try:
            g.lift_x_parity(x, 0)
            if x + p < 2**256:
                for tag in (2, 3):
                    out.append((bytes([tag]) + (x + p).to_bytes(32, "big"),
                                "x >= p: x = p + %d, reduced value is on the curve" % x))
                found += 1
        except ValueError:
            pass
        x += 1
    out.append((b"\x02" + p.to_bytes(32, "big"), "x = p (unreduced zero)"))
    out.append((b"\x02" + b"\xff" * 32, "x = 2^256 - 1 (>= p)"))
    out.append((b"\x03" + b"\xff" * 32, "x = 2^256 - 1 (>= p)"))
    G = g.encode(g.generator)
    ax, ay = g.to_affine(g.generator)
    out.append((G[:32], "wrong length: 32 bytes (truncated)"))
    out.append((G + b"\x00", "wrong length: 34 bytes"))
    out.append((b"\x00", "wrong length: SEC1 one-byte infinity"))
    out.append((b"\x04" + ax.to_bytes(32, "big") + ay.to_bytes(32, "big"), "wrong length: SEC1 uncompressed 65 bytes"))
    out.append((b"", "wrong length: empty"))
    return out


def _torsion25519(g):
    y = 2
    while True:
        try:
            Q = g.decode_raw(_le(y, 32))
            T = g._mul_window(g.order, Q)
            if not g.is_identity(g.dbl(g.dbl(T))):
                return [g._mul_window(k, T) for k in range(8)]
        except ValueError:
            pass
        y += 1


def _ed25519(g):
    p, out = g.p, []
    tors = _torsion25519(g)
    out.append((g.encode_raw(g.identity), "identity (0,1)"))
    out.append((_le(1 | 1 << 255, 32), "identity with sign bit set (x = 0, sign 1): non-canonical"))
    out.append((_le(p + 1, 32), "identity, non-canonical y = p + 1"))
    out.append((_le((p + 1) | 1 << 255, 32), "identity, non-canonical y = p + 1 and sign bit set"))
    for k in range(1, 8):
        T = tors[k]
        order = 2 if k == 4 else (4 if k % 2 == 0 else 8)
        out.append((g.encode_raw(T), "small-order point (order %d)" % order))
    out.append((_le((p - 1) | 1 << 255, 32), "order-2 point (0,-1) with sign bit set: non-canonical"))
    out.append((_le(p, 32), "order-4 point, non-canonical y = p (== 0)"))
    out.append((_le(p | 1 << 255, 32), "order-4 point, non-canonical y = p (== 0), sign 1"))
    for nm, P in (("B", g.generator), ("[2]B", g.dbl(g.generator)), ("[L-1]B", g.neg(g.generator))):
        for k in range(1, 8):
            out.append((g.encode_raw(g.add(P, tors[k])), "mixed-order point %s + T%d (torsion component)" % (nm, k)))
    for k in range(0, 19):
        for sign in (0, 1):
            out.append((_le((p + k) | sign << 255, 32), "non-canonical y = p + %d (>= p), sign %d" % (k, sign)))
    found, y = 0, 2
    while found < 3:
        try:
            g.decode_raw(_le(y, 32))
        except ValueError:
            for sign in (0, 1):
                out.append((_le(y | sign << 255, 32), "y = %d is not on the curve, sign %d" % (y, sign)))
            found += 1
        y += 1
    out.append((b"\xff" * 32, "all ones (y = 2^255 - 1 >= p)"))
    B = g.encode(g.generator)
    out += [(B[:31], "wrong length: 31 bytes"), (B + b"\x00", "wrong length: 33 bytes"), (b"", "wrong length: empty")]
    return out


def _ed448(g):
    p, out = g.p, []
    one = g.from_affine(1, 0)
    tors = [g.identity, one, g.dbl(one), g.neg(one)]  # (0,1) (1,0) (0,-1) (-1,0)
    out.append((g.encode_raw(g.identity), "identity (0,1)"))
    out.append((_le(1, 56) + b"\x80", "identity with sign bit set (x = 0, sign 1): non-canonical"))
    out.append((_le(p + 1, 56) + b"\x00", "identity, non-canonical y = p + 1"))
    out.append((g.encode_raw(tors[2]), "small-order point (0,-1) (order 2)"))
    out.append((_le(p - 1, 56) + b"\x80", "order-2 point (0,-1) with sign bit set: non-canonical"))
    out.append((g.encode_raw(tors[1]), "small-order point (1,0) (order 4)"))
    out.append((g.encode_raw(tors[3]), "small-order point (-1,0) (order 4)"))
    out.append((_le(p, 56) + b"\x00", "order-4 point, non-canonical y = p (== 0)"))
    out.append((_le(p, 56) + b"\x80", "order-4 point, non-canonical y = p (== 0), sign 1"))
    for nm, P in (("B", g.generator), ("[2]B", g.dbl(g.generator)), ("[L-1]B", g.neg(g.generator))):
        for k in range(1, 4):
            out.append((g.encode_raw(g.add(P, tors[k])), "mixed-order point %s + T%d (torsion component)" % (nm, k)))
    B = g.encode(g.generator)
    for bits in (0x01, 0x02, 0x40, 0x7F):
        out.append((B[:56] + bytes([B[56] | bits]), "generator with unused bits %02x set in last byte" % bits))
    # non-canonical y = y' + p < 2^448 with y' on the curve
    found, y = 0, 0
    while found < 4:
        try:
            g.decode_raw(_le(y, 56) + b"\x00")
            for sign in (0, 0x80):
                out.append((_le(y + p, 56) + bytes([sign]), "non-canonical y = p + %d (>= p), sign %d" % (y, sign >> 7)))
            found += 1
        except ValueError:
            pass
        y += 1
    found, y = 0, 2
    while found < 3:
        try:
            g.decode_raw(_le(y, 56) + b"\x00")
        except ValueError:
            for sign in (0, 0x80):
                out.append((_le(y, 56) + bytes([sign]), "y = %d is not on the curve, sign %d" % (y, sign >> 7)))
            found += 1
        y += 1
    out.append((b"\xff" * 57, "all ones"))
    out.append((b"\xff" * 56 + b"\x00", "y = 2^448 - 1 (>= p)"))
    out += [(B[:56], "wrong length: 56 bytes"), (B + b"\x00", "wrong length: 58 bytes"), (b"", "wrong length: empty")]
    return out


def _ristretto(g):
    p, out = g.p, []
    out.append((bytes(32), "identity (all zero)"))
    # the self-evidently invalid encodings listed in RFC 9496 A.2
    for hx, why in (
        ("00ffffffffffffffffffffffffffffffffffffffffffffffffffffffffffffff", "non-canonical field element (bit 255 set)"),
        ("ffffffffffffffffffffffffffffffffffffffffffffffffffffffffffffff7f", "non-canonical field element (s = 2^255 - 1 >= p)"),
        ("f3ffffffffffffffffffffffffffffffffffffffffffffffffffffffffffff7f", "non-canonical field element (s = p + 6)"),
        ("edffffffffffffffffffffffffffffffffffffffffffffffffffffffffffff7f", "non-canonical field element (s = p)"),
        ("0100000000000000000000000000000000000000000000000000000000000000", "negative field element (s = 1)"),
        ("01ffffffffffffffffffffffffffffffffffffffffffffffffffffffffffff7f", "negative field element (odd s)"),
        ("ecffffffffffffffffffffffffffffffffffffffffffffffffffffffffffff7f", "s = -1, which gives y = 0"),
    ):
        out.append((bytes.fromhex(hx), why))
    out.append((_le(p + 2, 32), "non-canonical field element s = p + 2 (reduced value 2 is even)"))
    out.append((b"\xff" * 32, "all ones"))
    # valid encodings with a defect added
    for k in (1, 2, 3):
        s = int.from_bytes(g.encode(g.mul(k, g.generator)), "little")
        out.append((_le(p - s, 32), "negative field element: s = -enc([%d]B)" % k))
        out.append((_le(s | 1 << 255, 32), "enc([%d]B) with bit 255 set" % k))
        if s + p < 2**255:
            out.append((_le(s + p, 32), "non-canonical field element: enc([%d]B) + p" % k))
    # algebraically generated: even canonical s that fail the decoding equations
    want = {"non-square": 4, "negative t": 4}
    ctr = 0
    cands = list(range(2, 200, 2))
    while any(want.values()):
        if cands:
            s = cands.pop(0)
        else:
            s = int.from_bytes(hashlib.sha256(b"hostile-ristretto" + ctr.to_bytes(4, "big")).digest(), "little") >> 2 << 1
            ctr += 1
        why = g.decode_why(_le(s, 32))
        for key in want:
            if why and why.startswith(key) and want[key]:
                want[key] -= 1
                out.append((_le(s, 32), why + " (even, canonical s)"))
    for i in range(4):  # larger pseudo-random examples of both kinds
        n = 0
        while True:
            s = int.from_bytes(hashlib.sha256(b"hostile-r255-%d-%d" % (i, n)).digest(), "little") >> 2 << 1
            why = g.decode_why(_le(s, 32))
            if why and why.startswith("non-square" if i % 2 == 0 else "negative t"):
                out.append((_le(s, 32), why + " (even, canonical s)"))
                break
            n += 1
    B = g.encode(g.generator)
    out += [(B[:31], "wrong length: 31 bytes"), (B + b"\x00", "wrong length: 33 bytes"), (b"", "wrong length: empty")]
    return out


def _scalars(g):
    q, n = g.order, g.scalar_len
    enc = (lambda v, ln=n: v.to_bytes(ln, "big")) if g.scalar_big_endian else (lambda v, ln=n: v.to_bytes(ln, "little"))
    out = [(enc(q), "scalar == group order"), (enc(q + 1), "scalar == order + 1"),
           (enc(q + 0xFFFF), "scalar == order + 65535"),
           (b"\xff" * n, "all ones (2^%d - 1)" % (8 * n))]
    if 2 * q < 2 ** (8 * n):
        out.append((enc(2 * q), "scalar == 2 * order"))
        out.append((enc(2 * q + 1), "scalar == 2 * order + 1 (reduces to 1)"))
    k = q.bit_length()
    if 2**k - 1 >= q and 2**k - 1 != 2 ** (8 * n) - 1:
        out.append((enc(2**k - 1), "2^%d - 1 (all ones up to the order's bit length)" % k))
    if 2**k < 2 ** (8 * n):
        out.append((enc(2**k), "2^%d (> order)" % k))
    if g.name == "edwards25519" or g.name == "ristretto255":
        out.append((enc(2**255 - 1), "2^255 - 1"))
        out.append((enc(1 | 1 << 255), "1 with bit 255 set"))
        out.append((enc(q - 1 + (1 << 255)), "order - 1 with bit 255 set"))
    if g.name == "edwards448":
        out.append((enc(1, 56) + b"\x01", "1 with non-zero 57th byte (01)"))
        out.append((enc(1, 56) + b"\x80", "1 with non-zero 57th byte (80)"))
        out.append((enc(q - 1, 56) + b"\xff", "order - 1 with non-zero 57th byte (ff)"))
        out.append((bytes(56) + b"\x01", "2^448 (57th byte non-zero)"))
        out.append((b"\xff" * 56 + b"\x00", "2^448 - 1"))
        out.append((enc(2**447, 56) + b"\x00", "2^447"))
    one = g.scalar_encode(1)
    out += [(one[:-1], "wrong length: %d bytes" % (n - 1)), (one + b"\x00", "wrong length: %d bytes" % (n + 1)),
            (b"", "wrong length: empty")]
    return out


def generate(suite):
    if suite not in SUITES:
        raise KeyError("unknown suite %r" % (suite,))
    gname = "secp256k1" if suite == "secp256k1-tr" else suite
    g = get_group(gname)
    elems = {"ed25519": _ed25519, "ed448": _ed448, "ristretto255": _ristretto}.get(gname, _weierstrass)(g)
    scal = _scalars(g)
    res = {"elements": [], "scalars": []}
    seen = set()
    for b, why in elems:
        if ("e", b) in seen:
            continue
        seen.add(("e", b))
        assert g.decode_why(b) is not None, "hostile element unexpectedly accepted: %s (%s)" % (b.hex(), why)
        res["elements"].append({"hex": b.hex(), "why": why})
    for b, why in scal:
        if ("s", b) in seen:
            continue
        seen.add(("s", b))
        try:
            g.scalar_decode(b)
        except ValueError:
            res["scalars"].append({"hex": b.hex(), "why": why})
            continue
        raise AssertionError("hostile scalar unexpectedly accepted: %s (%s)" % (b.hex(), why))
    return res


if __name__ == "__main__":
    if len(sys.argv) != 2 or sys.argv[1] not in SUITES:
        sys.stderr.write("usage: hostile.py <%s>\n" % "|".join(SUITES))
        sys.exit(2)
    print(json.dumps(generate(sys.argv[1])))
