"""Reference FROST (RFC 9591) for six suites:
ed25519, ed448, p256, ristretto255, secp256k1 (RFC suites) and secp256k1-tr (the
ZcashFoundation/frost Taproot/BIP-340 variant).

Scalars are Python ints, elements are opaque group points (see curves.py); everything that
goes over the wire is bytes.  Also: plain RFC 8032 Ed25519 (strict) / Ed448 verification and
signing, and `ordinary_verify`, the single-signer verifier a third party would run.
"""
import hashlib

import bip340_ref
from curves import get_group
from hashes import get_hashes, tagged_hash

SUITES = ("ed25519", "ed448", "p256", "ristretto255", "secp256k1", "secp256k1-tr")


class Suite:
    taproot = False

    def __init__(self, name):
        self.name = name
        self.G = get_group("secp256k1" if name == "secp256k1-tr" else name)
        self.H = get_hashes(name)
        self.order = self.G.order
        self.B = self.G.generator

    # ---- encodings ----------------------------------------------------------------------
    def ser_elem(self, P):
        return self.G.encode(P)

    def de_elem(self, b):
        return self.G.decode(b)

    def ser_scalar(self, k):
        return self.G.scalar_encode(k % self.order)

    def de_scalar(self, b):
        return self.G.scalar_decode(b)

    def identifier_from_u16(self, n):
        if not 0 < n < 65536:
            raise ValueError("identifier must be in 1..65535")
        return self.ser_scalar(n)

    def public_key(self, sk):
        return self.G.mul(sk % self.order, self.B)

    # ---- round one ------------------------------------------------------------------------
    def nonce_generate(self, random_bytes32, share):
        if len(random_bytes32) != 32:
            raise ValueError("nonce randomness must be 32 bytes")
        return self.H.H3(bytes(random_bytes32) + self.ser_scalar(share))

    def commit(self, nonce):
        return self.G.mul(nonce, self.B)

    # ---- list / binding factors -------------------------------------------------------------
    def encode_group_commitment_list(self, commits):
        """commits: {identifier_int: (hiding_point, binding_point)}; ascending numeric id."""
        out = b""
        for i in sorted(commits):
            D, E = commits[i]
            out += self.ser_scalar(i) + self.ser_elem(D) + self.ser_elem(E)
        return out

    def binding_factor_inputs(self, PK, commits, msg):
        prefix = self.ser_elem(PK) + self.H.H4(msg) + self.H.H5(self.encode_group_commitment_list(commits))
        return {i: prefix + self.ser_scalar(i) for i in sorted(commits)}

    def compute_binding_factors(self, PK, commits, msg):
        return {i: self.H.H1(pre) for i, pre in self.binding_factor_inputs(PK, commits, msg).items()}

    def compute_group_commitment(self, commits, rhos):
        G = self.G
        R = G.identity
        for i in sorted(commits):
            D, E = commits[i]
            if G.is_identity(D) or G.is_identity(E):
                raise ValueError("identity commitment")
            R = G.add(R, G.add(D, G.mul(rhos[i], E)))
        return R

    def compute_challenge(self, R, PK, msg):
        return self.H.H2(self.ser_elem(R) + self.ser_elem(PK) + msg)

    # ---- polynomials --------------------------------------------------------------------------
    def lagrange(self, ids, i, x=None):
        """Lagrange basis coefficient l_i(x) over the identifier set `ids` (x=None -> 0)."""
        q = self.order
        ids = [j % q for j in ids]
        i %= q
        if len(set(ids)) != len(ids) or i not in ids or 0 in ids:
            raise ValueError("bad identifier set")
        num = den = 1
        xx = 0 if x is None else x % q
        for j in ids:
            if j == i:
                continue
            num = num * (xx - j) % q
            den = den * (i - j) % q
        return num * pow(den, -1, q) % q

    def derive_interpolating_value(self, ids, i):
        return self.lagrange(ids, i, None)

    def poly_eval(self, coeffs, x):
        """coeffs[0] + coeffs[1] x + ...  mod order"""
        r = 0
        for c in reversed(coeffs):
            r = (r * x + c) % self.order
        return r

    # ---- round two / aggregation ---------------------------------------------------------------
    def sign_share(self, d, e, rho, lam, share, c):
        return (d + e * rho + lam * share * c) % self.order

    def aggregate(self, R, z_shares):
        return self.encode_signature(R, sum(z_shares) % self.order)

    def verify_signature_share(self, z_i, D, E, rho, lam, VS, c, R=None):
        G = self.G
        comm = self._effective_commitment_share(R, G.add(D, G.mul(rho, E)))
        return G.eq(G.mul(z_i, self.B), G.add(comm, G.mul(c * lam % self.order, VS)))

    # ---- signatures ----------------------------------------------------------------------------
    def encode_signature(self, R, z):
        return self.ser_elem(R) + self.ser_scalar(z)

    def decode_signature(self, sig):
        n = self.G.elem_len
        if len(sig) != n + self.G.scalar_len:
            raise ValueError("bad signature length")
        return self.de_elem(sig[:n]), self.de_scalar(sig[n:])

    def verify(self, msg, sig, PK):
        """RFC 9591 prime-order Schnorr check  [h]([z]B - [c]PK - R) == identity."""
        G = self.G
        try:
            R, z = self.decode_signature(sig)
        except ValueError:
            return False
        PK, R = self._pre_verify(PK, R)
        c = self.compute_challenge(R, PK, msg)
        chk = G.sub(G.sub(G.mul(z, self.B), G.mul(c, PK)), R)
        return G.is_identity(G.mul(G.cofactor, chk))

    def verify_bytes(self, msg, sig, pk_bytes):
        try:
            PK = self.de_elem(pk_bytes)
        except ValueError:
            return False
        return self.verify(msg, sig, PK)

    def single_sign(self, sk, msg, nonce_k):
        """Plain Schnorr signature with the suite challenge: R = kB, z = k + c*sk."""
        sk, k = self._pre_single_sign(sk % self.order, nonce_k % self.order)
        if sk == 0 or k == 0:
            raise ValueError("zero key or nonce")
        R, PK = self.G.mul(k, self.B), self.G.mul(sk, self.B)
        return self.encode_signature(R, (k + self.compute_challenge(R, PK, msg) * sk) % self.order)

    # ---- DKG proof of knowledge (library extension; anchors HDKG) ------------------------------
    def dkg_challenge(self, ident, phi0, R):
        return self.H.HDKG(self.ser_scalar(ident) + self.ser_elem(phi0) + self.ser_elem(R))

    def dkg_verify_pok(self, ident, phi0, pok):
        G = self.G
        try:
            R, mu = self.decode_signature(pok)
        except ValueError:
            return False
        c = self.dkg_challenge(ident, phi0, R)
        return G.eq(R, G.sub(G.mul(mu, self.B), G.mul(c, phi0)))

    # ---- hooks overridden by the Taproot suite ---------------------------------------------------
    def _effective_keys(self, PK, shares, tweak):
        if tweak is not None:
            raise ValueError("tweak is only defined for secp256k1-tr")
        return PK, dict(shares)

    def _effective_nonces(self, R, d, e):
        return d, e

    def _effective_commitment_share(self, R, comm):
        return comm

    def _pre_verify(self, PK, R):
        return PK, R

    def _pre_single_sign(self, sk, k):
        return sk, k

    # ---- a whole signing session ----------------------------------------------------------------
    def session(self, PK, msg, signers, tweak=None):
        """signers: iterable of dicts {id:int, share:int, hiding:int, binding:int} (any order,
        share = secret signing share as held in the key package, nonces as scalars).
        tweak: None, or {"merkle_root": bytes|None} (secp256k1-tr only).
        Returns every intermediate value, keyed by identifier int where applicable."""
        G = self.G
        signers = sorted(signers, key=lambda s: s["id"] % self.order)
        ids = [s["id"] % self.order for s in signers]
        if len(set(ids)) != len(ids) or 0 in ids:
            raise ValueError("duplicate or zero identifier")
        PKe, shares = self._effective_keys(PK, {s["id"] % self.order: s["share"] for s in signers}, tweak)
        commits = {i: (self.commit(s["hiding"]), self.commit(s["binding"])) for i, s in zip(ids, signers)}
        inputs = self.binding_factor_inputs(PKe, commits, msg)
        rhos = {i: self.H.H1(inputs[i]) for i in ids}
        R = self.compute_group_commitment(commits, rhos)
        c = self.compute_challenge(R, PKe, msg)
        lams, zs = {}, {}
        for i, s in zip(ids, signers):
            lams[i] = self.derive_interpolating_value(ids, i)
            d, e = self._effective_nonces(R, s["hiding"], s["binding"])
            zs[i] = self.sign_share(d, e, rhos[i], lams[i], shares[i], c)
        return {
            "ids": ids, "commitments": commits, "binding_factor_inputs": inputs,
            "binding_factors": rhos, "group_commitment": R, "challenge": c, "lambdas": lams,
            "sig_shares": zs, "signature": self.aggregate(R, zs.values()),
            "effective_key": PKe, "effective_shares": shares,
        }


class TaprootSuite(Suite):
    """FROST(secp256k1, SHA-256) with BIP-340 signatures / BIP-341 tweaks as implemented by
    the frost-secp256k1-tr crate."""
    taproot = True

    def x(self, P):
        return self.G.x_bytes(P)

    def even_y(self, P):
        return P if self.G.has_even_y(P) else self.G.neg(P)

    def tap_tweak_scalar(self, PK, merkle_root=None):
        return int.from_bytes(tagged_hash("TapTweak", self.x(PK) + bytes(merkle_root or b"")), "big") % self.order

    def tweak_keys(self, PK, shares, merkle_root=None):
        """KeyPackage::tweak: P' = even_y(P) + tG ; s_i' = (+-s_i) + t."""
        G, q = self.G, self.order
        t = self.tap_tweak_scalar(PK, merkle_root)
        if not G.has_even_y(PK):
            PK, shares = G.neg(PK), {i: -s % q for i, s in shares.items()}
        return G.add(PK, G.mul(t, self.B)), {i: (s + t) % q for i, s in shares.items()}

    def _effective_keys(self, PK, shares, tweak):
        G, q = self.G, self.order
        shares = {i: s % q for i, s in shares.items()}
        if tweak is not None:
            PK, shares = self.tweak_keys(PK, shares, tweak.get("merkle_root"))
        if not G.has_even_y(PK):  # pre_sign / pre_aggregate: into_even_y
            PK, shares = G.neg(PK), {i: -s % q for i, s in shares.items()}
        return PK, shares

    def _effective_nonces(self, R, d, e):
        return (d, e) if self.G.has_even_y(R) else (-d % self.order, -e % self.order)

    def _effective_commitment_share(self, R, comm):
        return comm if R is None or self.G.has_even_y(R) else self.G.neg(comm)

    def _pre_verify(self, PK, R):
        return self.even_y(PK), self.even_y(R)

    def _pre_single_sign(self, sk, k):
        G = self.G
        if not G.has_even_y(G.mul(sk, self.B)):
            sk = self.order - sk
        if not G.has_even_y(G.mul(k, self.B)):
            k = self.order - k
        return sk, k

    def compute_challenge(self, R, PK, msg):
        return self.H.H2(self.x(R) + self.x(PK) + msg)

    def encode_signature(self, R, z):
        return self.x(R) + self.ser_scalar(z)

    def decode_signature(self, sig):
        if len(sig) != 64:
            raise ValueError("bad signature length")
        return self.de_elem(b"\x02" + sig[:32]), self.de_scalar(sig[32:])


_SUITES = {}


def get_suite(name):
    if name not in _SUITES:
        if name not in SUITES:
            raise KeyError("unknown suite %r" % (name,))
        _SUITES[name] = TaprootSuite(name) if name == "secp256k1-tr" else Suite(name)
    return _SUITES[name]


# ==========================================================================================
# Plain RFC 8032
# ==========================================================================================
def _ed25519_expand(seed32):
    h = hashlib.sha512(seed32).digest()
    a = int.from_bytes(h[:32], "little")
    a &= (1 << 254) - 8
    a |= 1 << 254
    return a, h[32:]


def rfc8032_ed25519_public(seed32):
    G = get_group("ed25519")
    return G.encode_raw(G.mul(_ed25519_expand(seed32)[0], G.generator))


def rfc8032_ed25519_sign(seed32, msg):
    G = get_group("ed25519")
    a, prefix = _ed25519_expand(seed32)
    A = G.encode_raw(G.mul(a, G.generator))
    r = int.from_bytes(hashlib.sha512(prefix + msg).digest(), "little") % G.order
    Rb = G.encode_raw(G.mul(r, G.generator))
    k = int.from_bytes(hashlib.sha512(Rb + A + msg).digest(), "little") % G.order
    return Rb + ((r + k * a) % G.order).to_bytes(32, "little")


def rfc8032_ed25519_verify_strict(pk32, msg, sig64):
    """RFC 8032 Ed25519 verification, strict flavour (like ed25519-dalek verify_strict):
    canonical A and R, S < L, small-order A or R rejected, cofactorless [S]B == R + [k]A."""
    G = get_group("ed25519")
    if len(pk32) != 32 or len(sig64) != 64:
        return False
    try:
        A = G.decode_raw(pk32)
        R = G.decode_raw(sig64[:32])
    except ValueError:
        return False
    S = int.from_bytes(sig64[32:], "little")
    if S >= G.order or G.is_small_order(A) or G.is_small_order(R):
        return False
    k = int.from_bytes(hashlib.sha512(sig64[:32] + pk32 + msg).digest(), "little") % G.order
    return G.eq(G.mul(S, G.generator), G.add(R, G.mul(k, A)))


def _dom4(context):
    return b"SigEd448" + bytes([0, len(context)]) + context


def _ed448_expand(seed57):
    h = hashlib.shake_256(seed57).digest(114)
    b = bytearray(h[:57])
    b[0] &= 0xFC
    b[55] |= 0x80
    b[56] = 0
    return int.from_bytes(b, "little"), h[57:]


def rfc8032_ed448_public(seed57):
    G = get_group("ed448")
    return G.encode_raw(G.mul(_ed448_expand(seed57)[0], G.generator))


def rfc8032_ed448_sign(seed57, msg, context=b""):
    G = get_group("ed448")
    a, prefix = _ed448_expand(seed57)
    A = G.encode_raw(G.mul(a, G.generator))
    sh = lambda b: int.from_bytes(hashlib.shake_256(b).digest(114), "little") % G.order
    r = sh(_dom4(context) + prefix + msg)
    Rb = G.encode_raw(G.mul(r, G.generator))
    k = sh(_dom4(context) + Rb + A + msg)
    return Rb + ((r + k * a) % G.order).to_bytes(57, "little")


def rfc8032_ed448_verify(pk57, msg, sig114, context=b"", cofactored=False, strict=True):
    """RFC 8032 Ed448 (pure) verification: canonical A and R, S < L (57th byte zero).
    Default is the cofactorless equation [S]B == R + [k]A (the stricter of the two the RFC
    allows); cofactored=True checks [4][S]B == [4]R + [4][k]A.  strict=True (default)
    additionally rejects small-order A and R, mirroring the Ed25519 strict verifier; with
    strict=False, cofactored=True this is the most permissive reading of the RFC."""
    G = get_group("ed448")
    if len(pk57) != 57 or len(sig114) != 114:
        return False
    try:
        A = G.decode_raw(pk57)
        R = G.decode_raw(sig114[:57])
        S = G.scalar_decode(sig114[57:])
    except ValueError:
        return False
    if strict and (G.is_small_order(A) or G.is_small_order(R)):
        return False
    k = int.from_bytes(hashlib.shake_256(_dom4(context) + sig114[:57] + pk57 + msg).digest(114), "little") % G.order
    lhs, rhs = G.mul(S, G.generator), G.add(R, G.mul(k, A))
    if cofactored:
        lhs, rhs = G.mul(4, lhs), G.mul(4, rhs)
    return G.eq(lhs, rhs)


# ==========================================================================================
# The verifier an outside party would use for a finished signature
# ==========================================================================================
def tr_output_key(vk_bytes, tweak=None):
    """x-only BIP-340 key for a secp256k1-tr verifying key given as 33-byte SEC1 compressed
    (any parity) or 32-byte x-only; BIP-341-tweaked when tweak = {"merkle_root": ...}."""
    if len(vk_bytes) == 33:
        get_group("secp256k1").decode(vk_bytes)  # ValueError if not a valid point
        x = vk_bytes[1:]
    elif len(vk_bytes) == 32:
        x = bytes(vk_bytes)
    else:
        raise ValueError("bad verifying key length")
    if tweak is not None:
        x = bip340_ref.taproot_tweak_pubkey(x, tweak.get("merkle_root"))[1]
    return x


def ordinary_verify(suite_name, vk_bytes, msg, sig, tweak=None):
    if suite_name == "ed25519":
        return rfc8032_ed25519_verify_strict(vk_bytes, msg, sig)
    if suite_name == "ed448":
        return rfc8032_ed448_verify(vk_bytes, msg, sig)
    if suite_name == "secp256k1-tr":
        try:
            x = tr_output_key(vk_bytes, tweak)
        except ValueError:
            return False
        return bip340_ref.verify(x, msg, sig)
    if tweak is not None:
        raise ValueError("tweak is only defined for secp256k1-tr")
    return get_suite(suite_name).verify_bytes(msg, sig, vk_bytes)
