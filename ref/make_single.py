#!/usr/bin/env python3
"""python3 make_single.py <suite> <count> <seed>

Prints <count> JSON lines {"type":"single_sig",...} with reference-made single-signer
signatures, deterministic in (suite, seed).  Messages have varied lengths (including empty).
  ed25519 / ed448 : valid RFC 8032 signatures (Schnorr form R = kB, S = k + H(R,A,M) a)
  secp256k1-tr    : BIP-340-valid; verifying_key is the 33-byte compressed even-Y key
  others          : RFC 9591 prime-order Schnorr signatures
Every signature is checked with the ordinary verifier before it is printed."""
import json
import os
import random
import sys

sys.path.insert(0, os.path.dirname(os.path.abspath(__file__)))

import frost_ref as fr  # noqa: E402

FIXED_LENGTHS = [0, 1, 2, 31, 32, 33, 63, 64, 65, 127, 128, 129, 255, 256, 1000]


def generate(suite, count, seed):
    S = fr.get_suite(suite)
    rng = random.Random("make_single/%s/%d" % (suite, seed))
    for n in range(count):
        sk = rng.randrange(1, S.order)
        k = rng.randrange(1, S.order)
        ln = FIXED_LENGTHS[n] if n < len(FIXED_LENGTHS) else rng.choice([rng.randrange(0, 40), rng.randrange(0, 600)])
        msg = rng.randbytes(ln)
        if S.taproot:
            sk, k = S._pre_single_sign(sk, k)  # even-Y key, so that verifying_key == G*signing_key exactly
        sig = S.single_sign(sk, msg, k)
        vk = S.ser_elem(S.public_key(sk))
        if not fr.ordinary_verify(suite, vk, msg, sig) or not S.verify_bytes(msg, sig, vk):
            raise RuntimeError("reference produced a signature that does not verify")
        yield {"type": "single_sig", "suite": suite, "signing_key": S.ser_scalar(sk).hex(),
               "verifying_key": vk.hex(), "message": msg.hex(), "signature": sig.hex()}


if __name__ == "__main__":
    try:
        suite, count, seed = sys.argv[1], int(sys.argv[2]), int(sys.argv[3])
        if suite not in fr.SUITES or count < 0:
            raise ValueError
    except (IndexError, ValueError):
        sys.stderr.write("usage: make_single.py <%s> <count> <seed>\n" % "|".join(fr.SUITES))
        sys.exit(2)
    for line in generate(suite, count, seed):
        print(json.dumps(line))
