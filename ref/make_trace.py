#!/usr/bin/env python3
"""Test-trace generators for check_trace.py (reference-side only; not an oracle input).

  python3 make_trace.py vectors
      one trace built from the pinned vectors of every suite: session lines (with diag; the
      recorded values come from the vector files wherever the vectors have them), plus
      ident / nonce / lagrange / verify (true and false) / dkg_key lines.
  python3 make_trace.py synth <suite> <count> <seed>
      <count> reference-made sessions: random t-of-n dealer keys, shuffled signer order, and
      for secp256k1-tr a random choice of no tweak / key-path tweak / merkle-root tweak.
"""
import json
import os
import random
import sys

HERE = os.path.dirname(os.path.abspath(__file__))
sys.path.insert(0, HERE)

import frost_ref as fr  # noqa: E402

H = bytes.fromhex


def session_line(S, PK, msg, signers, tweak=None, diag=True, order=None):
    """signers: [{id, share, rand_hiding, rand_binding}] -> trace line made by the reference."""
    for s in signers:
        s["hiding"] = S.nonce_generate(s["rand_hiding"], s["share"])
        s["binding"] = S.nonce_generate(s["rand_binding"], s["share"])
    res = S.session(PK, msg, signers, tweak)
    out = []
    for s in (order or signers):
        i = s["id"]
        out.append({
            "id": S.ser_scalar(i).hex(), "share": S.ser_scalar(s["share"]).hex(),
            "verifying_share": S.ser_elem(S.public_key(s["share"])).hex(),
            "rand_hiding": s["rand_hiding"].hex(), "rand_binding": s["rand_binding"].hex(),
            "hiding_nonce": S.ser_scalar(s["hiding"]).hex(), "binding_nonce": S.ser_scalar(s["binding"]).hex(),
            "hiding_commitment": S.ser_elem(res["commitments"][i][0]).hex(),
            "binding_commitment": S.ser_elem(res["commitments"][i][1]).hex(),
            "sig_share": S.ser_scalar(res["sig_shares"][i]).hex()})
    line = {"type": "session", "suite": S.name, "group_key": S.ser_elem(PK).hex(), "message": msg.hex(),
            "signers": out, "signature": res["signature"].hex(),
            "tweak": None if tweak is None else
            {"merkle_root": None if tweak["merkle_root"] is None else tweak["merkle_root"].hex()}}
    if diag:
        e = lambda i: S.ser_scalar(i).hex()
        line["diag"] = {"binding_factors": {e(i): S.ser_scalar(v).hex() for i, v in res["binding_factors"].items()},
                        "group_commitment": S.ser_elem(res["group_commitment"]).hex(),
                        "challenge": S.ser_scalar(res["challenge"]).hex(),
                        "lambdas": {e(i): S.ser_scalar(v).hex() for i, v in res["lambdas"].items()}}
    return line, res


def from_vectors():
    for name in fr.SUITES:
        S = fr.get_suite(name)
        for kind in ("vectors", "vectors-big-identifier"):
            v = json.load(open(os.path.join(HERE, "vectors", "%s.%s.json" % (name, kind))))
            inp = v["inputs"]
            shares = {p["identifier"]: p["participant_share"] for p in inp["participant_shares"]}
            sigshares = {o["identifier"]: o["sig_share"] for o in v["round_two_outputs"]["outputs"]}
            signers, diag_bf = [], {}
            for o in reversed(v["round_one_outputs"]["outputs"]):  # deliberately not sorted
                i = o["identifier"]
                idhex = S.ser_scalar(i).hex()
                signers.append({
                    "id": idhex, "share": shares[i],
                    "verifying_share": S.ser_elem(S.public_key(S.de_scalar(H(shares[i])))).hex(),
                    "rand_hiding": o["hiding_nonce_randomness"], "rand_binding": o["binding_nonce_randomness"],
                    "hiding_nonce": o["hiding_nonce"], "binding_nonce": o["binding_nonce"],
                    "hiding_commitment": o["hiding_nonce_commitment"],
                    "binding_commitment": o["binding_nonce_commitment"], "sig_share": sigshares[i]})
                diag_bf[idhex] = o["binding_factor"]
                yield {"type": "nonce", "suite": name, "share": shares[i], "rand": o["hiding_nonce_randomness"],
                       "nonce": o["hiding_nonce"], "commitment": o["hiding_nonce_commitment"]}
                yield {"type": "ident", "suite": name, "u16": i, "encoding": idhex}
            sig = v["final_output"]["sig"]
            diag = {"binding_factors": diag_bf}
            if not S.taproot:
                diag["group_commitment"] = sig[:2 * S.G.elem_len]
            ids = [S.ser_scalar(i) for i in inp["participant_list"]]
            diag["lambdas"] = {}
            for i in inp["participant_list"]:
                lam = S.ser_scalar(S.lagrange(inp["participant_list"], i)).hex()
                diag["lambdas"][S.ser_scalar(i).hex()] = lam
                yield {"type": "lagrange", "suite": name, "ids": [b.hex() for b in ids], "x": None,
                       "i": S.ser_scalar(i).hex(), "value": lam}
                yield {"type": "lagrange", "suite": name, "ids": [b.hex() for b in ids], "x": S.ser_scalar(7).hex(),
                       "i": S.ser_scalar(i).hex(), "value": S.ser_scalar(S.lagrange(inp["participant_list"], i, 7)).hex()}
            yield {"type": "session", "suite": name, "group_key": inp["verifying_key_key"], "message": inp["message"],
                   "signers": signers, "signature": sig, "tweak": None, "diag": diag}
            yield {"type": "verify", "suite": name, "verifying_key": inp["verifying_key_key"], "message": inp["message"],
                   "signature": sig, "expect": True, "tweak": None}
            yield {"type": "verify", "suite": name, "verifying_key": inp["verifying_key_key"],
                   "message": inp["message"] + "00", "signature": sig, "expect": False, "tweak": None}
        if S.taproot:
            d = json.load(open(os.path.join(HERE, "vectors", "%s.vectors_dkg.json" % name)))["inputs"]
            P = S.G.identity
            for k in ("1", "2", "3"):
                P = S.G.add(P, S.de_elem(H(d[k]["vss_commitments"][0])))
            yield {"type": "dkg_key", "suite": name, "sum_c0": S.ser_elem(P).hex(), "group_key": d["verifying_key"]}


def synth(name, count, seed):
    S = fr.get_suite(name)
    rng = random.Random("make_trace/%s/%d" % (name, seed))
    for _ in range(count):
        n = rng.randrange(2, 8)
        t = rng.randrange(2, n + 1)
        coeffs = [rng.randrange(1, S.order) for _ in range(t)]
        PK = S.public_key(coeffs[0])
        pool = rng.sample(range(1, 40), n) if rng.random() < 0.8 else rng.sample(range(1, 65536), n)
        chosen = rng.sample(pool, rng.randrange(t, n + 1))
        signers = [{"id": i, "share": S.poly_eval(coeffs, i), "rand_hiding": rng.randbytes(32),
                    "rand_binding": rng.randbytes(32)} for i in chosen]
        tweak = None
        if S.taproot:
            tweak = rng.choice([None, {"merkle_root": None}, {"merkle_root": rng.randbytes(32)}])
        msg = rng.randbytes(rng.choice([0, 1, 32, rng.randrange(0, 200)]))
        yield session_line(S, PK, msg, signers, tweak, diag=rng.random() < 0.5)[0]


if __name__ == "__main__":
    a = sys.argv[1:]
    if a[:1] == ["vectors"] and len(a) == 1:
        gen = from_vectors()
    elif a[:1] == ["synth"] and len(a) == 4 and a[1] in fr.SUITES:
        gen = synth(a[1], int(a[2]), int(a[3]))
    else:
        sys.stderr.write(__doc__)
        sys.exit(2)
    for line in gen:
        print(json.dumps(line))
