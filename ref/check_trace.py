#!/usr/bin/env python3
"""python3 check_trace.py [--jobs N] [--sample K --seed S] [--verify-shares] [--timing] <trace.jsonl>

Checks every JSON line of a trace against the reference implementation (see README.md for the
line formats).  Prints one `MISMATCH line=.. type=.. field=.. expected=.. got=..` line per
differing field and a final JSON summary.  Exit 0: all good, 1: mismatches, 2: malformed
input / internal error / failing selftest.
"""
import argparse
import json
import multiprocessing
import os
import random
import sys
import time

HERE = os.path.dirname(os.path.abspath(__file__))
sys.path.insert(0, HERE)

import bip340_ref  # noqa: E402
import frost_ref as fr  # noqa: E402

TYPES = ("session", "verify", "single_sig", "ident", "nonce", "dkg_key", "lagrange")
OPTS = {"verify_shares": False}


class Malformed(Exception):
    pass


def unhex(v, what, length=None):
    if not isinstance(v, str):
        raise Malformed("%s: expected hex string, got %r" % (what, v))
    try:
        b = bytes.fromhex(v)
    except ValueError:
        raise Malformed("%s: not hex: %r" % (what, v))
    if length is not None and len(b) != length:
        raise Malformed("%s: expected %d bytes, got %d" % (what, length, len(b)))
    return b


def need(d, key, what):
    if not isinstance(d, dict) or key not in d:
        raise Malformed("%s: missing field %r" % (what, key))
    return d[key]


def parse_tweak(line, suite):
    t = line.get("tweak")
    if t is None:
        return None
    if suite != "secp256k1-tr":
        raise Malformed("tweak given for suite %s" % suite)
    root = need(t, "merkle_root", "tweak")
    return {"merkle_root": None if root is None else unhex(root, "tweak.merkle_root")}


class Cmp:
    def __init__(self):
        self.mism = []

    def eq(self, field, expected, got_hex):
        e = expected.hex() if isinstance(expected, (bytes, bytearray)) else expected
        g = got_hex.lower() if isinstance(got_hex, str) else json.dumps(got_hex)
        if e != g:
            self.mism.append((field, e, g))

    def true(self, field, cond, expected=True):
        if bool(cond) != bool(expected):
            self.mism.append((field, "01" if expected else "00", "01" if cond else "00"))

    def decode(self, field, fn, b):
        """Decode a recorded value that the library itself produced; failure is a finding."""
        try:
            return fn(b)
        except ValueError:
            self.mism.append((field + ".valid", "01", "00"))
            return None


# ---------------------------------------------------------------------------------------------
def check_session(line, c):
    name = line["suite"]
    S = fr.get_suite(name)
    G = S.G
    msg = unhex(need(line, "message", "session"), "message")
    tweak = parse_tweak(line, name)
    gk_bytes = unhex(need(line, "group_key", "session"), "group_key")
    PK = c.decode("group_key", S.de_elem, gk_bytes)
    raw = need(line, "signers", "session")
    if not isinstance(raw, list) or not raw:
        raise Malformed("signers must be a non-empty list")
    signers, rec = [], {}
    for s in raw:
        idhex = need(s, "id", "signer").lower()
        f = "signers[%s]." % idhex
        i = c.decode(f + "id", S.de_scalar, unhex(idhex, "id"))
        share = c.decode(f + "share", S.de_scalar, unhex(need(s, "share", "signer"), "share"))
        if i is None or share is None or PK is None:
            continue
        if i == 0 or i in rec:
            raise Malformed("zero or duplicate signer identifier %s" % idhex)
        if "rand_hiding" in s or "rand_binding" in s:
            hn = S.nonce_generate(unhex(need(s, "rand_hiding", "signer"), "rand_hiding", 32), share)
            bn = S.nonce_generate(unhex(need(s, "rand_binding", "signer"), "rand_binding", 32), share)
            c.eq(f + "hiding_nonce", S.ser_scalar(hn), need(s, "hiding_nonce", "signer"))
            c.eq(f + "binding_nonce", S.ser_scalar(bn), need(s, "binding_nonce", "signer"))
        else:
            # injected nonces (no randomness behind them): taken as given, everything downstream is recomputed
            hn = c.decode(f + "hiding_nonce", S.de_scalar, unhex(need(s, "hiding_nonce", "signer"), "hiding_nonce"))
            bn = c.decode(f + "binding_nonce", S.de_scalar, unhex(need(s, "binding_nonce", "signer"), "binding_nonce"))
            if hn is None or bn is None or hn == 0 or bn == 0:
                raise Malformed("injected nonces must be valid non-zero scalars")
        c.eq(f + "hiding_commitment", S.ser_elem(S.commit(hn)), need(s, "hiding_commitment", "signer"))
        c.eq(f + "binding_commitment", S.ser_elem(S.commit(bn)), need(s, "binding_commitment", "signer"))
        c.eq(f + "verifying_share", S.ser_elem(S.public_key(share)), need(s, "verifying_share", "signer"))
        signers.append({"id": i, "share": share, "hiding": hn, "binding": bn})
        rec[i] = (idhex, s)
    if PK is None or len(signers) != len(raw):
        return
    res = S.session(PK, msg, signers, tweak)
    ids = res["ids"]
    for i in ids:
        idhex, s = rec[i]
        c.eq("signers[%s].sig_share" % idhex, S.ser_scalar(res["sig_shares"][i]), need(s, "sig_share", "signer"))
    sig_hex = need(line, "signature", "session")
    c.eq("signature", res["signature"], sig_hex)
    sig = unhex(sig_hex, "signature")

    # shares interpolate to the secret of the recorded (untweaked) group key
    secret = sum(res["lambdas"][s["id"]] * s["share"] for s in signers) % S.order
    c.eq("group_key", S.ser_elem(S.public_key(secret)) if secret else b"", gk_bytes.hex())

    diag = line.get("diag")
    if diag is not None:
        byhex = {rec[i][0]: i for i in ids}
        for key, src in (("binding_factors", res["binding_factors"]), ("lambdas", res["lambdas"])):
            for idhex, v in (diag.get(key) or {}).items():
                i = byhex.get(idhex.lower())
                c.eq("diag.%s[%s]" % (key, idhex), S.ser_scalar(src[i]) if i is not None else b"", v)
        for idhex, v in (diag.get("binding_factor_preimages") or {}).items():
            i = byhex.get(idhex.lower())
            c.eq("diag.binding_factor_preimages[%s]" % idhex, res["binding_factor_inputs"][i] if i is not None else b"", v)
        if diag.get("group_commitment") is not None:
            Rb = S.ser_elem(res["group_commitment"])
            got = diag["group_commitment"]
            if S.taproot and len(got) == 64:  # x-only form also accepted for the Taproot suite
                Rb = Rb[1:]
            c.eq("diag.group_commitment", Rb, got)
        if diag.get("challenge") is not None:
            c.eq("diag.challenge", S.ser_scalar(res["challenge"]), diag["challenge"])

    # the recorded signature must verify: suite verifier and the outside-world verifier
    PKe = res["effective_key"]
    c.true("signature.verify", S.verify(msg, sig, PKe))
    # (for secp256k1-tr this is bip340_ref.verify under the x-only, BIP-341-tweaked if asked, output key)
    if S.taproot:
        xq = fr.tr_output_key(gk_bytes, tweak)  # via bip340_ref.taproot_tweak_pubkey, independent of frost_ref
        if xq != S.x(PKe):
            raise RuntimeError("internal: frost_ref effective key != BIP-341 output key")
        c.true("signature.ordinary_verify", bip340_ref.verify(xq, msg, sig))
    else:
        c.true("signature.ordinary_verify", fr.ordinary_verify(name, gk_bytes, msg, sig))
    if OPTS["verify_shares"]:
        for i in ids:
            D, E = res["commitments"][i]
            c.true("signers[%s].sig_share.verify" % rec[i][0], S.verify_signature_share(
                res["sig_shares"][i], D, E, res["binding_factors"][i], res["lambdas"][i],
                S.public_key(res["effective_shares"][i]), res["challenge"], res["group_commitment"]))


def check_verify(line, c):
    name = line["suite"]
    expect = need(line, "expect", "verify")
    if not isinstance(expect, bool):
        raise Malformed("expect must be a boolean")
    got = fr.ordinary_verify(name, unhex(need(line, "verifying_key", "verify"), "verifying_key"),
                             unhex(need(line, "message", "verify"), "message"),
                             unhex(need(line, "signature", "verify"), "signature"), parse_tweak(line, name))
    # expected = what the reference says, got = what the trace recorded
    c.true("expect", expect, got)


def check_single_sig(line, c):
    name = line["suite"]
    S = fr.get_suite(name)
    sk = c.decode("signing_key", S.de_scalar, unhex(need(line, "signing_key", "single_sig"), "signing_key"))
    vk_hex = need(line, "verifying_key", "single_sig")
    vk = unhex(vk_hex, "verifying_key")
    if sk is not None:
        if sk == 0:
            raise Malformed("zero signing key")
        PK = S.public_key(sk)
        if S.taproot:  # parity-agnostic: compare x-only, accept 32-byte or 02/03-tagged 33-byte form
            exp = S.x(PK)
            if len(vk) == 33 and vk[0] in (2, 3):
                exp = vk[:1] + exp
            c.eq("verifying_key", exp, vk_hex)
        else:
            c.eq("verifying_key", S.ser_elem(PK), vk_hex)
    c.true("signature.ordinary_verify", fr.ordinary_verify(
        name, vk, unhex(need(line, "message", "single_sig"), "message"),
        unhex(need(line, "signature", "single_sig"), "signature")))


def check_ident(line, c):
    S = fr.get_suite(line["suite"])
    n = need(line, "u16", "ident")
    if not isinstance(n, int) or isinstance(n, bool) or not 0 < n < 65536:
        raise Malformed("u16 out of range: %r" % (n,))
    c.eq("encoding", S.identifier_from_u16(n), need(line, "encoding", "ident"))


def check_nonce(line, c):
    S = fr.get_suite(line["suite"])
    share = c.decode("share", S.de_scalar, unhex(need(line, "share", "nonce"), "share"))
    if share is None:
        return
    if "rand_candidates" in line:
        # the nonce must be nonce_generate(r, share) for SOME 32-byte draw r the library made (order of draws is not checked)
        cands = line["rand_candidates"]
        if not isinstance(cands, list) or not cands:
            raise Malformed("rand_candidates must be a non-empty list")
        want = need(line, "nonce", "nonce")
        k = None
        for r in cands:
            kk = S.nonce_generate(unhex(r, "rand_candidates", 32), share)
            if S.ser_scalar(kk).hex() == want:
                k = kk
                break
        if k is None:
            c.mism.append(("nonce (%s): nonce_generate(r, share) for some recorded 32-byte draw r" % line.get("what", ""), "one of %d candidates" % len(cands), want))
            return
        c.eq("commitment", S.ser_elem(S.commit(k)), need(line, "commitment", "nonce"))
        return
    k = S.nonce_generate(unhex(need(line, "rand", "nonce"), "rand", 32), share)
    c.eq("nonce", S.ser_scalar(k), need(line, "nonce", "nonce"))
    c.eq("commitment", S.ser_elem(S.commit(k)), need(line, "commitment", "nonce"))


def check_dkg_key(line, c):
    if line["suite"] != "secp256k1-tr":
        raise Malformed("dkg_key is only defined for secp256k1-tr")
    S = fr.get_suite("secp256k1-tr")
    P = c.decode("sum_c0", S.de_elem, unhex(need(line, "sum_c0", "dkg_key"), "sum_c0", 33))
    gk_hex = need(line, "group_key", "dkg_key")
    unhex(gk_hex, "group_key", 33)
    if P is None:
        return
    Q, _ = S.tweak_keys(P, {}, None)
    c.eq("group_key", S.ser_elem(Q), gk_hex)
    _, xq = bip340_ref.taproot_tweak_pubkey(S.x(P), None)
    c.eq("group_key.bip341_xonly", xq, gk_hex[2:])


def check_lagrange(line, c):
    S = fr.get_suite(line["suite"])
    ids = [S.de_scalar(unhex(h, "ids")) for h in need(line, "ids", "lagrange")]
    x = line.get("x")
    x = None if x is None else S.de_scalar(unhex(x, "x"))
    i = S.de_scalar(unhex(need(line, "i", "lagrange"), "i"))
    try:
        v = S.lagrange(ids, i, x)
    except ValueError as e:
        raise Malformed("lagrange: %s" % e)
    c.eq("value", S.ser_scalar(v), need(line, "value", "lagrange"))


CHECKS = {"session": check_session, "verify": check_verify, "single_sig": check_single_sig, "ident": check_ident,
          "nonce": check_nonce, "dkg_key": check_dkg_key, "lagrange": check_lagrange}


def check_line(item):
    """-> (lineno, type, [(field, expected, got)], error or None)"""
    lineno, line = item
    c = Cmp()
    try:
        CHECKS[line["type"]](line, c)
    except Malformed as e:
        return lineno, line.get("type"), c.mism, "malformed: %s" % e
    except Exception as e:  # internal error
        import traceback
        return lineno, line.get("type"), c.mism, "internal error: %r\n%s" % (e, traceback.format_exc())
    return lineno, line["type"], c.mism, None


def _init(opts):
    OPTS.update(opts)


def load(path):
    items = []
    with open(path) as f:
        for lineno, raw in enumerate(f, 1):
            if not raw.strip():
                continue
            try:
                line = json.loads(raw)
            except ValueError as e:
                raise Malformed("line %d: bad JSON: %s" % (lineno, e))
            if not isinstance(line, dict) or line.get("type") not in TYPES:
                raise Malformed("line %d: unknown type %r" % (lineno, line.get("type") if isinstance(line, dict) else line))
            if line.get("suite") not in fr.SUITES:
                raise Malformed("line %d: unknown suite %r" % (lineno, line.get("suite")))
            items.append((lineno, line))
    return items


def sample(items, k, seed):
    rng = random.Random(seed)
    groups = {}
    for it in items:
        groups.setdefault((it[1]["type"], it[1]["suite"]), []).append(it)
    out = []
    for key in sorted(groups):
        g = groups[key]
        out += g if len(g) <= k else rng.sample(g, k)
    return sorted(out, key=lambda it: it[0])


def main(argv=None):
    ap = argparse.ArgumentParser(description=__doc__, formatter_class=argparse.RawDescriptionHelpFormatter)
    ap.add_argument("--jobs", type=int, default=16)
    ap.add_argument("--sample", type=int, default=None, metavar="K")
    ap.add_argument("--seed", type=int, default=0, metavar="S")
    ap.add_argument("--verify-shares", action="store_true", help="also run verify_signature_share on every share")
    ap.add_argument("--timing", action="store_true", help="print per-(type,suite) timing to stderr (forces --jobs 1)")
    ap.add_argument("--no-selftest", action="store_true", help=argparse.SUPPRESS)
    ap.add_argument("trace")
    try:
        a = ap.parse_args(argv)
    except SystemExit:
        return 2

    if not a.no_selftest:
        import selftest
        ok, summary, failures = selftest.run_cached()
        if not ok:
            for f in failures:
                print("SELFTEST FAIL", f, file=sys.stderr)
            print(json.dumps(summary), file=sys.stderr)
            return 2

    try:
        items = load(a.trace)
    except (Malformed, OSError) as e:
        print("error: %s" % e, file=sys.stderr)
        return 2
    if a.sample is not None:
        items = sample(items, a.sample, a.seed)

    opts = {"verify_shares": a.verify_shares}
    _init(opts)
    results, timing = [], {}
    if a.jobs <= 1 or a.timing or len(items) < 2:
        for it in items:
            t = time.perf_counter()
            results.append(check_line(it))
            key = "%s/%s" % (it[1]["type"], it[1]["suite"])
            n, tot = timing.get(key, (0, 0.0))
            timing[key] = (n + 1, tot + time.perf_counter() - t)
    else:
        with multiprocessing.Pool(a.jobs, initializer=_init, initargs=(opts,)) as pool:
            chunk = max(1, min(64, len(items) // (a.jobs * 8)))
            results = list(pool.imap(check_line, items, chunksize=chunk))

    by_type, nm, bad, err = {}, 0, 0, False
    for lineno, typ, mism, error in sorted(results, key=lambda r: r[0]):
        bt = by_type.setdefault(typ, {"checked": 0, "mismatches": 0})
        bt["checked"] += 1
        for field, exp, got in mism:
            print("MISMATCH line=%d type=%s field=%s expected=%s got=%s" % (lineno, typ, field, exp, got))
        bt["mismatches"] += len(mism)
        nm += len(mism)
        bad += 1 if mism else 0
        if error:
            err = True
            print("error: line %d: %s" % (lineno, error), file=sys.stderr)
    print(json.dumps({"checked": len(results), "mismatches": nm, "bad_lines": bad, "by_type": by_type}, sort_keys=True))
    if a.timing:
        for key in sorted(timing):
            n, tot = timing[key]
            print("timing %-24s n=%-6d %.2f ms/line" % (key, n, 1000 * tot / n), file=sys.stderr)
    return 2 if err else (1 if nm else 0)


if __name__ == "__main__":
    sys.exit(main())
