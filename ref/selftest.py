#!/usr/bin/env python3
"""Self-test of the reference: known-answer tests for the curve/hash code and full
reproduction of the pinned FROST test vectors.  Exit 0 iff everything passes, else 2."""
import hashlib
import json
import os
import sys
import time

HERE = os.path.dirname(os.path.abspath(__file__))
sys.path.insert(0, HERE)

import bip340_ref  # noqa: E402
import frost_ref as fr  # noqa: E402
from curves import get_group  # noqa: E402
from hashes import expand_message_xmd  # noqa: E402

VEC = os.path.join(HERE, "vectors")
H = bytes.fromhex


class Checker:
    def __init__(self):
        self.n = 0
        self.failures = []

    def eq(self, where, what, got, want):
        self.n += 1
        if got != want:
            g = got.hex() if isinstance(got, (bytes, bytearray)) else repr(got)
            w = want.hex() if isinstance(want, (bytes, bytearray)) else repr(want)
            self.failures.append("%s: %s: got %s want %s" % (where, what, g, w))

    def ok(self, where, what, cond):
        self.eq(where, what, bool(cond), True)


# ---------------------------------------------------------------------------------------------
# Known-answer tests
# ---------------------------------------------------------------------------------------------
RISTRETTO_MULTIPLES = [  # RFC 9496 A.1: encodings of [0]B .. [15]B
    "0000000000000000000000000000000000000000000000000000000000000000",
    "e2f2ae0a6abc4e71a884a961c500515f58e30b6aa582dd8db6a65945e08d2d76",
    "6a493210f7499cd17fecb510ae0cea23a110e8d5b901f8acadd3095c73a3b919",
    "94741f5d5d52755ece4f23f044ee27d5d1ea1e2bd196b462166b16152a9d0259",
    "da80862773358b466ffadfe0b3293ab3d9fd53c5ea6c955358f568322daf6a57",
    "e882b131016b52c1d3337080187cf768423efccbb517bb495ab812c4160ff44e",
    "f64746d3c92b13050ed8d80236a7f0007c3b3f962f5ba793d19a601ebb1df403",
    "44f53520926ec81fbd5a387845beb7df85a96a24ece18738bdcfa6a7822a176d",
    "903293d8f2287ebe10e2374dc1a53e0bc887e592699f02d077d5263cdd55601c",
    "02622ace8f7303a31cafc63f8fc48fdc16e1c8c8d234b2f0d6685282a9076031",
    "20706fd788b2720a1ed2a5dad4952b01f413bcf0e7564de8cdc816689e2db95f",
    "bce83f8ba5dd2fa572864c24ba1810f9522bc6004afe95877ac73241cafdab42",
    "e4549ee16b9aa03099ca208c67adafcafa4c3f3e4e5303de6026e3ca8ff84460",
    "aa52e000df2e16f55fb1032fc33bc42742dad6bd5a8fc0be0167436c5948501f",
    "46376b80f409b29dc2b5f6f0c52591990896e5716f41477cd30085ab7f10301e",
    "e0c418f7c8d9c4cdd7395b93ea124f3ad99021bb681dfc3302a9d99a2e53e64e",
]

BIP340 = [  # (seckey, pubkey, aux_rand, msg, sig)  BIP-340 test vectors 0..3
    ("0000000000000000000000000000000000000000000000000000000000000003",
     "f9308a019258c31049344f85f89d5229b531c845836f99b08601f113bce036f9",
     "0000000000000000000000000000000000000000000000000000000000000000",
     "0000000000000000000000000000000000000000000000000000000000000000",
     "e907831f80848d1069a5371b402410364bdf1c5f8307b0084c55f1ce2dca8215"
     "25f66a4a85ea8b71e482a74f382d2ce5ebeee8fdb2172f477df4900d310536c0"),
    ("b7e151628aed2a6abf7158809cf4f3c762e7160f38b4da56a784d9045190cfef",
     "dff1d77f2a671c5f36183726db2341be58feae1da2deced843240f7b502ba659",
     "0000000000000000000000000000000000000000000000000000000000000001",
     "243f6a8885a308d313198a2e03707344a4093822299f31d0082efa98ec4e6c89",
     "6896bd60eeae296db48a229ff71dfe071bde413e6d43f917dc8dcf8c78de3341"
     "8906d11ac976abccb20b091292bff4ea897efcb639ea871cfa95f6de339e4b0a"),
    ("c90fdaa22168c234c4c6628b80dc1cd129024e088a67cc74020bbea63b14e5c9",
     "dd308afec5777e13121fa72b9cc1b7cc0139715309b086c960e18fd969774eb8",
     "c87aa53824b4d7ae2eb035a2b5bbbccc080e76cdc6d1692c4b0b62d798e6d906",
     "7e2d58d8b3bcdf1abadec7829054f90dda9805aab56c77333024b9d0a508b75c",
     "5831aaeed7b44bb74e5eab94ba9d4294c49bcf2a60728d8b4c200f50dd313c1b"
     "ab745879a5ad954a72c45a91c3a51d3c7adea98d82f8481e0e1e03674a6f3fb7"),
    ("0b432b2677937381aef05bb02a66ecd012773062cf3fa2549e44f58ed2401710",
     "25d1dff95105f5253c4022f628a996ad3a0d95fbf21d468a1b33f8c160d8f517",
     "ffffffffffffffffffffffffffffffffffffffffffffffffffffffffffffffff",
     "ffffffffffffffffffffffffffffffffffffffffffffffffffffffffffffffff",
     "7eb0509757e246f19449885651611cb965ecc1a187dd51b64fda1edc9637d5ec"
     "97582b9cb13db3933705b32ba982af5af25fd78881ebb32771fc5922efc66ea3"),
]


def kats(ck):
    w = "kat"
    # RFC 9380 K.1 expand_message_xmd(SHA-256)
    dst = b"QUUX-V01-CS02-with-expander-SHA256-128"
    ck.eq(w, "xmd ''", expand_message_xmd(b"", dst, 32),
          H("68a985b87eb6b46952128911f2a4412bbc302a9d759667f87f7a21d803f07235"))
    ck.eq(w, "xmd 'abc'", expand_message_xmd(b"abc", dst, 32),
          H("d8ccab23b5985ccea865c6c97b6e5b8350e794e603b4b97902f53a8a0d605615"))

    # RFC 9496 A.1
    r = get_group("ristretto255")
    P = r.identity
    for i, enc in enumerate(RISTRETTO_MULTIPLES):
        ck.eq(w, "ristretto255 [%d]B" % i, r.encode_raw(P), H(enc))
        ck.ok(w, "ristretto255 decode [%d]B" % i, r.eq(r.decode_raw(H(enc)), P))
        ck.ok(w, "ristretto255 mul %d" % i, r.eq(r.mul(i, r.generator), P))
        P = r.add(P, r.generator)

    # RFC 8032 7.1 TEST 1, TEST 2
    for seed, pk, msg, sig in [
        ("9d61b19deffd5a60ba844af492ec2cc44449c5697b326919703bac031cae7f60",
         "d75a980182b10ab7d54bfed3c964073a0ee172f3daa62325af021a68f707511a", "",
         "e5564300c360ac729086e2cc806e828a84877f1eb8e5d974d873e06522490155"
         "5fb8821590a33bacc61e39701cf9b46bd25bf5f0595bbe24655141438e7a100b"),
        ("4ccd089b28ff96da9db6c346ec114e0f5b8a319f35aba624da8cf6ed4fb8a6fb",
         "3d4017c3e843895a92b70aa74d1b7ebc9c982ccf2ec4968cc0cd55f12af4660c", "72",
         "92a009a9f0d4cab8720e820b5f642540a2b27b5416503f8fb3762223ebdb69da"
         "085ac1e43e15996e458f3613d0f11d8c387b2eaeb4302aeeb00d291612bb0c00"),
    ]:
        ck.eq(w, "ed25519 rfc8032 pk", fr.rfc8032_ed25519_public(H(seed)), H(pk))
        ck.eq(w, "ed25519 rfc8032 sig", fr.rfc8032_ed25519_sign(H(seed), H(msg)), H(sig))
        ck.ok(w, "ed25519 rfc8032 verify", fr.rfc8032_ed25519_verify_strict(H(pk), H(msg), H(sig)))
        ck.ok(w, "ed25519 rfc8032 verify bad", not fr.rfc8032_ed25519_verify_strict(H(pk), H(msg) + b"x", H(sig)))

    # RFC 8032 7.4 "Blank"
    seed = ("6c82a562cb808d10d632be89c8513ebf6c929f34ddfa8c9f63c9960ef6e348a3"
            "528c8a3fcc2f044e39a3fc5b94492f8f032e7549a20098f95b")
    pk = ("5fd7449b59b461fd2ce787ec616ad46a1da1342485a70e1f8a0ea75d80e96778"
          "edf124769b46c7061bd6783df1e50f6cd1fa1abeafe8256180")
    sig = ("533a37f6bbe457251f023c0d88f976ae2dfb504a843e34d2074fd823d41a591f"
           "2b233f034f628281f2fd7a22ddd47d7828c59bd0a21bfd3980ff0d2028d4b18a"
           "9df63e006c5d1c2d345b925d8dc00b4104852db99ac5c7cdda8530a113a0f4db"
           "b61149f05a7363268c71d95808ff2e652600")
    ck.eq(w, "ed448 rfc8032 pk", fr.rfc8032_ed448_public(H(seed)), H(pk))
    ck.eq(w, "ed448 rfc8032 sig", fr.rfc8032_ed448_sign(H(seed), b""), H(sig))
    ck.ok(w, "ed448 rfc8032 verify", fr.rfc8032_ed448_verify(H(pk), b"", H(sig)))
    ck.ok(w, "ed448 rfc8032 verify cofactored", fr.rfc8032_ed448_verify(H(pk), b"", H(sig), cofactored=True))
    ck.ok(w, "ed448 rfc8032 verify permissive", fr.rfc8032_ed448_verify(H(pk), b"", H(sig), cofactored=True, strict=False))
    ck.ok(w, "ed448 rfc8032 verify bad", not fr.rfc8032_ed448_verify(H(pk), b"x", H(sig)))

    # BIP-340 vectors 0..3, and agreement of the two independent Taproot code paths
    tr = fr.get_suite("secp256k1-tr")
    for i, (sk, pk, aux, msg, sig) in enumerate(BIP340):
        ck.eq(w, "bip340 #%d pubkey" % i, bip340_ref.pubkey_gen(H(sk)), H(pk))
        ck.eq(w, "bip340 #%d sign" % i, bip340_ref.sign(H(sk), H(msg), H(aux)), H(sig))
        ck.ok(w, "bip340 #%d verify" % i, bip340_ref.verify(H(pk), H(msg), H(sig)))
        ck.ok(w, "bip340 #%d verify (frost_ref path)" % i, tr.verify_bytes(H(msg), H(sig), b"\x02" + H(pk)))
        ck.ok(w, "bip340 #%d verify bad" % i, not bip340_ref.verify(H(pk), H(msg) + b"x", H(sig)))
        # single_sign (curves.py) must verify under bip340_ref, also after a BIP-341 tweak
        s = int(sk, 16)
        s1 = tr.single_sign(s, H(msg), int(aux, 16) + 7)
        ck.ok(w, "tr single_sign #%d" % i, bip340_ref.verify(H(pk), H(msg), s1))
        for root in (None, H(msg)):
            PKt, sh = tr.tweak_keys(tr.public_key(s), {1: s}, root)
            par, xq = bip340_ref.taproot_tweak_pubkey(H(pk), root)
            ck.eq(w, "bip341 tweak pub #%d" % i, tr.ser_elem(PKt), bytes([2 + par]) + xq)
            ck.eq(w, "bip341 tweak sec #%d" % i, tr.ser_scalar(sh[1]), bip340_ref.taproot_tweak_seckey(H(sk), root))

    # generic group sanity: order, encode/decode round trip, hostile dictionary is rejected
    import hostile
    for name in fr.SUITES:
        g = fr.get_suite(name).G
        ck.ok(w, name + " [order]B == 0", g.is_identity(g._mul_window(g.order, g.generator)))
        P = g.mul(0xDEADBEEF, g.generator)
        ck.ok(w, name + " roundtrip", g.eq(g.decode(g.encode(P)), P) and g.encode(g.decode(g.encode(P))) == g.encode(P))
        ck.ok(w, name + " (a+b)B", g.eq(g.add(g.mul(5, g.generator), g.mul(g.order - 3, g.generator)), g.mul(2, g.generator)))
        # canonical-decoder property on pseudo-random strings: whatever decode_raw accepts must
        # re-encode to exactly the same bytes, and a plausible fraction must be accepted
        acc, tries = 0, 120
        for i in range(tries):
            b = bytearray(hashlib.shake_256(b"selftest-decode/%s/%d" % (name.encode(), i)).digest(g.elem_len))
            if g.name in ("P-256", "secp256k1"):
                b[0] = 2 + (b[0] & 1)
            elif g.name == "edwards448":
                b[56] &= 0x80
            elif g.name == "ristretto255":
                b[0] &= 0xFE
                b[31] &= 0x3F
            else:
                b[31] &= 0xBF
            try:
                P = g.decode_raw(bytes(b))
            except ValueError:
                continue
            acc += 1
            ck.eq(w, name + " re-encode of accepted string", g.encode_raw(P), bytes(b))
        lo, hi = (10, 55) if g.name == "ristretto255" else (35, 85)
        ck.ok(w, name + " acceptance rate plausible (%d/%d)" % (acc, tries), lo <= acc <= hi)
        d = hostile.generate(name)  # raises if any entry is accepted by our decoder
        ck.ok(w, name + " hostile dictionary", len(d["elements"]) > 5 and len(d["scalars"]) >= 3)


# ---------------------------------------------------------------------------------------------
# Vector reproduction
# ---------------------------------------------------------------------------------------------
def check_signing_vector(ck, name, path):
    S = fr.get_suite(name)
    G = S.G
    w = os.path.basename(path)
    v = json.load(open(path))
    inp = v["inputs"]
    msg = H(inp["message"])
    sk = S.de_scalar(H(inp["group_secret_key"]))
    PK = S.public_key(sk)
    vk_bytes = H(inp["verifying_key_key"])
    ck.eq(w, "verifying_key_key", S.ser_elem(PK), vk_bytes)
    ck.ok(w, "verifying key decodes", G.eq(S.de_elem(vk_bytes), PK))

    coeffs = [sk] + [S.de_scalar(H(c)) for c in inp["share_polynomial_coefficients"]]
    ck.eq(w, "threshold", len(coeffs), int(v["config"]["MIN_PARTICIPANTS"]))
    shares = {}
    for ps in inp["participant_shares"]:
        i = ps["identifier"]
        shares[i] = S.de_scalar(H(ps["participant_share"]))
        ck.eq(w, "share %d = f(%d)" % (i, i), S.ser_scalar(S.poly_eval(coeffs, i)), H(ps["participant_share"]))
    ck.eq(w, "MAX_PARTICIPANTS", len(shares), int(v["config"]["MAX_PARTICIPANTS"]))

    r1 = v["round_one_outputs"]["outputs"]
    ck.eq(w, "participant_list", [o["identifier"] for o in r1], inp["participant_list"])
    signers = []
    for o in r1:
        i = o["identifier"]
        ck.eq(w, "identifier %d encoding" % i, S.identifier_from_u16(i), S.ser_scalar(i))
        hn = S.nonce_generate(H(o["hiding_nonce_randomness"]), shares[i])
        bn = S.nonce_generate(H(o["binding_nonce_randomness"]), shares[i])
        ck.eq(w, "hiding_nonce %d" % i, S.ser_scalar(hn), H(o["hiding_nonce"]))
        ck.eq(w, "binding_nonce %d" % i, S.ser_scalar(bn), H(o["binding_nonce"]))
        ck.eq(w, "hiding_nonce_commitment %d" % i, S.ser_elem(S.commit(hn)), H(o["hiding_nonce_commitment"]))
        ck.eq(w, "binding_nonce_commitment %d" % i, S.ser_elem(S.commit(bn)), H(o["binding_nonce_commitment"]))
        signers.append({"id": i, "share": shares[i], "hiding": hn, "binding": bn})

    # feed the signers in reverse order: the reference has to sort them itself
    res = S.session(PK, msg, list(reversed(signers)))
    ck.eq(w, "sorted ids", res["ids"], sorted(inp["participant_list"]))
    for o in r1:
        i = o["identifier"]
        ck.eq(w, "binding_factor_input %d" % i, res["binding_factor_inputs"][i], H(o["binding_factor_input"]))
        ck.eq(w, "binding_factor %d" % i, S.ser_scalar(res["binding_factors"][i]), H(o["binding_factor"]))
    PKe, c, R = res["effective_key"], res["challenge"], res["group_commitment"]
    for o in v["round_two_outputs"]["outputs"]:
        i = o["identifier"]
        ck.eq(w, "sig_share %d" % i, S.ser_scalar(res["sig_shares"][i]), H(o["sig_share"]))
        D, E = res["commitments"][i]
        VS = S.public_key(res["effective_shares"][i])
        ck.ok(w, "sig_share %d verifies" % i, S.verify_signature_share(
            res["sig_shares"][i], D, E, res["binding_factors"][i], res["lambdas"][i], VS, c, R))
        ck.ok(w, "tampered sig_share %d rejected" % i, not S.verify_signature_share(
            res["sig_shares"][i] + 1, D, E, res["binding_factors"][i], res["lambdas"][i], VS, c, R))
    sig = H(v["final_output"]["sig"])
    ck.eq(w, "sig", res["signature"], sig)
    ck.ok(w, "sig verifies (suite verifier)", S.verify(msg, sig, PK))
    ck.ok(w, "sig verifies (ordinary verifier)", fr.ordinary_verify(name, vk_bytes, msg, sig))
    ck.ok(w, "sig on other message rejected", not S.verify(msg + b"!", sig, PK)
          and not fr.ordinary_verify(name, vk_bytes, msg + b"!", sig))
    # interpolating the signers' shares at 0 gives back the group secret
    rec = sum(S.derive_interpolating_value(res["ids"], i) * shares[i] for i in res["ids"]) % S.order
    ck.eq(w, "lagrange reconstruction", S.ser_scalar(rec), S.ser_scalar(sk))


def check_dkg_vector(ck, name, path):
    """Not required reading for FROST signing, but pins HDKG and (for -tr) post_dkg tweak."""
    S = fr.get_suite(name)
    G = S.G
    w = os.path.basename(path)
    inp = json.load(open(path))["inputs"]
    parts = {int(k): v for k, v in inp.items() if k.isdigit()}
    polys, sumc0 = {}, G.identity
    for i, p in parts.items():
        ck.eq(w, "identifier", p["identifier"], i)
        polys[i] = [S.de_scalar(H(p["signing_key"])), S.de_scalar(H(p["coefficient"]))]
        comm = [S.ser_elem(S.public_key(a)) for a in polys[i]]
        ck.eq(w, "vss_commitments %d" % i, comm, [H(x) for x in p["vss_commitments"]])
        ck.ok(w, "proof_of_knowledge %d" % i, S.dkg_verify_pok(i, S.public_key(polys[i][0]), H(p["proof_of_knowledge"])))
        ck.ok(w, "proof_of_knowledge %d wrong id" % i, not S.dkg_verify_pok(i + 1, S.public_key(polys[i][0]), H(p["proof_of_knowledge"])))
        sumc0 = G.add(sumc0, S.public_key(polys[i][0]))
    shares = {}
    for i, p in parts.items():
        for j, sh in p["signing_shares"].items():  # share received by i from j: f_j(i)
            ck.eq(w, "signing_shares %s->%d" % (j, i), S.ser_scalar(S.poly_eval(polys[int(j)], i)), H(sh))
        shares[i] = sum(S.poly_eval(polys[k], i) for k in parts) % S.order
    PK = sumc0
    if S.taproot:  # post_dkg: unspendable-script-path tweak of the DKG output
        PK, shares = S.tweak_keys(sumc0, shares, None)
        par, xq = bip340_ref.taproot_tweak_pubkey(S.x(sumc0), None)
        ck.eq(w, "post_dkg key == BIP-341 output key", S.ser_elem(PK), bytes([2 + par]) + xq)
    ck.eq(w, "verifying_key", S.ser_elem(PK), H(inp["verifying_key"]))
    for i, p in parts.items():
        ck.eq(w, "signing_share %d" % i, S.ser_scalar(shares[i]), H(p["signing_share"]))
        ck.eq(w, "verifying_share %d" % i, S.ser_elem(S.public_key(shares[i])), H(p["verifying_share"]))


def tr_parity_sweep(ck):
    """The pinned secp256k1-tr vectors only exercise an even-Y key without tweak.  Cover every
    combination of (tweak?, odd group key, odd tweaked key, odd group commitment) and require
    the result to verify under the independent BIP-340/341 code."""
    import random
    S = fr.get_suite("secp256k1-tr")
    G = S.G
    rng = random.Random("tr-parity-sweep")
    w, seen, rounds = "tr-parity", set(), 0
    while len(seen) < 12 and rounds < 400:
        rounds += 1
        coeffs = [rng.randrange(1, S.order), rng.randrange(1, S.order)]
        PK = S.public_key(coeffs[0])
        ids = rng.sample(range(1, 50), 2)
        tweak = rng.choice([None, {"merkle_root": None}, {"merkle_root": rng.randbytes(32)}])
        msg = rng.randbytes(rng.randrange(0, 40))
        signers = [{"id": i, "share": S.poly_eval(coeffs, i), "hiding": rng.randrange(1, S.order),
                    "binding": rng.randrange(1, S.order)} for i in ids]
        res = S.session(PK, msg, signers, tweak)
        R, PKe = res["group_commitment"], res["effective_key"]
        combo = (tweak is not None, not G.has_even_y(PK),
                 tweak is not None and not G.has_even_y(S.tweak_keys(PK, {}, tweak["merkle_root"])[0]),
                 not G.has_even_y(R))
        if combo in seen:
            continue
        seen.add(combo)
        xq = fr.tr_output_key(S.ser_elem(PK), tweak)
        ck.eq(w, "%r effective key == BIP-341 output key" % (combo,), S.x(PKe), xq)
        ck.ok(w, "%r effective key has even Y" % (combo,), G.has_even_y(PKe))
        ck.ok(w, "%r bip340 verify" % (combo,), bip340_ref.verify(xq, msg, res["signature"]))
        ck.ok(w, "%r suite verify" % (combo,), S.verify(msg, res["signature"], PKe))
        for i in res["ids"]:
            D, E = res["commitments"][i]
            ck.ok(w, "%r share %d verifies" % (combo, i), S.verify_signature_share(
                res["sig_shares"][i], D, E, res["binding_factors"][i], res["lambdas"][i],
                S.public_key(res["effective_shares"][i]), res["challenge"], R))
    ck.eq(w, "parity combinations covered", len(seen), 12)


def run():
    """Returns (ok, summary_dict, failures)."""
    t0 = time.time()
    ck = Checker()
    nvec = ndkg = 0
    try:
        kats(ck)
        tr_parity_sweep(ck)
        nk = ck.n
        for name in fr.SUITES:
            for kind in ("vectors", "vectors-big-identifier"):
                check_signing_vector(ck, name, os.path.join(VEC, "%s.%s.json" % (name, kind)))
                nvec += 1
            check_dkg_vector(ck, name, os.path.join(VEC, "%s.vectors_dkg.json" % name))
            ndkg += 1
    except Exception as e:  # any crash is a failure
        import traceback
        ck.failures.append("exception: %r\n%s" % (e, traceback.format_exc()))
        nk = 0
    ok = not ck.failures
    summary = {"selftest": "ok" if ok else "FAILED", "vectors_reproduced": nvec, "dkg_vectors_reproduced": ndkg,
               "kat_checks": nk, "checks": ck.n, "failures": len(ck.failures), "seconds": round(time.time() - t0, 2)}
    return ok, summary, ck.failures


_CACHED = None


def run_cached():
    global _CACHED
    if _CACHED is None:
        _CACHED = run()
    return _CACHED


if __name__ == "__main__":
    ok, summary, failures = run()
    for f in failures:
        print("FAIL", f)
    print(json.dumps(summary))
    sys.exit(0 if ok else 2)
