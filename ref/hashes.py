"""RFC 9591 ciphersuite hash functions H1..H5 plus the library extras HDKG / HID /
hash_randomizer, for the five RFC suites and the non-RFC "secp256k1-tr" suite.

Scalars are returned as Python ints (already reduced), H4/H5 as bytes.
"""
import hashlib

from curves import L25519, L448

N_P256 = 0xFFFFFFFF00000000FFFFFFFFFFFFFFFFBCE6FAADA7179E84F3B9CAC2FC632551
N_SECP = 0xFFFFFFFFFFFFFFFFFFFFFFFFFFFFFFFEBAAEDCE6AF48A03BBFD25E8CD0364141


# ---- RFC 9380 ---------------------------------------------------------------------------
def expand_message_xmd(msg, dst, len_in_bytes, hashname="sha256"):
    h = lambda b: hashlib.new(hashname, b).digest()
    b_in_bytes = hashlib.new(hashname).digest_size
    s_in_bytes = hashlib.new(hashname).block_size
    ell = (len_in_bytes + b_in_bytes - 1) // b_in_bytes
    if ell > 255 or len_in_bytes > 65535:
        raise ValueError("expand_message_xmd: output too long")
    if len(dst) > 255:
        dst = h(b"H2C-OVERSIZE-DST-" + dst)
    dst_prime = dst + bytes([len(dst)])
    msg_prime = bytes(s_in_bytes) + msg + len_in_bytes.to_bytes(2, "big") + b"\x00" + dst_prime
    b0 = h(msg_prime)
    bi = h(b0 + b"\x01" + dst_prime)
    out = bi
    for i in range(2, ell + 1):
        bi = h(bytes(x ^ y for x, y in zip(b0, bi)) + bytes([i]) + dst_prime)
        out += bi
    return out[:len_in_bytes]


def hash_to_field(msg, dst, modulus, L=48, count=1, hashname="sha256"):
    """RFC 9380 5.2 for a prime field (m = 1).  Returns a list of `count` ints."""
    uniform = expand_message_xmd(msg, dst, count * L, hashname)
    return [int.from_bytes(uniform[i * L:(i + 1) * L], "big") % modulus for i in range(count)]


# ---- BIP-340 tagged hash ------------------------------------------------------------------
def tagged_hash(tag, data):
    t = hashlib.sha256(tag.encode()).digest()
    return hashlib.sha256(t + t + data).digest()


# ---- suites -------------------------------------------------------------------------------
class _Hashes:
    """H1,H2,H3,HDKG,HID,Hrand -> int ; H4,H5 -> bytes"""
    context = b""

    def H1(self, m):
        return self._to_scalar(b"rho", m)

    def H2(self, m):
        return self._to_scalar(b"chal", m)

    def H3(self, m):
        return self._to_scalar(b"nonce", m)

    def H4(self, m):
        return self._to_bytes(b"msg", m)

    def H5(self, m):
        return self._to_bytes(b"com", m)

    def HDKG(self, m):
        return self._to_scalar(b"dkg", m)

    def HID(self, m):
        return self._to_scalar(b"id", m)

    def Hrand(self, m):
        return self._to_scalar(b"randomizer", m)


class _Sha512LE(_Hashes):
    """scalar = SHA-512(context || tag || m) as 64-byte little-endian integer mod L"""

    def __init__(self, context, plain_h2):
        self.context, self.plain_h2 = context, plain_h2

    def _to_bytes(self, tag, m):
        return hashlib.sha512(self.context + tag + m).digest()

    def _to_scalar(self, tag, m):
        return int.from_bytes(self._to_bytes(tag, m), "little") % L25519

    def H2(self, m):
        if self.plain_h2:  # RFC 8032 compatibility: no context string, no tag
            return int.from_bytes(hashlib.sha512(m).digest(), "little") % L25519
        return self._to_scalar(b"chal", m)


class _Shake256Ed448(_Hashes):
    context = b"FROST-ED448-SHAKE256-v1"

    def _to_bytes(self, tag, m):
        return hashlib.shake_256(self.context + tag + m).digest(114)

    def _to_scalar(self, tag, m):
        return int.from_bytes(self._to_bytes(tag, m), "little") % L448

    def H2(self, m):  # RFC 8032 dom4(0, "") prefix, no FROST context string
        return int.from_bytes(hashlib.shake_256(b"SigEd448\x00\x00" + m).digest(114), "little") % L448


class _Sha256H2F(_Hashes):
    """scalar = hash_to_field(m, DST = context || tag) with XMD:SHA-256, L = 48"""

    def __init__(self, context, order, bip340_h2=False):
        self.context, self.order, self.bip340_h2 = context, order, bip340_h2

    def _to_bytes(self, tag, m):
        return hashlib.sha256(self.context + tag + m).digest()

    def _to_scalar(self, tag, m):
        return hash_to_field(m, self.context + tag, self.order)[0]

    def H2(self, m):
        if self.bip340_h2:
            return int.from_bytes(tagged_hash("BIP0340/challenge", m), "big") % self.order
        return self._to_scalar(b"chal", m)


def get_hashes(suite):
    return {
        "ed25519": lambda: _Sha512LE(b"FROST-ED25519-SHA512-v1", True),
        "ristretto255": lambda: _Sha512LE(b"FROST-RISTRETTO255-SHA512-v1", False),
        "ed448": lambda: _Shake256Ed448(),
        "p256": lambda: _Sha256H2F(b"FROST-P256-SHA256-v1", N_P256),
        "secp256k1": lambda: _Sha256H2F(b"FROST-secp256k1-SHA256-v1", N_SECP),
        "secp256k1-tr": lambda: _Sha256H2F(b"FROST-secp256k1-SHA256-TR-v1", N_SECP, True),
    }[suite]()
